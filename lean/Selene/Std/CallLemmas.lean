/-
Helper lemmas for C05 (`Props/C05.lean`): the model's literal type inference is sound for the
static reading of the Lua reference manual (`CallSpec.lean`) on "tame" expressions, the count
arithmetic equals the documented range, and bookkeeping about which problems each part of
`checkCall` can produce.
-/
import Selene.Std.CallSpec
namespace Selene.Std
open Doc

theorem dropLast_tail (a b : Char) (l : List Char) :
    ((a :: (l ++ [b])).dropLast).tail = l := by
  have : (a :: (l ++ [b])) = (a :: l) ++ [b] := by simp
  rw [this, List.dropLast_concat]; rfl

theorem fromString_short (q : Quote) (c : String) (h : q.isLong = false) :
    Passed.fromString (tokenText q c) = .str c := by
  cases q with
  | long n => simp [Quote.isLong] at h
  | single =>
    simp only [Passed.fromString, tokenText, Quote.opening, Quote.closing, String.toList_append]
    have : ("'" : String).toList = ['\''] := by decide
    rw [this]
    simp [dropLast_tail]
  | double =>
    simp only [Passed.fromString, tokenText, Quote.opening, Quote.closing, String.toList_append]
    have : ("\"" : String).toList = ['"'] := by decide
    rw [this]
    simp [dropLast_tail]

def basicType : ArgType → Option LuaType
  | .bool => some .bool
  | .function => some .function
  | .nil => some .nil
  | .number => some .number
  | .string => some .string
  | .table => some .table
  | _ => none

def Sound : Passed → Static → Prop
  | .prim t, st => t = .vararg ∨ st = .never ∨ ∃ T, basicType t = some T ∧ st = .ty T
  | .str s, st => st = .lit s

def Passed.isStringish : Passed → Bool
  | .prim .string => true
  | .str _ => true
  | _ => false

theorem sameTypeIfEqual_some {l r : Option Passed} {p : Passed}
    (h : sameTypeIfEqual l r = some p) : l = some p ∧ r = some p := by
  unfold sameTypeIfEqual at h
  split at h
  · next heq => subst heq; exact ⟨h, h⟩
  · cases h

theorem stringy_of : ∀ (e : Expr) (p : Passed), getArgType e = some p → p.isStringish = true →
    stringy e = true := by
  intro e
  induction e with
  | paren e ih => intro p h hs; simp only [getArgType] at h; simp only [stringy]; exact ih p h hs
  | unop op e ih =>
    intro p h hs
    cases op with
    | minus => simp only [getArgType] at h; simp only [stringy]; exact ih p h hs
    | hash => simp only [getArgType, Option.some.injEq] at h; subst h; cases hs
    | not => simp only [getArgType, Option.some.injEq] at h; subst h; cases hs
  | binop op l r ihl ihr =>
    intro p h hs
    simp only [getArgType] at h
    cases op <;> simp only [binopType] at h <;>
      first
      | (simp only [stringy, BinOp.isArith]; simp; done)
      | (obtain ⟨h1, h2⟩ := sameTypeIfEqual_some h
         simp only [stringy, BinOp.isArith, ihl p h1 hs, ihr p h2 hs]; simp; done)
      | (simp only [Option.some.injEq] at h; subst h; cases hs; done)
      | (split at h <;> first | (simp only [Option.some.injEq] at h; subst h; cases hs; done) | cases h)
      | cases h
  | str q c => intro p h hs; simp [stringy]
  | _ => intro p h hs; simp only [getArgType, Option.some.injEq] at h <;> first | (subst h; cases hs) | cases h

theorem sound_number_or_never (c : Bool) :
    Sound (.prim .number) (if c then Static.ty .number else .never) := by
  cases c
  · exact Or.inr (Or.inl rfl)
  · exact Or.inr (Or.inr ⟨.number, rfl, rfl⟩)

theorem sound_bool_or_never (c : Bool) :
    Sound (.prim .bool) (if c then Static.ty .bool else .never) := by
  cases c
  · exact Or.inr (Or.inl rfl)
  · exact Or.inr (Or.inr ⟨.bool, rfl, rfl⟩)

theorem sound_string_or_never (c : Bool) :
    Sound (.prim .string) (if c then Static.ty .string else .never) := by
  cases c
  · exact Or.inr (Or.inl rfl)
  · exact Or.inr (Or.inr ⟨.string, rfl, rfl⟩)

/-- arithmetic on an operand whose inferred type is not string-like keeps the inference sound -/
theorem sound_arith (p : Passed) (a : Static) (c : Bool) (ha : Sound p a)
    (hs : p.isStringish = false) :
    Sound p (if a.arithOk && c then Static.ty .number else .never) := by
  cases p with
  | str s => cases hs
  | prim t =>
    rcases ha with hv | hn | ⟨T, hT, hst⟩
    · exact Or.inl hv
    · subst hn; exact Or.inr (Or.inl (by simp [Static.arithOk]))
    · subst hst
      cases t <;> simp only [basicType, Option.some.injEq] at hT <;> try cases hT
      case bool.refl => exact Or.inr (Or.inl (by simp [Static.arithOk]))
      case function.refl => exact Or.inr (Or.inl (by simp [Static.arithOk]))
      case nil.refl => exact Or.inr (Or.inl (by simp [Static.arithOk]))
      case table.refl => exact Or.inr (Or.inl (by simp [Static.arithOk]))
      case number.refl => exact sound_number_or_never _
      case string.refl => cases hs

/-- an operand whose type the implementation inferred is not one the specification knows nothing about -/
theorem sound_known (p : Passed) (a : Static) (ha : Sound p a) :
    p = .prim .vararg ∨ a.isUnknown = false := by
  cases p with
  | str s => have : a = .lit s := ha; subst this; exact Or.inr rfl
  | prim t =>
    rcases ha with hv | hn | ⟨T, _, hst⟩
    · exact Or.inl (by rw [hv])
    · subst hn; exact Or.inr rfl
    · subst hst; exact Or.inr rfl

theorem getArgType_sound : ∀ (e : Expr) (p : Passed), tame e = true → getArgType e = some p →
    Sound p (staticOf e) := by
  intro e
  induction e with
  | paren e ih => intro p ht h; exact ih p (by simpa [tame] using ht) (by simpa [getArgType] using h)
  | str q c =>
    intro p ht h
    simp only [tame, Bool.not_eq_eq_eq_not, Bool.not_true] at ht
    simp only [getArgType, fromString_short q c ht, Option.some.injEq] at h
    subst h; rfl
  | unop op e ih =>
    intro p ht h
    cases op with
    | hash =>
      simp only [getArgType, Option.some.injEq] at h; subst h
      exact sound_number_or_never _
    | not =>
      simp only [getArgType, Option.some.injEq] at h; subst h
      exact sound_bool_or_never _
    | minus =>
      simp only [getArgType] at h
      simp only [tame, Bool.and_eq_true, Bool.not_eq_eq_eq_not, Bool.not_true] at ht
      have hns : p.isStringish = false := by
        cases hp : p.isStringish with
        | false => rfl
        | true => rw [stringy_of e p h hp] at ht; cases ht.2
      have := sound_arith p (staticOf e) true (ih p ht.1 h) hns
      rcases sound_known p _ (ih p ht.1 h) with hv | hk
      · subst hv; exact Or.inl rfl
      · simpa [staticOf, unopStatic, hk] using this
  | binop op l r ihl ihr =>
    intro p ht h
    simp only [getArgType] at h
    cases op
    case caret => simp only [binopType, Option.some.injEq] at h; subst h; exact sound_number_or_never _
    case percent => simp only [binopType, Option.some.injEq] at h; subst h; exact sound_number_or_never _
    case concat => simp only [binopType, Option.some.injEq] at h; subst h; exact sound_string_or_never _
    case and => cases h
    case or => cases h
    case gt | ge | lt | le | eq | ne =>
      simp only [binopType] at h
      split at h
      · cases h
      · simp only [Option.some.injEq] at h; subst h; exact sound_bool_or_never _
    case plus | minus | star | slash =>
      simp only [binopType] at h
      obtain ⟨h1, h2⟩ := sameTypeIfEqual_some h
      simp only [tame, BinOp.isArith, if_true, Bool.and_eq_true, Bool.not_eq_eq_eq_not, Bool.not_true] at ht
      have hns : p.isStringish = false := by
        cases hp : p.isStringish with
        | false => rfl
        | true =>
          have := ht.2
          rw [stringy_of l p h1 hp, stringy_of r p h2 hp] at this; cases this
      have a1 := ihl p ht.1.1 h1
      have a2 := ihr p ht.1.2 h2
      rcases sound_known p _ a1 with hv | hk1
      · subst hv; exact Or.inl rfl
      rcases sound_known p _ a2 with hv | hk2
      · subst hv; exact Or.inl rfl
      -- the result is a number exactly when both operands can take part in arithmetic
      simp only [staticOf, binopStatic, hk1, hk2, Bool.or_false, Bool.false_eq_true, ite_false]
      cases hr : (staticOf r).arithOk with
      | true => exact sound_arith p _ true a1 hns
      | false =>
        have := sound_arith p (staticOf r) true a2 hns
        simp only [hr, Bool.false_and] at this
        simpa using this
  | _ =>
    intro p ht h
    simp only [getArgType, Option.some.injEq] at h
    first
      | (subst h; first
          | exact Or.inl rfl
          | exact Or.inr (Or.inr ⟨_, rfl, rfl⟩))
      | cases h

/-- a reported (argument, parameter) pair: what the loop had checked -/
theorem argFlagged_some {po : Option Passed} {a : Argument} {p : Passed}
    (h : argFlagged po a = some p) :
    po = some p ∧ a.type ≠ .vararg ∧ ¬(a.required = .notRequired ∧ p = .prim .nil) ∧
      p.matches a.type = false := by
  unfold argFlagged at h
  split at h
  · cases h
  · next hv =>
    cases po with
    | none => cases h
    | some pt =>
      simp only at h
      split at h
      · cases h
      · next hn =>
        split at h
        · cases h
        · next hm =>
          simp only [Option.some.injEq] at h
          subst h
          exact ⟨rfl, hv, hn, by simpa using hm⟩

/-- nothing a soundly typed argument can evaluate to is acceptable when `matches` fails -/
theorem not_fits (p : Passed) (st : Static) (t : ArgType) (opt : Bool)
    (hs : Sound p st) (hv : t ≠ .vararg) (hnil : ¬(opt = true ∧ p = .prim .nil))
    (hm : p.matches t = false) : fits t opt st = false := by
  cases p with
  | str s =>
    have : st = .lit s := hs
    subst this
    cases t <;> simp_all [Passed.matches, fits, stringFits]
  | prim t' =>
    rcases hs with h1 | h2 | ⟨T, hT, hst⟩
    · subst h1; simp [Passed.matches] at hm
    · subst h2; rfl
    · subst hst
      cases t' <;> simp only [basicType, Option.some.injEq] at hT <;> try cases hT
      all_goals
        cases t <;> cases opt <;>
          simp_all [Passed.matches, fits, typeFits, ArgType.isConstant]

theorem mem_typeProblems : ∀ (ps : List (Option Passed)) (as : List Argument) (i : Nat)
    (x : Problem), x ∈ typeProblems ps as i →
    ∃ k po a p, x = .type (i + k) a.type p ∧ ps[k]? = some po ∧ as[k]? = some a ∧
      argFlagged po a = some p := by
  intro ps
  induction ps with
  | nil => intro as i x h; simp [typeProblems] at h
  | cons po ps ih =>
    intro as i x h
    cases as with
    | nil => simp [typeProblems] at h
    | cons a as =>
      simp only [typeProblems] at h
      have tailCase : x ∈ typeProblems ps as (i + 1) →
          ∃ k po' a' p, x = .type (i + k) a'.type p ∧ (po :: ps)[k]? = some po' ∧
            (a :: as)[k]? = some a' ∧ argFlagged po' a' = some p := by
        intro h'
        obtain ⟨k, po', a', p, hx, h1, h2, h3⟩ := ih as (i + 1) x h'
        exact ⟨k + 1, po', a', p, by rw [hx]; congr 1; omega, by simpa using h1, by simpa using h2, h3⟩
      cases hf : argFlagged po a with
      | none => rw [hf] at h; exact tailCase h
      | some pt =>
        rw [hf] at h
        rcases List.mem_cons.mp h with h0 | h'
        · exact ⟨0, po, a, pt, by simpa using h0, rfl, rfl, hf⟩
        · exact tailCase h'

theorem typeProblems_mem_of : ∀ (ps : List (Option Passed)) (as : List Argument) (i k : Nat)
    (po : Option Passed) (a : Argument) (p : Passed),
    ps[k]? = some po → as[k]? = some a → argFlagged po a = some p →
    Problem.type (i + k) a.type p ∈ typeProblems ps as i := by
  intro ps
  induction ps with
  | nil => intro as i k po a p h; simp at h
  | cons po0 ps ih =>
    intro as i k po a p h1 h2 h3
    cases as with
    | nil => simp at h2
    | cons a0 as =>
      cases k with
      | zero =>
        simp only [List.getElem?_cons_zero, Option.some.injEq] at h1 h2
        subst h1 h2
        simp [typeProblems, h3]
      | succ k =>
        simp only [List.getElem?_cons_succ] at h1 h2
        have := ih as (i + 1) k po a p h1 h2 h3
        have e : i + 1 + k = i + (k + 1) := by omega
        rw [e] at this
        simp only [typeProblems]
        cases argFlagged po0 a0 with
        | none => exact this
        | some _ => exact List.mem_cons_of_mem _ this
theorem typeProblems_not_count (ps : List (Option Passed)) (as : List Argument) (i : Nat)
    (x : Problem) (h : x ∈ typeProblems ps as i) : x.isCount = false ∧ x.isStyle = false := by
  obtain ⟨k, po, a, p, hx, _⟩ := mem_typeProblems ps as i x h
  subst hx; exact ⟨rfl, rfl⟩

theorem countProblems_isCount (f : FunctionBehavior) (n : Nat) (more : Bool) (x : Problem)
    (h : x ∈ countProblems f n more) : x.isCount = true := by
  unfold countProblems at h
  rcases List.mem_append.mp h with h | h
  · unfold needsVarargPart at h
    cases hm : requiredVarargMessage f with
    | none => rw [hm] at h; cases h
    | some m =>
      rw [hm] at h
      simp only at h
      split at h
      · simp only [List.mem_singleton] at h; subst h; rfl
      · cases h
  · unfold countPart at h
    split at h
    · simp only [List.mem_singleton] at h; subst h; rfl
    · cases h

/-! ### the model's auxiliary readings coincide with the specification's -/

theorem maybeMore_eq_isOpen (c : CallArgs) : c.maybeMore = isOpen c := by
  cases c with
  | parens as =>
    simp only [CallArgs.maybeMore, isOpen, ← List.head?_reverse]
    generalize as.reverse = l
    cases l with
    | nil => rfl
    | cons e _ => cases e <;> rfl
  | string q s => rfl
  | table => rfl

theorem types_length (c : CallArgs) : c.types.length = nArgs c := by
  cases c <;> simp [CallArgs.types, nArgs]

theorem lastParam_eq (f : FunctionBehavior) : lastParam f = f.args.getLast? := by
  simp [lastParam, List.head?_reverse]

theorem lastIsVararg_eq (f : FunctionBehavior) : lastIsVararg f = variadic f := by
  unfold lastIsVararg variadic
  rw [lastParam_eq]
  cases f.args.getLast? <;> rfl

theorem requiredVararg_isSome (f : FunctionBehavior) :
    (requiredVarargMessage f).isSome = requiresVararg f := by
  unfold requiredVarargMessage requiresVararg
  rw [lastParam_eq]
  cases f.args.getLast? with
  | none => rfl
  | some a =>
    simp only [isOptional]
    by_cases hv : a.type = .vararg
    · cases hr : a.required <;> simp [hv]
    · simp [hv]

theorem requiredCount_eq (f : FunctionBehavior) :
    (f.args.filter Argument.isRequired).length = requiredCount f := by
  unfold requiredCount
  congr 1
  apply List.filter_congr
  intro a _
  simp [Argument.isRequired, isOptional]

theorem requiredCount_le (f : FunctionBehavior) : requiredCount f ≤ f.args.length := by
  unfold requiredCount; exact List.length_filter_le _ _

theorem requiresVararg_variadic (f : FunctionBehavior) (h : requiresVararg f = true) :
    variadic f = true := by
  unfold requiresVararg at h
  unfold variadic
  cases hl : lastParam f with
  | none => rw [hl] at h; cases h
  | some a => rw [hl] at h; simp only [Bool.and_eq_true] at h; simpa using h.1

/-- is a count-like problem produced?  (Boolean reading of l. 548-601) -/
def countReported (f : FunctionBehavior) (n : Nat) (more : Bool) : Bool :=
  ((requiredVarargMessage f).isSome && decide (f.args.length > n) && !more) ||
    countCondition f n more

theorem any_countProblems (f : FunctionBehavior) (n : Nat) (more : Bool) :
    (countProblems f n more).any Problem.isCount = countReported f n more := by
  unfold countProblems countReported
  rw [List.any_append]
  congr 1
  · unfold needsVarargPart
    cases hrv : requiredVarargMessage f with
    | none => rfl
    | some m =>
      simp only [Option.isSome_some, Bool.true_and]
      cases hc : (decide (f.args.length > n) && !more) <;> simp [Problem.isCount]
  · unfold countPart
    cases hc : countCondition f n more <;> simp [Problem.isCount]

/-- the arithmetic, restated over the specification's quantities -/
theorem countReported_spec (f : FunctionBehavior) (n : Nat) (more : Bool) :
    countReported f n more =
      ((!more && (decide (n < minArgs f) || (!variadic f && decide (n > f.args.length)))) ||
       (more && !variadic f && decide (n > f.args.length))) := by
  unfold countReported countCondition expectedArgs maxArgs minArgs
  simp only [requiredVararg_isSome, lastIsVararg_eq, requiredCount_eq]
  have hle := requiredCount_le f
  have hrv := requiresVararg_variadic f
  generalize requiredCount f = req at *
  generalize f.args.length = len at *
  cases hr : requiresVararg f
  · cases hva : variadic f <;> cases more <;> simp
  · have hva := hrv hr
    rw [hva]
    cases more
    · rw [Bool.eq_iff_iff]
      simp only [Bool.true_and, if_true, Bool.not_false, Bool.and_true, Bool.not_true,
        Bool.false_and, Bool.or_false, Bool.and_false, Bool.or_eq_true, decide_eq_true_eq]
      omega
    · simp

theorem types_statics (c : CallArgs) (ht : tameArgs c = true) (k : Nat) (p : Passed)
    (h : c.types[k]? = some (some p)) : ∃ st, (statics c)[k]? = some st ∧ Sound p st := by
  cases c with
  | parens as =>
    simp only [CallArgs.types, List.getElem?_map, Option.map_eq_some_iff] at h
    obtain ⟨e, he, hp⟩ := h
    refine ⟨staticOf e, by simp [statics, he], ?_⟩
    have hte : tame e = true := by
      simp only [tameArgs, List.all_eq_true] at ht
      exact ht e (List.mem_of_getElem? he)
    exact getArgType_sound e p hte hp
  | string q s =>
    simp only [tameArgs, Bool.not_eq_eq_eq_not, Bool.not_true] at ht
    cases k with
    | zero =>
      simp only [CallArgs.types, fromString_short q s ht, List.getElem?_cons_zero,
        Option.some.injEq] at h
      subst h
      exact ⟨.lit s, rfl, rfl⟩
    | succ k => simp [CallArgs.types] at h
  | table =>
    cases k with
    | zero =>
      simp only [CallArgs.types, List.getElem?_cons_zero, Option.some.injEq] at h
      subst h
      exact ⟨.ty .table, rfl, Or.inr (Or.inr ⟨.table, rfl, rfl⟩)⟩
    | succ k => simp [CallArgs.types] at h

end Selene.Std
