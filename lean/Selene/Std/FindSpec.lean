/-
Specification of standard-library name lookup, written from docs/src/usage/std.md and the
property text, directly on the flat key ↦ field map: no tree, only "is some defined key an
extension of this path".
-/
import Selene.Std.TrieLemmas
namespace Selene.Std
namespace Doc

/-- an explicit segment beats `*`; a segment is available when some defined key extends the path -/
def choose (m : SegMap) (p : Path) (s : String) : Option String :=
  if hasPrefix m (p ++ [s]) then some s
  else if hasPrefix m (p ++ ["*"]) then some "*"
  else none

/-- the entry defined at exactly this path, or the implicit read-only table -/
def fieldAtPath (m : SegMap) (q : Path) : Field :=
  match m.get q with
  | some f => f
  | none => readOnlyField

def walk (structs : List (String × SegMap)) (m : SegMap) (p : Path) : Path → Lookup
  | [] => .absent
  | [last] =>
    match choose m p last with
    | none => .absent
    | some s' => .found (fieldAtPath m (p ++ [s']))
  | s :: r :: rest =>
    match choose m p s with
    | none => .absent
    | some s' =>
      match (fieldAtPath m (p ++ [s'])).kind with
      | .any => .found (fieldAtPath m (p ++ [s']))
      | .struct n =>
        match getKV structs n with
        | none => .absent                -- a field naming an undefined struct leads nowhere
        | some strukt => walk structs strukt [] (r :: rest)
      | _ => walk structs m (p ++ [s']) (r :: rest)

/-- the documented resolution: explicit entry first, otherwise the segment walk -/
def lookup (l : SegLib) (names : Path) : Lookup :=
  match names with
  | [] => .panic "assert!(!names.is_empty())"
  | _ =>
    match l.globals.get names with
    | some f => .found f
    | none => walk l.structs l.globals [] names

end Doc

/-! ### relating the tree walk to the specification -/

/-- `current` is, observationally, the subtree of `extractIntoTree m` at path `p` -/
def Sub (m : SegMap) (p : Path) (current : Children) : Prop :=
  ∀ q, q ≠ [] → fieldAt current q = fieldAt (extractIntoTree m) (p ++ q)

theorem Sub.root (m : SegMap) : Sub m [] (extractIntoTree m) := fun _ _ => rfl

theorem get_of_hasKey {m : SegMap} {q : Path} (h : hasKey m q = true) : ∃ f, m.get q = some f := by
  unfold hasKey at h; unfold SegMap.get
  induction m with
  | nil => simp at h
  | cons kf rest ih =>
    simp only [List.find?_cons]
    by_cases hk : kf.1 = q
    · simp [hk]
    · simp only [List.any_cons, hk, decide_false, Bool.false_or] at h
      simp only [hk, decide_false]
      exact ih h

theorem get_none_of_not_hasKey {m : SegMap} {q : Path} (h : hasKey m q = false) : m.get q = none := by
  unfold hasKey at h; unfold SegMap.get
  induction m with
  | nil => rfl
  | cons kf rest ih =>
    simp only [List.any_cons, Bool.or_eq_false_iff, decide_eq_false_iff_not] at h
    simp only [List.find?_cons, h.1, decide_false]
    exact ih h.2

theorem childCh_of_get {ch : Children} {s : String} {n : Node} (h : getKV ch s = some n) :
    childCh ch s = n.children := by simp [childCh, h]

/-- what one `get(name)` on the current level tells, in terms of the flat map -/
theorem getKV_spec (m : SegMap) (p : Path) (current : Children) (name : String)
    (hsub : Sub m p current) (hne : KeysNonempty m) :
    match getKV current name with
    | none => hasPrefix m (p ++ [name]) = false
    | some n => hasPrefix m (p ++ [name]) = true ∧
        nodeFieldOf m n.field = some (Doc.fieldAtPath m (p ++ [name])) ∧
        Sub m (p ++ [name]) n.children := by
  have hf := hsub [name] (by simp)
  rw [fieldAt_single, fieldAt_extract m _ hne (by simp)] at hf
  cases hg : getKV current name with
  | none =>
    rw [hg] at hf
    simp only [Option.map_none] at hf
    by_cases h1 : hasKey m (p ++ [name]) = true
    · simp [h1] at hf
    · by_cases h2 : hasPrefix m (p ++ [name]) = true
      · simp [h1, h2] at hf
      · simpa using h2
  | some n =>
    rw [hg] at hf
    simp only [Option.map_some] at hf
    have hchildren : Sub m (p ++ [name]) n.children := by
      intro q hq
      have := hsub (name :: q) (by simp)
      rw [fieldAt_cons _ _ _ hq, childCh_of_get hg] at this
      rw [this]; simp
    by_cases h1 : hasKey m (p ++ [name]) = true
    · simp only [h1, if_true, Option.some.injEq] at hf
      refine ⟨hasPrefix_of_hasKey h1, ?_, hchildren⟩
      obtain ⟨f, hfget⟩ := get_of_hasKey h1
      rw [hf]; simp [nodeFieldOf, Doc.fieldAtPath, hfget]
    · have h1' : hasKey m (p ++ [name]) = false := by simpa using h1
      by_cases h2 : hasPrefix m (p ++ [name]) = true
      · simp [h1', h2] at hf
        refine ⟨h2, ?_, hchildren⟩
        rw [hf]; simp [nodeFieldOf, Doc.fieldAtPath, get_none_of_not_hasKey h1']
      · simp [h1', h2] at hf

theorem stepGet_spec (m : SegMap) (p : Path) (current : Children) (name : String)
    (hsub : Sub m p current) (hne : KeysNonempty m) :
    match stepGet current name with
    | none => Doc.choose m p name = none
    | some n => ∃ s', Doc.choose m p name = some s' ∧
        nodeFieldOf m n.field = some (Doc.fieldAtPath m (p ++ [s'])) ∧
        Sub m (p ++ [s']) n.children := by
  have h1 := getKV_spec m p current name hsub hne
  have h2 := getKV_spec m p current "*" hsub hne
  unfold stepGet Doc.choose
  cases hg : getKV current name with
  | some n =>
    rw [hg] at h1
    exact ⟨name, by simp [h1.1], h1.2.1, h1.2.2⟩
  | none =>
    rw [hg] at h1
    simp only at h1 ⊢
    cases hs : getKV current "*" with
    | some n =>
      rw [hs] at h2
      exact ⟨"*", by simp [h1, h2.1], h2.2.1, h2.2.2⟩
    | none =>
      rw [hs] at h2
      simp only at h2 ⊢
      simp [h1, h2]

/-- **Refinement.** The tree walk equals the specification walk, from any corresponding state. -/
theorem walkTree_eq (structs : List (String × SegMap)) (hstructs : ∀ kv ∈ structs, KeysNonempty kv.2)
    (names : Path) :
    ∀ (m : SegMap) (p : Path) (current : Children), Sub m p current → KeysNonempty m →
      walkTree structs m current names = Doc.walk structs m p names := by
  induction names with
  | nil => intros; rfl
  | cons name more ih =>
    intro m p current hsub hne
    have hstep := stepGet_spec m p current name hsub hne
    cases more with
    | nil =>
      simp only [walkTree, Doc.walk]
      cases hg : stepGet current name with
      | none => rw [hg] at hstep; simp only at hstep; simp [hstep]
      | some n =>
        rw [hg] at hstep
        obtain ⟨s', hc, hfield, _⟩ := hstep
        simp [hc, hfield]
    | cons r rest =>
      simp only [walkTree, Doc.walk]
      cases hg : stepGet current name with
      | none => rw [hg] at hstep; simp only at hstep; simp [hstep]
      | some n =>
        rw [hg] at hstep
        obtain ⟨s', hc, hfield, hchildren⟩ := hstep
        simp only [hc, hfield]
        cases hk : (Doc.fieldAtPath m (p ++ [s'])).kind with
        | any => rfl
        | function f => exact ih m (p ++ [s']) n.children hchildren hne
        | property w => exact ih m (p ++ [s']) n.children hchildren hne
        | removed => exact ih m (p ++ [s']) n.children hchildren hne
        | struct sname =>
          simp only
          cases hsg : getKV structs sname with
          | none => rfl
          | some strukt =>
            have hmem : (sname, strukt) ∈ structs := getKV_mem hsg
            exact ih strukt [] (extractIntoTree strukt) (Sub.root strukt) (hstructs _ hmem)

end Selene.Std
