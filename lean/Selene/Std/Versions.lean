/-
Model of `StandardLibrary::lua_version` (selene-lib/src/standard_library/mod.rs:354) and of
`LuaVersion::to_lua_version` (lua_versions.rs).  The dialect bit table is full_moon's
(`full_moon-1.2.0/src/ast/versions.rs`; third-party, transcribed, validated by correspondence).
-/
import Selene.Std.Basic
namespace Selene.Std

/-- full_moon's `LuaVersion` bitfield; Lua 5.1 is always included. -/
structure Dialects where
  luau : Bool := false
  lua52 : Bool := false
  lua53 : Bool := false
  lua54 : Bool := false
  luajit : Bool := false
deriving DecidableEq, Repr, Inhabited

inductive Feature where
  | luau | lua52 | lua53 | lua54 | luajit
deriving DecidableEq, Repr, Inhabited

def Dialects.has (d : Dialects) : Feature → Bool
  | .luau => d.luau | .lua52 => d.lua52 | .lua53 => d.lua53 | .lua54 => d.lua54 | .luajit => d.luajit

def Dialects.or (a b : Dialects) : Dialects :=
  { luau := a.luau || b.luau, lua52 := a.lua52 || b.lua52, lua53 := a.lua53 || b.lua53,
    lua54 := a.lua54 || b.lua54, luajit := a.luajit || b.luajit }

def Dialects.lua51 : Dialects := {}

/-- `to_lua_version` with every cargo feature enabled (the workspace build); `none` = `Unknown`. -/
def LuaVersion.dialects : LuaVersion → Option Dialects
  | .lua51 => some {}
  | .lua52 => some { lua52 := true }
  | .lua53 => some { lua52 := true, lua53 := true }
  | .lua54 => some { lua52 := true, lua53 := true, lua54 := true }
  | .luau => some { luau := true }
  | .luajit => some { luajit := true }
  | .unknown _ => none

/-- `lua_version()`: start from 5.1, OR every known version, collect the unknown ones as errors -/
def luaVersionStep (acc : Dialects × List String) (v : LuaVersion) : Dialects × List String :=
  match v.dialects with
  | some d => (acc.1.or d, acc.2)
  | none => (acc.1, acc.2 ++ [match v with | .unknown s => s | _ => ""])

def luaVersion (vs : List LuaVersion) : Dialects × List String :=
  vs.foldl luaVersionStep (Dialects.lua51, [])

/-- Which dialects enable a construct of the matrix (any one suffices). Transcribed from
    full_moon's tokenizer / parser feature gates; validated by the correspondence run. -/
inductive Construct where
  | goto_ | label | intDiv | bitwise | attrib | luauType | compoundAssign | interpString
  | continue_ | luajitLiteral | plain51 | luauIfExpr | floorDivAssign | hexEscapeZ
deriving DecidableEq, Repr, Inhabited

def Construct.enabledBy : Construct → List Feature
  | .goto_ => [.lua52, .luajit]
  | .label => [.lua52, .luajit]
  | .intDiv => [.lua53, .luau]
  | .bitwise => [.lua53]
  | .attrib => [.lua54]
  | .luauType => [.luau]
  | .compoundAssign => [.luau]
  | .interpString => [.luau]
  | .continue_ => [.luau]
  | .luajitLiteral => [.luajit]
  | .luauIfExpr => [.luau]
  | .floorDivAssign => [.luau]
  | .hexEscapeZ => [.lua52, .luau, .luajit]
  | .plain51 => []

/-- a construct is accepted iff it is plain 5.1 or one of its enabling dialects is on -/
def accepts (d : Dialects) (c : Construct) : Bool :=
  c.enabledBy.isEmpty || c.enabledBy.any d.has

end Selene.Std
