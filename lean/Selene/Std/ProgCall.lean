/-
What the whole-program lint of `Std/Prog.lean` reports at one use site, in terms of the site-level models
that C05 (`checkCall`) and C06 (`invalidFieldAccess`, `targetProblems`) are stated over: the theorems of
those properties hold at every call, read and assignment target of every program.
-/
import Selene.Std.ProgLemmas
namespace Selene.Std.Prog
open Selene.Lua Selene.Lints

/-- the call suffix and the call shape `visit_function_call` checks -/
def callShape : Suffix → Option Call
  | .args _ a => some { isMethod := false, args := (callArgsOf a).1 }
  | .meth _ _ a => some { isMethod := true, args := (callArgsOf a).1 }
  | _ => none

/-- a call site of a library function: the root identifier is not bound by the script, the name path read off
prefix and suffixes resolves to the function `fb`, and `c` is the shape of the first call suffix -/
structure LibCall (l : SegLib) (R : Nat → Bool) (t : Tok) (ss : SuffixList) (path : List String)
    (fb : FunctionBehavior) (c : Call) : Prop where
  unbound : R t.idx = false
  hpath : namePathPS (.name t) (takeToCall ss.toList) = some path
  hfound : ∃ dep, findGlobal l path = .found { kind := .function fb, deprecated := dep }
  hcall : ∃ cs, (takeToCall ss.toList).getLast? = some cs ∧ callShape cs = some c

/-- **at a library call site the lint reports exactly what the call check of C05 reports** -/
theorem stdCall_kinds (l : SegLib) (R : Nat → Bool) (sp : Span) (t : Tok) (ss : SuffixList) (path : List String)
    (fb : FunctionBehavior) (c : Call) (h : LibCall l R t ss path fb c) :
    (stdCall l R (.mk sp (.name t) ss)).map (·.kind) = (checkCall fb c).map Kind.call := by
  obtain ⟨hu, hp, ⟨dep, hf⟩, ⟨cs, hl, hc⟩⟩ := h
  simp only [stdCall, prefixStart, hu, Bool.false_eq_true, if_false, hp, hl, hf, found?]
  cases cs with
  | args asp a =>
    simp only [callShape, Option.some.injEq] at hc
    subst hc
    simp [checkField, List.map_map, Function.comp_def]
  | meth msp n a =>
    simp only [callShape, Option.some.injEq] at hc
    subst hc
    simp [checkField, List.map_map, Function.comp_def]
  | dot _ _ => simp [callShape] at hc
  | idx _ _ => simp [callShape] at hc
  | unsupported _ => simp [callShape] at hc

/-- every diagnostic at a library call site carries the site's name path -/
theorem stdCall_paths (l : SegLib) (R : Nat → Bool) (sp : Span) (t : Tok) (ss : SuffixList) (path : List String)
    (fb : FunctionBehavior) (c : Call) (h : LibCall l R t ss path fb c) :
    ∀ g ∈ stdCall l R (.mk sp (.name t) ss), g.path = path ∧ g.code = "incorrect_standard_library_use" := by
  obtain ⟨hu, hp, ⟨dep, hf⟩, ⟨cs, hl, hc⟩⟩ := h
  intro g hg
  simp only [stdCall, prefixStart, hu, Bool.false_eq_true, if_false, hp, hl, hf, found?] at hg
  cases cs with
  | args asp a =>
    obtain ⟨pr, _, rfl⟩ := List.mem_map.mp hg
    exact ⟨rfl, rfl⟩
  | meth msp n a =>
    obtain ⟨pr, _, rfl⟩ := List.mem_map.mp hg
    exact ⟨rfl, rfl⟩
  | dot _ _ => simp [callShape] at hc
  | idx _ _ => simp [callShape] at hc
  | unsupported _ => simp [callShape] at hc

/-- **at a read whose root is not bound by the script the lint reports exactly what the field-access check of
C06 reports** -/
theorem stdExpr_kinds (l : SegLib) (R : Nat → Bool) (e : Lua.Expr) (path : List String)
    (hu : R (exprStart e) = false) (hp : namePathE e = some path) :
    (stdExpr l R e).map (·.kind) = (invalidFieldAccess l path).map Kind.access := by
  simp [stdExpr, hu, hp, List.map_map, Function.comp_def]

/-- **an assignment target is judged by the writability table of C06** -/
theorem stdTargets_kinds (l : SegLib) (R : Nat → Bool) : (vs : VarList) →
    (stdTargets l R vs).map (·.kind) = (vs.toList.flatMap fun v => (targetProblems l (targetOf R v)).map Kind.access)
  | .nil => by simp [stdTargets, VarList.toList]
  | .cons v rest => by
    simp only [stdTargets, VarList.toList, List.map_append, List.flatMap_cons, stdTargets_kinds l R rest]
    simp [List.map_map, Function.comp_def]

end Selene.Std.Prog
