/-
Model of the call check of `incorrect_standard_library_use`
(selene-lib/src/lints/standard_library.rs): `visit_function_call` from the point where the
field has been found (l. 429-638), `get_argument_type` (l. 56-203, Lua 5.1 forms),
`PassedArgumentType::{from_string, matches, type_name}` (l. 647-689) and
`Display for ArgumentType` (standard_library/mod.rs:741).

A case is a field kind and a *call shape*: call style (`.`/`:`), argument form (parenthesised
list / string-call sugar / table-call sugar) and the argument expressions.  Name-path lookup is
C06 (`Trie.lean`), scope resolution is C01/C07; neither is modelled here.
Imports nothing outside core Lean (linked into the driver).
-/
import Selene.Std.Basic
namespace Selene.Std

/-! ## Argument expressions (what `get_argument_type` can distinguish) -/

inductive UnOp where
  | hash | minus | not
deriving DecidableEq, Repr, Inhabited

inductive BinOp where
  | caret | gt | ge | lt | le | eq | ne | plus | minus | star | slash | percent | concat | and | or
deriving DecidableEq, Repr, Inhabited

/-- how a string literal is quoted; `long n` = `[==[ … ]==]` with `n` equals signs -/
inductive Quote where
  | single | double | long (level : Nat)
deriving DecidableEq, Repr, Inhabited

def Quote.isLong : Quote → Bool
  | .long _ => true
  | _ => false

inductive Expr where
  | nilLit | trueLit | falseLit
  | number (text : String)
  /-- a string literal: quote kind and the text between the delimiters exactly as written
      (full_moon's `literal`; escapes are not interpreted) -/
  | str (q : Quote) (content : String)
  | vararg                       -- `...`
  | call                         -- `g()`, any function-call expression
  | name (x : String)            -- any `Var`
  | table                        -- table constructor
  | function                     -- anonymous function
  | paren (e : Expr)
  | unop (op : UnOp) (e : Expr)
  | binop (op : BinOp) (l r : Expr)
deriving DecidableEq, Repr, Inhabited

/-- the delimiters full_moon's `Display for TokenType::StringLiteral` writes -/
def Quote.opening : Quote → String
  | .single => "'"
  | .double => "\""
  | .long n => "[" ++ String.ofList (List.replicate n '=') ++ "["

def Quote.closing : Quote → String
  | .single => "'"
  | .double => "\""
  | .long n => "]" ++ String.ofList (List.replicate n '=') ++ "]"

/-- `token.token().to_string()` of a string literal token -/
def tokenText (q : Quote) (content : String) : String :=
  q.opening ++ content ++ q.closing

/-! ## `PassedArgumentType` -/

inductive Passed where
  | prim (t : ArgType)
  | str (text : String)
deriving DecidableEq, Repr, Inhabited

/-- `PassedArgumentType::from_string`: `string.pop(); string.chars().skip(1).collect()` -/
def Passed.fromString (tok : String) : Passed :=
  .str (String.ofList ((tok.toList.dropLast).drop 1))

/-- `PassedArgumentType::from_string_token`: the token's `literal`, whatever the quotes are -/
def Passed.fromStringToken (_q : Quote) (content : String) : Passed := .str content

def ArgType.isConstant : ArgType → Bool
  | .constant _ => true
  | _ => false

/-- `PassedArgumentType::matches` -/
def Passed.matches (p : Passed) (t : ArgType) : Bool :=
  if t = .any then true
  else match p with
    | .prim us => decide (us = .vararg) || decide (us = t) || (decide (us = .string) && t.isConstant)
    | .str text =>
      match t with
      | .constant cs => cs.contains text
      | .string => true
      | _ => false

/-- `Display for ArgumentType` -/
def ArgType.render : ArgType → String
  | .any => "any"
  | .bool => "bool"
  | .constant cs => ", ".intercalate (cs.map fun s => "\"" ++ s ++ "\"")
  | .display d => d
  | .function => "function"
  | .nil => "nil"
  | .number => "number"
  | .string => "string"
  | .table => "table"
  | .vararg => "..."

/-- `PassedArgumentType::type_name` -/
def Passed.typeName : Passed → String
  | .prim t => t.render
  | .str _ => "string"

/-! ## `get_argument_type` -/

def BinOp.isComparison : BinOp → Bool
  | .gt | .ge | .lt | .le | .eq | .ne => true
  | _ => false

/-- `+ - * /` : the operators handed to `same_type_if_equal` -/
def BinOp.isArith : BinOp → Bool
  | .plus | .minus | .star | .slash => true
  | _ => false

/-- `if let Expression::BinaryOperator { binop: And | Or, .. } = &**rhs` -/
def Expr.isAndOr : Expr → Bool
  | .binop .and _ _ => true
  | .binop .or _ _ => true
  | _ => false

/-- `same_type_if_equal` on the already computed operand types -/
def sameTypeIfEqual (l r : Option Passed) : Option Passed :=
  if l = r then l else none

/-- the `BinaryOperator` arm, given the operand types and whether the right operand is itself an
    `and`/`or` node -/
def binopType (op : BinOp) (rhsAndOr : Bool) (lt rt : Option Passed) : Option Passed :=
  match op with
  | .caret => some (.prim .number)
  | .gt | .ge | .lt | .le | .eq | .ne => if rhsAndOr then none else some (.prim .bool)
  | .plus | .minus | .star | .slash => sameTypeIfEqual lt rt
  | .percent => some (.prim .number)
  | .concat => some (.prim .string)
  | .and | .or => none

def getArgType : Expr → Option Passed
  | .paren e => getArgType e
  | .unop .hash _ => some (.prim .number)
  | .unop .minus e => getArgType e
  | .unop .not _ => some (.prim .bool)
  | .function => some (.prim .function)
  | .call => none
  | .number _ => some (.prim .number)
  | .str q c => some (Passed.fromStringToken q c)
  | .falseLit => some (.prim .bool)
  | .trueLit => some (.prim .bool)
  | .nilLit => some (.prim .nil)
  | .vararg => some (.prim .vararg)
  | .table => some (.prim .table)
  | .name _ => none
  | .binop op l r => binopType op r.isAndOr (getArgType l) (getArgType r)

/-! ## The call -/

/-- `ast::FunctionArgs` -/
inductive CallArgs where
  | parens (args : List Expr)              -- `f(a, b)`
  | string (q : Quote) (content : String)  -- `f"x"`, `f[[x]]`
  | table                                  -- `f{}`
deriving DecidableEq, Repr, Inhabited

structure Call where
  isMethod : Bool          -- `a:f(…)` (true) or `a.f(…)` / `f(…)` (false)
  args : CallArgs
deriving DecidableEq, Repr, Inhabited

/-- `argument_types` (ranges dropped: an argument is identified by its position) -/
def CallArgs.types : CallArgs → List (Option Passed)
  | .parens as => as.map getArgType
  | .string q c => [some (Passed.fromStringToken q c)]
  | .table => [some (.prim .table)]

/-- top-level `Expression::FunctionCall` or the `...` symbol -/
def Expr.isOpen : Expr → Bool
  | .call => true
  | .vararg => true
  | _ => false

/-- `maybe_more_arguments` -/
def CallArgs.maybeMore : CallArgs → Bool
  | .parens as =>
    match as.getLast? with
    | some e => e.isOpen
    | none => false
  | _ => false

inductive Problem where
  | notFunction                                   -- "standard library field `…` is not a function"
  | style (callIsMethod : Bool)                   -- "… is not a method" (true) / "… is a method" (false)
  | needsVararg (notes : List String)             -- "… requires use of the vararg"
  | count (expected passed : Nat) (notes : List String)  -- "… requires E parameters, N passed"
  | type (index : Nat) (expected : ArgType) (received : Passed)
      -- "use of standard_library function … is incorrect", label on argument `index`:
      -- "expected `{expected}`, received `{received.type_name()}`"
deriving DecidableEq, Repr, Inhabited

def Argument.isRequired (a : Argument) : Bool :=
  decide (a.required ≠ .notRequired)

/-- `Some(message)` when the last parameter is a `...` that is required -/
def requiredVarargMessage (f : FunctionBehavior) : Option (Option String) :=
  match f.args.getLast? with
  | some a =>
    if a.type = .vararg then
      match a.required with
      | .required m => some m
      | .notRequired => none
    else none
  | none => none

/-- `vararg` -/
def lastIsVararg (f : FunctionBehavior) : Bool :=
  match f.args.getLast? with
  | some a => decide (a.type = .vararg)
  | none => false

/-- `required_param_message` -/
def countNotes (f : FunctionBehavior) (n : Nat) : List String :=
  match f.args[n]? with
  | some a =>
    match a.required with
    | .required (some m) => [m]
    | _ => []
  | none => []

/-- l. 548-572: "requires use of the vararg" -/
def needsVarargPart (f : FunctionBehavior) (n : Nat) (more : Bool) : List Problem :=
  match requiredVarargMessage f with
  | some m => if decide (f.args.length > n) && !more then [.needsVararg m.toList] else []
  | none => []

/-- `expected_args` after l. 566 -/
def expectedArgs (f : FunctionBehavior) : Nat :=
  let expected0 := (f.args.filter Argument.isRequired).length
  if (requiredVarargMessage f).isSome then expected0 - 1 else expected0

/-- `max_args` after l. 567 -/
def maxArgs (f : FunctionBehavior) : Nat :=
  if (requiredVarargMessage f).isSome then f.args.length - 1 else f.args.length

/-- the condition of l. 576-577 -/
def countCondition (f : FunctionBehavior) (n : Nat) (more : Bool) : Bool :=
  (decide (n < expectedArgs f) && !more) || (!lastIsVararg f && decide (n > maxArgs f))

/-- l. 576-601: "requires E parameters, N passed" -/
def countPart (f : FunctionBehavior) (n : Nat) (more : Bool) : List Problem :=
  if countCondition f n more then [.count (expectedArgs f) n (countNotes f n)] else []

/-- l. 517-601: the `expected_args / max_args / vararg / maybe_more_arguments` arithmetic for
    `n` collected arguments -/
def countProblems (f : FunctionBehavior) (n : Nat) (more : Bool) : List Problem :=
  needsVarargPart f n more ++ countPart f n more

/-- one step of the `zip` loop: is this (argument, parameter) pair reported? -/
def argFlagged (p : Option Passed) (a : Argument) : Option Passed :=
  if a.type = .vararg then none
  else match p with
    | none => none
    | some pt =>
      if a.required = .notRequired ∧ pt = .prim .nil then none
      else if pt.matches a.type then none
      else some pt

/-- l. 603-637 -/
def typeProblems : List (Option Passed) → List Argument → Nat → List Problem
  | [], _, _ => []
  | _, [], _ => []
  | p :: ps, a :: as, i =>
    match argFlagged p a with
    | some pt => .type i a.type pt :: typeProblems ps as (i + 1)
    | none => typeProblems ps as (i + 1)

/-- l. 446-638 for a field that is a function -/
def checkCall (f : FunctionBehavior) (c : Call) : List Problem :=
  if f.method ≠ c.isMethod then [.style c.isMethod]
  else
    let tys := c.args.types
    countProblems f tys.length c.args.maybeMore ++ typeProblems tys f.args 0

/-- l. 429-444 -/
def checkField (k : FieldKind) (c : Call) : List Problem :=
  match k with
  | .any => []
  | .function f => checkCall f c
  | _ => [.notFunction]

def Problem.isCount : Problem → Bool
  | .needsVararg _ => true
  | .count _ _ _ => true
  | _ => false

def Problem.isStyle : Problem → Bool
  | .style _ => true
  | _ => false

end Selene.Std
