/-
`RobloxClass::has_property` / `has_event` (selene-lib/src/standard_library/mod.rs): the class itself
followed by its superclasses, looked up by name in `roblox_classes`; at most as many classes are visited
as there are (+ the starting one), so a hierarchy read from a file that contains a cycle cannot keep the
walk going (the code before /repo 0720cb5 recursed along the links and overflowed the stack).
-/
namespace Selene.Std.Roblox

structure Class where
  superclass : String
  events : List String
  properties : List String
deriving DecidableEq, Repr, Inhabited

/-- `BTreeMap<String, RobloxClass>` as an association list (first entry for a key wins; keys are distinct
    in anything that comes out of a map) -/
abbrev Classes := List (String × Class)

def get (cs : Classes) (name : String) : Option Class := (cs.find? (·.1 = name)).map (·.2)

/-- `std::iter::successors(Some(self), |c| roblox_classes.get(&c.superclass)).take(n)` -/
def ancestry (cs : Classes) : Nat → Class → List Class
  | 0, _ => []
  | n + 1, c =>
    c :: (match get cs c.superclass with
      | some s => ancestry cs n s
      | none => [])

def hasProperty (cs : Classes) (c : Class) (p : String) : Bool :=
  (ancestry cs (cs.length + 1) c).any fun k => k.properties.contains p

def hasEvent (cs : Classes) (c : Class) (e : String) : Bool :=
  (ancestry cs (cs.length + 1) c).any fun k => k.events.contains e

/-- the `k`-th superclass of `c` (0 = `c` itself), following the links for as long as they resolve -/
def nthSuper (cs : Classes) : Nat → Class → Option Class
  | 0, c => some c
  | k + 1, c => (get cs c.superclass).bind (nthSuper cs k)

theorem ancestry_length (cs : Classes) (n : Nat) (c : Class) : (ancestry cs n c).length ≤ n := by
  induction n generalizing c with
  | zero => simp [ancestry]
  | succ n ih =>
    unfold ancestry
    cases h : get cs c.superclass with
    | none => simp
    | some s => simpa using Nat.succ_le_succ (ih s)

theorem mem_ancestry (cs : Classes) (n : Nat) (c x : Class) :
    x ∈ ancestry cs n c ↔ ∃ k, k < n ∧ nthSuper cs k c = some x := by
  induction n generalizing c with
  | zero => simp [ancestry]
  | succ n ih =>
    unfold ancestry
    constructor
    · intro h
      rcases List.mem_cons.mp h with h | h
      · exact ⟨0, Nat.succ_pos n, by simp [nthSuper, h]⟩
      · cases hs : get cs c.superclass with
        | none => simp [hs] at h
        | some s =>
          simp only [hs] at h
          obtain ⟨k, hk, hx⟩ := (ih s).mp h
          exact ⟨k + 1, Nat.succ_lt_succ hk, by simp [nthSuper, hs, hx]⟩
    · rintro ⟨k, hk, hx⟩
      cases k with
      | zero =>
        simp only [nthSuper, Option.some.injEq] at hx
        exact List.mem_cons.mpr (Or.inl hx.symm)
      | succ k =>
        simp only [nthSuper] at hx
        cases hs : get cs c.superclass with
        | none => simp [hs] at hx
        | some s =>
          simp only [hs, Option.bind_some] at hx
          exact List.mem_cons.mpr (Or.inr (by simp only [hs]; exact (ih s).mpr ⟨k, Nat.lt_of_succ_lt_succ hk, hx⟩))

end Selene.Std.Roblox
