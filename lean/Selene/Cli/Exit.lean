/-
Model of the command-line tool's counting and exit logic (selene/src/main.rs):
per-file counting in `read` (Allow is neither counted nor printed), missing / unreadable files
(`LINT_ERRORS += 1`), parse errors (`PARSE_ERRORS += 1` each), the exclusion filter, the summary
condition and the final `error_count` test.
-/
namespace Selene.Cli

inductive Sev where
  | allow | error | warning
deriving DecidableEq, Repr, Inhabited

inductive FileOutcome where
  | missing                      -- `fs::metadata` / `File::open` failed: counted as one error
  | unreadable                   -- `read_to_end` failed: counted as one error
  | parseErrors (n : Nat)        -- `n` parse errors, no linting
  | linted (sevs : List Sev)     -- severities of the diagnostics `test_on` returned
deriving DecidableEq, Repr, Inhabited

structure Counts where
  parse : Nat := 0
  errors : Nat := 0
  warnings : Nat := 0
deriving DecidableEq, Repr, Inhabited

def Counts.add (a b : Counts) : Counts :=
  { parse := a.parse + b.parse, errors := a.errors + b.errors, warnings := a.warnings + b.warnings }

def countSev (s : Sev) (l : List Sev) : Nat := (l.filter (· = s)).length

/-- what one file adds to the global counters -/
def FileOutcome.counts : FileOutcome → Counts
  | .missing => { errors := 1 }
  | .unreadable => { errors := 1 }
  | .parseErrors n => { parse := n }
  | .linted sevs => { errors := countSev .error sevs, warnings := countSev .warning sevs }

/-- diagnostics actually written for one file (Allow is skipped by every writer) -/
def FileOutcome.printed : FileOutcome → List Sev
  | .linted sevs => sevs.filter (· ≠ .allow)
  | _ => []

def total (fs : List FileOutcome) : Counts := fs.foldl (fun acc f => acc.add f.counts) {}

structure File where
  path : String
  excludedByPattern : Bool     -- `exclude_set.is_match(path)` (globset: abstract)
  outcome : FileOutcome
deriving DecidableEq, Repr, Inhabited

/-- files that are checked at all -/
def checked (listed : List File) (noExclude : Bool) : List File :=
  listed.filter fun f =>
    match f.outcome with
    | .missing => true                       -- metadata fails before the exclusion test
    | _ => noExclude || !f.excludedByPattern

structure Flags where
  allowWarnings : Bool := false
  noExclude : Bool := false
  noSummary : Bool := false
  luacheck : Bool := false
deriving DecidableEq, Repr, Inhabited

/-- the process exit status -/
def exitCode (c : Counts) (stdErrors panics : Nat) (allowWarnings : Bool) : Nat :=
  let errorCount := c.parse + c.errors + c.warnings + stdErrors + panics
  if errorCount > 0 then
    if errorCount ≠ c.warnings || !allowWarnings then 1 else 0
  else 0

def summaryPrinted (fl : Flags) : Bool := !fl.luacheck && !fl.noSummary

structure RunResult where
  counts : Counts
  exit : Nat
  summary : Bool
deriving DecidableEq, Repr, Inhabited

def runCli (listed : List File) (fl : Flags) (panics : Nat := 0) : RunResult :=
  let c := total ((checked listed fl.noExclude).map (·.outcome))
  { counts := c, exit := exitCode c 0 panics fl.allowWarnings, summary := summaryPrinted fl }

end Selene.Cli
