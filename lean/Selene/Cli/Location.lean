/-
Model of byte offset → (line, column) as used by every display style
(codespan 0.11 `Files::location`: line = index of the last line start ≤ offset, column = number
of characters between that line start and the offset, error when the offset is past the end or
not on a character boundary), and of the projection each display style prints.
-/
namespace Selene.Cli

/-- UTF-8 width of a character (what `char::len_utf8` returns) -/
def utf8Width (c : Char) : Nat :=
  if c.val < 0x80 then 1 else if c.val < 0x800 then 2 else if c.val < 0x10000 then 3 else 4

inductive LocError where
  | indexTooLarge
  | invalidCharBoundary
deriving DecidableEq, Repr, Inhabited

structure Loc where
  line : Nat      -- 0-based, as serialised by the json styles
  column : Nat    -- 0-based, in characters
deriving DecidableEq, Repr, Inhabited

/-- single left-to-right scan, as a line-index + `chars().count()` implementation behaves -/
def scan : List Char → (target offset line col : Nat) → Except LocError Loc
  | [], target, offset, line, col =>
    if offset = target then .ok ⟨line, col⟩ else .error .indexTooLarge
  | c :: rest, target, offset, line, col =>
    if offset = target then .ok ⟨line, col⟩
    else if offset + utf8Width c > target then .error .invalidCharBoundary
    else if c = '\n' then scan rest target (offset + utf8Width c) (line + 1) 0
    else scan rest target (offset + utf8Width c) line (col + 1)

def ofByte (src : List Char) (b : Nat) : Except LocError Loc := scan src b 0 0 0

def byteLen (cs : List Char) : Nat := (cs.map utf8Width).sum

/-! the projection every display style must agree on -/
inductive Severity where
  | error | warning
deriving DecidableEq, Repr, Inhabited

structure Diag where
  file : String
  code : String
  severity : Severity
  start : Nat
  stop : Nat
  message : String
deriving DecidableEq, Repr, Inhabited

structure Row where
  file : String
  code : String
  severity : Severity
  line : Nat      -- 1-based
  column : Nat    -- 1-based
  message : String
deriving DecidableEq, Repr, Inhabited

inductive Style where
  | rich | quiet | json | json2 | luacheck
deriving DecidableEq, Repr, Inhabited

/-- what a style shows for one diagnostic, or the reason it cannot (a panic in the Rust) -/
def render (src : List Char) (s : Style) (d : Diag) : Except LocError Row :=
  match ofByte src d.start with
  | .error e => .error e
  | .ok l =>
    let row : Row := { file := d.file, code := d.code, severity := d.severity, line := l.line + 1,
                       column := l.column + 1, message := d.message }
    match s with
    | .rich | .quiet => .ok row                       -- codespan's own renderer clamps the *end* offset
    | .json | .json2 | .luacheck =>                   -- these call `location(end).unwrap()` as well
      match ofByte src d.stop with
      | .error e => .error e
      | .ok _ => .ok row

end Selene.Cli
