/-
Model of the worker pool's externally visible protocol (selene/src/main.rs `read`, `read_file`,
`emit_codespan_locked`, the three global counters and the stdout lock).

Each file is a job executed by some worker thread.  A run is a sequence of atomic events; the
model is a validator `step` that accepts exactly the event sequences in which
  * the stdout lock is held by at most one thread, only the holder writes,
  * counters change only by `fetch_add`,
  * the summary totals equal the counters.
Assumed (not modelled): atomicity of `fetch_add`, mutual exclusion of `StdoutLock`, and that the
hook events inside a lock span are really emitted while the lock is held (hooks are placed after
`stdout.lock()` and before the guard drops).
-/
import Selene.Cli.Exit
namespace Selene.Cli

abbrev Tid := String

inductive Ctr where
  | parse | errors | warnings
deriving DecidableEq, Repr, Inhabited

inductive Ev where
  | jobStart (t : Tid) (file : String)
  | jobEnd (t : Tid)
  | add (t : Tid) (c : Ctr) (n : Nat)
  | lock (t : Tid)
  | unlock (t : Tid)
  | emit (t : Tid) (code : String) (pos : Nat)
  | totals (parse errors warnings : Nat)
deriving DecidableEq, Repr, Inhabited

structure Emit where
  tid : Tid
  code : String
  pos : Nat
deriving DecidableEq, Repr, Inhabited

structure Block where
  tid : Tid
  file : String
  emits : List Emit
deriving DecidableEq, Repr, Inhabited

structure PoolSt where
  holder : Option Tid := none
  jobs : List (Tid × String) := []      -- the file each busy worker is processing
  counts : Counts := {}
  cur : List Emit := []                 -- writes of the open lock span
  blocks : List Block := []             -- closed lock spans, in order
  totalsSeen : Bool := false
deriving Repr, Inhabited

def jobOf (st : PoolSt) (t : Tid) : Option String := (st.jobs.find? (·.1 = t)).map (·.2)

def Counts.bump (c : Counts) : Ctr → Nat → Counts
  | .parse, n => { c with parse := c.parse + n }
  | .errors, n => { c with errors := c.errors + n }
  | .warnings, n => { c with warnings := c.warnings + n }

def step (st : PoolSt) : Ev → Except String PoolSt
  | .jobStart t f =>
    if (jobOf st t).isSome then .error s!"thread {t} starts {f} while still busy"
    else .ok { st with jobs := (t, f) :: st.jobs }
  | .jobEnd t =>
    if (jobOf st t).isNone then .error s!"thread {t} ends a job it never started"
    else if st.holder = some t then .error s!"thread {t} ends its job while holding the stdout lock"
    else .ok { st with jobs := st.jobs.filter (·.1 ≠ t) }
  | .add _ c n => .ok { st with counts := st.counts.bump c n }
  | .lock t =>
    match st.holder with
    | some h => .error s!"thread {t} acquires the stdout lock while {h} holds it"
    | none => .ok { st with holder := some t }
  | .unlock t =>
    if st.holder = some t then
      .ok { st with holder := none, cur := [],
                    blocks := st.blocks ++ [{ tid := t, file := (jobOf st t).getD "", emits := st.cur }] }
    else .error s!"thread {t} releases a lock it does not hold"
  | .emit t code pos =>
    if st.holder = some t then .ok { st with cur := st.cur ++ [{ tid := t, code, pos }] }
    else .error s!"thread {t} writes {code}@{pos} without holding the stdout lock"
  | .totals p e w =>
    if st.holder.isSome then .error "summary computed while a worker holds the lock"
    else if !st.jobs.isEmpty then .error "summary computed before every job ended (pool.join)"
    else if st.counts.parse = p ∧ st.counts.errors = e ∧ st.counts.warnings = w then
      .ok { st with totalsSeen := true }
    else .error s!"summary totals ({p},{e},{w}) differ from the counters ({st.counts.parse},{st.counts.errors},{st.counts.warnings})"

def run (st : PoolSt) : List Ev → Except String PoolSt
  | [] => .ok st
  | e :: rest =>
    match step st e with
    | .ok st' => run st' rest
    | .error m => .error m

/-- the writes of a trace, in order -/
def emitsOf : List Ev → List Emit
  | [] => []
  | .emit t c p :: rest => { tid := t, code := c, pos := p } :: emitsOf rest
  | _ :: rest => emitsOf rest

/-- the counter additions of a trace -/
def addsOf : List Ev → List (Ctr × Nat)
  | [] => []
  | .add _ c n :: rest => (c, n) :: addsOf rest
  | _ :: rest => addsOf rest

def sumAdds (l : List (Ctr × Nat)) : Counts := l.foldl (fun acc cn => acc.bump cn.1 cn.2) {}

def isLint (e : Emit) : Bool := e.code ≠ "parse_error"

/-- per-file output discipline: all lint diagnostics of one job in one lock span (one
uninterrupted block), every parse error in a span of its own -/
def blocksOk (blocks : List Block) : Bool :=
  let lintBlocks := blocks.filter fun b => b.emits.any isLint
  let files := lintBlocks.map (·.file)
  -- one lint block per file
  files.length == files.eraseDups.length &&
  -- a block never mixes parse errors and lint diagnostics, parse errors come one per span
  blocks.all fun b => (b.emits.all isLint) || (b.emits.length == 1)

end Selene.Cli
