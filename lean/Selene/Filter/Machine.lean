/-
Model of inline lint filtering (selene-lib/src/lint_filtering.rs):
* `parseComment`   — `parse_comment`
* `claim`          — `FilterVisitor::visit_node` over the node sequence `NodeVisitor` produces
* `filterDiagnostics` — `filter_diagnostics`: global-late and conflict checks, ordered insertion of
  `Pop` then `Push`, globals appended with byte 0, diagnostics stably sorted by start, lazy replay
  of the instruction list from its tail, "most recent matching configuration wins".
-/
namespace Selene.Filter

inductive Sev where
  | allow | error | warning
deriving DecidableEq, Repr, Inhabited

/-- `LintVariation::to_severity` -/
def variationSeverity : String → Option Sev
  | "allow" => some .allow
  | "deny" => some .error
  | "warn" => some .warning
  | _ => none

structure Config where
  global : Bool
  lint : String
  sev : Sev
deriving DecidableEq, Repr, Inhabited

/-! ### parse_comment -/

def isWs (c : Char) : Bool := c.isWhitespace

def stripPrefix (p s : List Char) : Option (List Char) :=
  match p, s with
  | [], s => some s
  | _ :: _, [] => none
  | a :: p', b :: s' => if a = b then stripPrefix p' s' else none

/-- the `for character in config.chars()` loop -/
def scanConfig : List Char → (variation lint : List Char) → (checkLint : Bool) → Option (List Char × List Char)
  | [], _, _, _ => none                                  -- never `finished`
  | c :: rest, v, l, chk =>
    if c = '(' then scanConfig rest v l true
    else if c = ')' then some (v, l)
    else if chk then scanConfig rest v (l ++ [c]) chk
    else scanConfig rest (v ++ [c]) l chk

def splitOnComma (l : List Char) : List (List Char) :=
  let r := l.foldl (fun (acc : List (List Char) × List Char) c =>
    if c = ',' then (acc.1 ++ [acc.2], []) else (acc.1, acc.2 ++ [c])) ([], [])
  r.1 ++ [r.2]

def parseComment (comment : List Char) : Option (List Config) :=
  let c := comment.filter (fun ch => !isWs ch)
  let (global, c) := match stripPrefix ['#'] c with
    | some rest => (true, rest)
    | none => (false, c)
  match stripPrefix "selene:".toList c with
  | none => none
  | some cfg =>
    match scanConfig cfg [] [] false with
    | none => none
    | some (v, l) =>
      if v.isEmpty || l.isEmpty then none
      else match variationSeverity (String.ofList v) with
        | none => none
        | some sev => some ((splitOnComma l).map fun name => { global, lint := String.ofList name, sev })

/-! ### which node claims a comment -/

structure Comment where
  start : Nat
  stop : Nat
  lines : List (List Char)      -- `comment.lines()` of the comment's inner text
deriving DecidableEq, Repr, Inhabited

structure NodeInfo where
  isBlock : Bool                -- `VisitorType::VisitBlock` (ignored)
  start : Nat
  stop : Nat
  leading : List Comment        -- comments in the node's leading trivia
deriving DecidableEq, Repr, Inhabited

structure Filter where
  cfg : Config
  commentRange : Nat × Nat
  range : Nat × Nat
deriving DecidableEq, Repr, Inhabited

inductive RangeEntry where
  | ok (f : Filter)
  | rejected (commentRange : Nat × Nat) (lint : String)      -- "no lint named … exists"
deriving DecidableEq, Repr, Inhabited

/-- `get_filter_ranges`: nodes in visit order; a comment is looked at once (`comments_checked`) -/
def claim (lintExists : String → Bool) : List NodeInfo → List (Nat × Nat) → List RangeEntry
  | [], _ => []
  | n :: rest, checked =>
    if n.isBlock then claim lintExists rest checked
    else
      let fresh := n.leading.filter fun c => !checked.contains (c.start, c.stop)
      -- a comment repeated inside one node's trivia list is only handled once
      let fresh := fresh.foldl (fun acc c => if acc.any (fun d => d.start = c.start ∧ d.stop = c.stop) then acc else acc ++ [c]) []
      let entries := fresh.flatMap fun c =>
        c.lines.flatMap fun line =>
          match parseComment line with
          | none => []
          | some cfgs => cfgs.map fun cfg =>
            if lintExists cfg.lint then
              RangeEntry.ok { cfg, commentRange := (c.start, c.stop), range := (n.start, n.stop) }
            else RangeEntry.rejected (c.start, c.stop) cfg.lint
      entries ++ claim lintExists rest (checked ++ fresh.map fun c => (c.start, c.stop))

/-! ### the filter machine -/

structure Diag where
  code : String
  start : Nat
  sev : Sev
  tag : String            -- identity of the diagnostic (everything the machine does not look at)
deriving DecidableEq, Repr, Inhabited

inductive Instr where
  | push (cfg : Config) (bytes : Nat)
  | pop (bytes : Nat)
deriving DecidableEq, Repr, Inhabited

def Instr.bytes : Instr → Nat
  | .push _ b => b
  | .pop b => b

inductive Failure where
  | globalLate (commentRange : Nat × Nat)
  | conflict (commentRange : Nat × Nat) (withComment : Nat × Nat)
  | unknownLint (commentRange : Nat × Nat) (lint : String)
deriving DecidableEq, Repr, Inhabited

/-- `instructions.insert(position(|i| i.bytes() < x).unwrap_or(len), new)` -/
def insertInstr (is : List Instr) (x : Nat) (new : Instr) : List Instr :=
  match is with
  | [] => [new]
  | i :: rest => if i.bytes < x then new :: i :: rest else i :: insertInstr rest x new

structure BuildSt where
  globals : List Filter := []
  instrs : List Instr := []
  conflicting : Option ((Nat × Nat) × List Filter) := none
  failures : List Failure := []
deriving Repr, Inhabited

/-- "global filters must come before any code" -/
def isLate (firstCode : Option Nat) (f : Filter) : Bool :=
  f.cfg.global && (match firstCode with | some fc => decide (f.commentRange.1 ≥ fc) | none => false)

/-- one iteration of `for filter in filters` -/
def buildStep (firstCode : Option Nat) (st : BuildSt) (f : Filter) : BuildSt :=
  if isLate firstCode f then { st with failures := st.failures ++ [.globalLate f.commentRange] }
  else
    let (confl, fails) :=
      match st.conflicting with
      | some (range, fs) =>
        if range = f.range then
          (some (range, fs ++ [f]),
           (fs.filter fun g => g.cfg.lint = f.cfg.lint).map fun g => Failure.conflict f.commentRange g.commentRange)
        else (some (f.range, [f]), [])
      | none => (some (f.range, [f]), [])
    let st := { st with conflicting := confl, failures := st.failures ++ fails }
    if f.cfg.global then { st with globals := st.globals ++ [f] }
    else
      let is := insertInstr st.instrs f.range.2 (.pop f.range.2)
      let is := insertInstr is f.range.1 (.push f.cfg f.range.1)
      { st with instrs := is }

def build (firstCode : Option Nat) (fs : List Filter) : BuildSt :=
  let st := fs.foldl (buildStep firstCode) {}
  { st with instrs := st.instrs ++ st.globals.map fun g => Instr.push g.cfg 0 }

/-- execute, from the tail of the list, every instruction whose byte is ≤ `start`;
    `none` = `Pop` on an empty stack (the `expect` panic). The list is kept reversed here
    (`pending` = execution order) for structural recursion. -/
def runPending : List Instr → List Config → Nat → Option (List Instr × List Config)
  | [], stack, _ => some ([], stack)
  | i :: rest, stack, start =>
    if i.bytes ≤ start then
      match i with
      | .push cfg _ => runPending rest (cfg :: stack) start
      | .pop _ =>
        match stack with
        | [] => none
        | _ :: s => runPending rest s start
    else some (i :: rest, stack)

/-- "Find the most recent configuration for this lint" (stack head = most recently pushed) -/
def decide1 (stack : List Config) (d : Diag) : Option Diag :=
  match stack.find? (fun c => c.lint = d.code) with
  | some c => if c.sev = .allow then none else some { d with sev := c.sev }
  | none => some d

def runDiags : List Diag → List Instr → List Config → Option (List Diag)
  | [], _, _ => some []
  | d :: ds, pending, stack =>
    match runPending pending stack d.start with
    | none => none
    | some (pending', stack') =>
      match runDiags ds pending' stack' with
      | none => none
      | some out => some ((decide1 stack' d).toList ++ out)

/-- stable insertion sort by `start` (`sort_by_key`) -/
def insertSorted (d : Diag) : List Diag → List Diag
  | [] => [d]
  | e :: rest => if d.start ≤ e.start then d :: e :: rest else e :: insertSorted d rest

def sortDiags (ds : List Diag) : List Diag := ds.foldr insertSorted []

structure Output where
  diags : List Diag
  failures : List Failure
deriving DecidableEq, Repr, Inhabited

def RangeEntry.filter? : RangeEntry → Option Filter
  | .ok f => some f
  | .rejected _ _ => none

def RangeEntry.failure? : RangeEntry → Option Failure
  | .ok _ => none
  | .rejected r l => some (.unknownLint r l)

def filtersOf (entries : List RangeEntry) : List Filter := entries.filterMap RangeEntry.filter?
def rejectedOf (entries : List RangeEntry) : List Failure := entries.filterMap RangeEntry.failure?

/-- `filter_diagnostics` (`none` = panic) -/
def filterDiagnostics (entries : List RangeEntry) (firstCode : Option Nat) (ds : List Diag) : Option Output :=
  if (filtersOf entries).isEmpty then some { diags := ds, failures := rejectedOf entries }
  else
    let st := build firstCode (filtersOf entries)
    match runDiags (sortDiags ds) st.instrs.reverse [] with
    | none => none
    | some out => some { diags := out, failures := rejectedOf entries ++ st.failures }

end Selene.Filter
