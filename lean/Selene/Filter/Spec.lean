/-
Specification of inline filtering, from docs/src/usage/filtering.md and the property text:
the innermost covering filter for the diagnostic's lint decides; otherwise a global filter;
otherwise the diagnostic is unchanged.
-/
import Selene.Filter.Machine
namespace Selene.Filter
namespace Spec

def applySev (sev : Sev) (d : Diag) : Option Diag :=
  if sev = .allow then none else some { d with sev := sev }

def covers (f : Filter) (d : Diag) : Bool :=
  !f.cfg.global && f.cfg.lint = d.code && f.range.1 ≤ d.start && d.start < f.range.2

/-- innermost = starts last (ranges claimed by one tree are nested or apart, and two different
    ranges never start at the same byte); among filters of one range the earliest comment wins -/
def innermost : List Filter → Option Filter
  | [] => none
  | f :: rest =>
    match innermost rest with
    | none => some f
    | some g => if g.range.1 > f.range.1 then some g else some f

/-- global filters that are accepted (those placed after code are rejected) -/
def acceptedGlobal (firstCode : Option Nat) (f : Filter) : Bool :=
  f.cfg.global && !isLate firstCode f

def verdict (fs : List Filter) (firstCode : Option Nat) (d : Diag) : Option Diag :=
  match innermost (fs.filter fun f => covers f d) with
  | some f => applySev f.cfg.sev d
  | none =>
    match (fs.filter fun f => acceptedGlobal firstCode f && f.cfg.lint = d.code).head? with
    | some g => applySev g.cfg.sev d
    | none => some d

/-- invalid_lint_filter diagnostics the documentation promises -/
def failures (entries : List RangeEntry) (firstCode : Option Nat) : List Failure :=
  let rejected := rejectedOf entries
  let fs := filtersOf entries
  let late := fs.filter fun f => f.cfg.global && !acceptedGlobal firstCode f
  let ok := fs.filter fun f => !(f.cfg.global && !acceptedGlobal firstCode f)
  -- a filter conflicts with every *earlier* accepted filter of the same piece of code and lint
  let conflicts := (ok.zipIdx).flatMap fun (f, i) =>
    ((ok.take i).filter fun g => g.range = f.range && g.cfg.lint = f.cfg.lint).map fun g =>
      Failure.conflict f.commentRange g.commentRange
  rejected ++ late.map (fun f => Failure.globalLate f.commentRange) ++ conflicts

end Spec
end Selene.Filter
