import Selene.Filter.Spec
namespace Selene.Filter

theorem decide1_unmatched (stack : List Config) (d : Diag)
    (h : ∀ c ∈ stack, c.lint ≠ d.code) : decide1 stack d = some d := by
  unfold decide1
  have : stack.find? (fun c => c.lint = d.code) = none := by
    apply List.find?_eq_none.mpr
    intro c hc; simpa using h c hc
  simp [this]

/-- configurations an instruction list can ever push -/
def pushedConfigs (is : List Instr) : List Config :=
  is.filterMap fun i => match i with | .push c _ => some c | .pop _ => none

theorem runPending_configs (pending : List Instr) (stack : List Config) (start : Nat)
    (pending' : List Instr) (stack' : List Config)
    (h : runPending pending stack start = some (pending', stack')) :
    (∀ c ∈ stack', c ∈ stack ∨ c ∈ pushedConfigs pending) ∧
    (∀ c ∈ pushedConfigs pending', c ∈ pushedConfigs pending) := by
  induction pending generalizing stack with
  | nil => simp [runPending] at h; obtain ⟨h1, h2⟩ := h; subst h1 h2; simp [pushedConfigs]
  | cons i rest ih =>
    simp only [runPending] at h
    split at h
    · cases i with
      | push cfg b =>
        simp only at h
        obtain ⟨a1, a2⟩ := ih (cfg :: stack) h
        refine ⟨?_, ?_⟩
        · intro c hc
          rcases a1 c hc with h1 | h1
          · rcases List.mem_cons.mp h1 with h2 | h2
            · subst h2; exact Or.inr (by simp [pushedConfigs])
            · exact Or.inl h2
          · exact Or.inr (by simp only [pushedConfigs, List.filterMap_cons]; exact List.mem_cons_of_mem _ h1)
        · intro c hc
          simp only [pushedConfigs, List.filterMap_cons]; exact List.mem_cons_of_mem _ (a2 c hc)
      | pop b =>
        simp only at h
        cases stack with
        | nil => simp at h
        | cons top s =>
          simp only at h
          obtain ⟨a1, a2⟩ := ih s h
          refine ⟨?_, ?_⟩
          · intro c hc
            rcases a1 c hc with h1 | h1
            · exact Or.inl (List.mem_cons_of_mem _ h1)
            · exact Or.inr (by simpa [pushedConfigs] using h1)
          · intro c hc; simpa [pushedConfigs] using a2 c hc
    · simp at h; obtain ⟨h1, h2⟩ := h; subst h1 h2
      exact ⟨fun c hc => Or.inl hc, fun c hc => hc⟩

/-- a diagnostic whose lint no reachable configuration names passes through unchanged -/
theorem runDiags_untouched (ds : List Diag) (pending : List Instr) (stack : List Config) (out : List Diag)
    (h : runDiags ds pending stack = some out) (d : Diag) (hd : d ∈ ds)
    (hs : ∀ c ∈ stack, c.lint ≠ d.code) (hp : ∀ c ∈ pushedConfigs pending, c.lint ≠ d.code) :
    d ∈ out := by
  induction ds generalizing pending stack out with
  | nil => simp at hd
  | cons e rest ih =>
    simp only [runDiags] at h
    cases hr : runPending pending stack e.start with
    | none => rw [hr] at h; simp at h
    | some ps =>
      obtain ⟨pending', stack'⟩ := ps
      rw [hr] at h
      simp only at h
      cases hrest : runDiags rest pending' stack' with
      | none => rw [hrest] at h; simp at h
      | some out' =>
        rw [hrest] at h
        simp only [Option.some.injEq] at h
        subst h
        obtain ⟨a1, a2⟩ := runPending_configs pending stack e.start pending' stack' hr
        have hs' : ∀ c ∈ stack', c.lint ≠ d.code := by
          intro c hc
          rcases a1 c hc with h1 | h1
          · exact hs c h1
          · exact hp c h1
        have hp' : ∀ c ∈ pushedConfigs pending', c.lint ≠ d.code := fun c hc => hp c (a2 c hc)
        rcases List.mem_cons.mp hd with he | he
        · subst he
          rw [decide1_unmatched stack' d hs']
          simp
        · exact List.mem_append_right _ (ih pending' stack' out' hrest he hs' hp')

theorem mem_insertSorted (d e : Diag) (l : List Diag) : e ∈ insertSorted d l ↔ e = d ∨ e ∈ l := by
  induction l with
  | nil => simp [insertSorted]
  | cons x rest ih =>
    simp only [insertSorted]
    split
    · simp
    · simp only [List.mem_cons, ih]
      constructor
      · rintro (h | h | h)
        · exact Or.inr (Or.inl h)
        · exact Or.inl h
        · exact Or.inr (Or.inr h)
      · rintro (h | h | h)
        · exact Or.inr (Or.inl h)
        · exact Or.inl h
        · exact Or.inr (Or.inr h)

theorem mem_sortDiags (e : Diag) (ds : List Diag) : e ∈ sortDiags ds ↔ e ∈ ds := by
  induction ds with
  | nil => simp [sortDiags]
  | cons d rest ih =>
    simp only [sortDiags, List.foldr_cons] at ih ⊢
    rw [mem_insertSorted, ih]; simp

theorem pushed_insertInstr (is : List Instr) (x : Nat) (new : Instr) (c : Config) :
    c ∈ pushedConfigs (insertInstr is x new) ↔ c ∈ pushedConfigs [new] ∨ c ∈ pushedConfigs is := by
  induction is with
  | nil => simp [insertInstr, pushedConfigs]
  | cons i rest ih =>
    simp only [insertInstr]
    split
    · simp [pushedConfigs, List.filterMap_cons]
      cases new <;> cases i <;> simp
    · simp only [pushedConfigs, List.filterMap_cons] at ih ⊢
      cases i with
      | push c' b =>
        simp only [List.mem_cons, ih]
        constructor
        · rintro (h | h | h)
          · exact Or.inr (Or.inl h)
          · exact Or.inl h
          · exact Or.inr (Or.inr h)
        · rintro (h | h | h)
          · exact Or.inr (Or.inl h)
          · exact Or.inl h
          · exact Or.inr (Or.inr h)
      | pop b => simpa using ih

theorem buildStep_instrs (fc : Option Nat) (st : BuildSt) (f : Filter) :
    (buildStep fc st f).instrs =
      if isLate fc f then st.instrs
      else if f.cfg.global then st.instrs
      else insertInstr (insertInstr st.instrs f.range.2 (.pop f.range.2)) f.range.1 (.push f.cfg f.range.1) := by
  unfold buildStep
  by_cases h1 : isLate fc f = true
  · simp [h1]
  · by_cases h2 : f.cfg.global = true <;> simp [h1, h2]

theorem buildStep_globals (fc : Option Nat) (st : BuildSt) (f : Filter) :
    (buildStep fc st f).globals =
      if isLate fc f then st.globals
      else if f.cfg.global then st.globals ++ [f]
      else st.globals := by
  unfold buildStep
  by_cases h1 : isLate fc f = true
  · simp [h1]
  · by_cases h2 : f.cfg.global = true <;> simp [h1, h2]

/-- every configuration in the built instruction list belongs to one of the filters -/
theorem build_configs (firstCode : Option Nat) (fs : List Filter) (c : Config)
    (h : c ∈ pushedConfigs (build firstCode fs).instrs) : ∃ f ∈ fs, f.cfg = c := by
  unfold build at h
  have inv : ∀ (l : List Filter) (st : BuildSt) (P : Config → Prop),
      (∀ c, c ∈ pushedConfigs st.instrs → P c) → (∀ g ∈ st.globals, P g.cfg) → (∀ f ∈ l, P f.cfg) →
      (∀ c, c ∈ pushedConfigs (l.foldl (buildStep firstCode) st).instrs → P c) ∧
      (∀ g ∈ (l.foldl (buildStep firstCode) st).globals, P g.cfg) := by
    intro l
    induction l with
    | nil => intro st P h1 h2 _; exact ⟨h1, h2⟩
    | cons f rest ih =>
      intro st P h1 h2 h3
      simp only [List.foldl_cons]
      apply ih (buildStep firstCode st f) P
      · intro c hc
        rw [buildStep_instrs] at hc
        by_cases hl : isLate firstCode f = true
        · rw [if_pos hl] at hc; exact h1 c hc
        · rw [if_neg hl] at hc
          by_cases hg : f.cfg.global = true
          · rw [if_pos hg] at hc; exact h1 c hc
          · rw [if_neg hg, pushed_insertInstr, pushed_insertInstr] at hc
            rcases hc with hc | hc | hc
            · simp [pushedConfigs] at hc; subst hc; exact h3 f (by simp)
            · simp [pushedConfigs] at hc
            · exact h1 c hc
      · intro g hg
        rw [buildStep_globals] at hg
        by_cases hl : isLate firstCode f = true
        · rw [if_pos hl] at hg; exact h2 g hg
        · rw [if_neg hl] at hg
          by_cases hgl : f.cfg.global = true
          · rw [if_pos hgl] at hg
            simp only [List.mem_append, List.mem_singleton] at hg
            rcases hg with hg | hg
            · exact h2 g hg
            · subst hg; exact h3 g (by simp)
          · rw [if_neg hgl] at hg; exact h2 g hg
      · intro f' hf'; exact h3 f' (by simp [hf'])
  obtain ⟨a1, a2⟩ := inv fs {} (fun c => ∃ f ∈ fs, f.cfg = c) (by simp [pushedConfigs]) (by simp) (fun f hf => ⟨f, hf, rfl⟩)
  simp only [pushedConfigs, List.filterMap_append, List.mem_append] at h
  simp only [pushedConfigs] at a1
  rcases h with h | h
  · exact a1 c h
  · simp only [List.filterMap_map, List.mem_filterMap] at h
    obtain ⟨g, hg, hc⟩ := h
    simp at hc; subst hc
    exact a2 g hg

theorem pushed_reverse (is : List Instr) (c : Config) : c ∈ pushedConfigs is.reverse ↔ c ∈ pushedConfigs is := by
  simp [pushedConfigs, List.filterMap_reverse]

end Selene.Filter
