import Selene.Filter.Lemmas
namespace Selene.Filter

/-! ### executing an instruction list -/

/-- run every instruction (execution order); `none` = `Pop` on an empty stack -/
def exec : List Instr → List Config → Option (List Config)
  | [], s => some s
  | .push c _ :: rest, s => exec rest (c :: s)
  | .pop _ :: rest, s =>
    match s with
    | [] => none
    | _ :: s' => exec rest s'

theorem exec_append (a b : List Instr) (s : List Config) :
    exec (a ++ b) s = (exec a s).bind (exec b) := by
  induction a generalizing s with
  | nil => simp [exec]
  | cons i rest ih =>
    cases i with
    | push c x => simp [exec, ih]
    | pop x =>
      cases s with
      | nil => simp [exec]
      | cons t s' => simp [exec, ih]

def upTo (p : Nat) (i : Instr) : Bool := i.bytes ≤ p

/-- `runPending` = run the longest prefix of instructions at or before `p` -/
theorem runPending_eq (pending : List Instr) (stack : List Config) (p : Nat) :
    runPending pending stack p =
      (exec (pending.takeWhile (upTo p)) stack).map fun s => (pending.dropWhile (upTo p), s) := by
  induction pending generalizing stack with
  | nil => simp [runPending, exec]
  | cons i rest ih =>
    by_cases h : i.bytes ≤ p
    · have hu : upTo p i = true := by simp [upTo, h]
      cases i with
      | push c x =>
        simp only [runPending, h, if_true, List.takeWhile_cons, hu, List.dropWhile_cons, exec]
        exact ih _
      | pop x =>
        cases stack with
        | nil => simp [runPending, h, hu, exec]
        | cons t s' =>
          simp only [runPending, h, if_true, List.takeWhile_cons, hu, List.dropWhile_cons, exec]
          exact ih _
    · have hu : upTo p i = false := by simp [upTo, h]
      simp [runPending, h, hu, exec]

theorem takeWhile_mono (X : List Instr) {p q : Nat} (h : p ≤ q) :
    X.takeWhile (upTo q) = X.takeWhile (upTo p) ++ (X.dropWhile (upTo p)).takeWhile (upTo q) ∧
    X.dropWhile (upTo q) = (X.dropWhile (upTo p)).dropWhile (upTo q) := by
  induction X with
  | nil => simp
  | cons i rest ih =>
    by_cases hp : upTo p i = true
    · have hq : upTo q i = true := by simp only [upTo, decide_eq_true_eq] at hp ⊢; omega
      simp [hp, hq, ih.1, ih.2]
    · simp [List.takeWhile_cons, List.dropWhile_cons, hp]

/-- the stack in force at byte `p`: everything at or before `p` executed from an empty stack -/
def stackAt (X : List Instr) (p : Nat) : Option (List Config) := exec (X.takeWhile (upTo p)) []

/-- what the machine reports for `d` when the stack in force at its position decides -/
def decideAt (X : List Instr) (d : Diag) : Option Diag := (stackAt X d.start).bind fun s => decide1 s d

def Sorted : List Diag → Prop
  | [] => True
  | d :: rest => (∀ e ∈ rest, d.start ≤ e.start) ∧ Sorted rest

/-- the lazy replay over diagnostics in ascending order = independent prefix executions -/
theorem runDiags_eq (X : List Instr) (ds : List Diag) (hs : Sorted ds) (p₀ : Nat) (s₀ : List Config)
    (h₀ : stackAt X p₀ = some s₀) (hle : ∀ d ∈ ds, p₀ ≤ d.start)
    (hall : ∀ d ∈ ds, ∃ s, stackAt X d.start = some s) :
    runDiags ds (X.dropWhile (upTo p₀)) s₀ =
      some (ds.filterMap (decideAt X)) := by
  induction ds generalizing p₀ s₀ with
  | nil => simp [runDiags]
  | cons d rest ih =>
    obtain ⟨s, hsd⟩ := hall d (by simp)
    have hp : p₀ ≤ d.start := hle d (by simp)
    obtain ⟨m1, m2⟩ := takeWhile_mono X hp
    have hrun : runPending (X.dropWhile (upTo p₀)) s₀ d.start = some (X.dropWhile (upTo d.start), s) := by
      rw [runPending_eq, ← m2]
      have : exec (X.takeWhile (upTo d.start)) [] = some s := hsd
      rw [m1, exec_append] at this
      have h0 : exec (X.takeWhile (upTo p₀)) [] = some s₀ := h₀
      rw [h0] at this
      simp only [Option.bind_some] at this
      rw [this]; rfl
    have hrest := ih hs.2 d.start s hsd (fun e he => hs.1 e he) (fun e he => hall e (by simp [he]))
    simp only [runDiags, hrun, hrest, List.filterMap_cons, decideAt, hsd, Option.bind_some]
    cases decide1 s d <;> simp

end Selene.Filter
