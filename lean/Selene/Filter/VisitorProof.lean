/-
`get_filter_ranges` over a well-formed syntax tree yields the pre-order of a well-formed forest.
-/
import Selene.Filter.Visitor
namespace Selene.Filter

/-! ### `claim`, one node at a time -/

/-- the comments a node is the first to look at -/
def freshOf (n : NodeInfo) (checked : List (Nat × Nat)) : List Comment :=
  (n.leading.filter fun c => !checked.contains (c.start, c.stop)).foldl
    (fun acc c => if acc.any (fun d => d.start = c.start ∧ d.stop = c.stop) then acc else acc ++ [c]) []

theorem entries_eq (le : String → Bool) (a b : Nat) (cs : List Comment) :
    (cs.flatMap fun c => c.lines.flatMap fun line =>
      match parseComment line with
      | none => []
      | some cfgs => cfgs.map fun cfg =>
        if le cfg.lint then RangeEntry.ok { cfg, commentRange := (c.start, c.stop), range := (a, b) }
        else RangeEntry.rejected (c.start, c.stop) cfg.lint)
      = (cfgsOf cs).map (entryOf le a b) := by
  unfold cfgsOf
  rw [List.map_flatMap]
  congr 1; funext c
  rw [List.map_flatMap]
  congr 1; funext line
  cases parseComment line <;> simp [entryOf]

theorem claim_cons (le : String → Bool) (n : NodeInfo) (rest : List NodeInfo) (checked : List (Nat × Nat)) :
    claim le (n :: rest) checked =
      if n.isBlock then claim le rest checked
      else (cfgsOf (freshOf n checked)).map (entryOf le n.start n.stop) ++
        claim le rest (checked ++ (freshOf n checked).map Comment.range) := by
  rw [claim]
  split
  · rfl
  · rw [← entries_eq]; rfl

/-- `comments_checked` after a sequence of nodes -/
def claimState : List NodeInfo → List (Nat × Nat) → List (Nat × Nat)
  | [], ch => ch
  | n :: rest, ch =>
    if n.isBlock then claimState rest ch else claimState rest (ch ++ (freshOf n ch).map Comment.range)

theorem claim_append (le : String → Bool) (xs ys : List NodeInfo) (ch : List (Nat × Nat)) :
    claim le (xs ++ ys) ch = claim le xs ch ++ claim le ys (claimState xs ch) := by
  induction xs generalizing ch with
  | nil => simp [claim, claimState]
  | cons n rest ih =>
    simp only [List.cons_append, claim_cons, claimState]
    split
    · exact ih ch
    · rw [ih]; simp

theorem claimState_append (xs ys : List NodeInfo) (ch : List (Nat × Nat)) :
    claimState (xs ++ ys) ch = claimState ys (claimState xs ch) := by
  induction xs generalizing ch with
  | nil => rfl
  | cons n rest ih =>
    simp only [List.cons_append, claimState]
    split <;> exact ih _

/-! ### the first node at a token looks at all of its comments, later ones at none -/

theorem dedup_id (l acc : List Comment)
    (hfresh : ∀ c ∈ l, ∀ d ∈ acc, d.range ≠ c.range) (hnd : (l.map Comment.range).Nodup) :
    l.foldl (fun acc c => if acc.any (fun d => d.start = c.start ∧ d.stop = c.stop) then acc else acc ++ [c]) acc
      = acc ++ l := by
  induction l generalizing acc with
  | nil => simp
  | cons c rest ih =>
    simp only [List.foldl_cons]
    have hno : acc.any (fun d => decide (d.start = c.start ∧ d.stop = c.stop)) = false := by
      rw [List.any_eq_false]
      intro d hd
      have := hfresh c (by simp) d hd
      simp only [Comment.range, ne_eq, Prod.mk.injEq] at this
      simpa using this
    simp only [hno, Bool.false_eq_true, if_false]
    simp only [List.map_cons, List.nodup_cons] at hnd
    rw [ih (acc ++ [c])]
    · simp
    · intro c' hc' d hd
      rcases List.mem_append.mp hd with hd | hd
      · exact hfresh c' (by simp [hc']) d hd
      · simp only [List.mem_singleton] at hd
        subst hd
        intro heq
        exact hnd.1 (by rw [heq]; exact List.mem_map_of_mem hc')
    · exact hnd.2

section
variable (trivia : Nat → List Comment) (lintExists : String → Bool)

theorem mem_rangesOf (cl : List Nat) (r : Nat × Nat) :
    r ∈ rangesOf trivia cl ↔ ∃ s ∈ cl, ∃ c ∈ trivia s, c.range = r := by
  simp [rangesOf, List.mem_flatMap]

theorem rangesOf_append (cl : List Nat) (a : Nat) :
    rangesOf trivia (cl ++ [a]) = rangesOf trivia cl ++ (trivia a).map Comment.range := by
  simp [rangesOf]

theorem freshOf_seen (ib : Bool) (a b : Nat) (cl : List Nat) (h : a ∈ cl) :
    freshOf { isBlock := ib, start := a, stop := b, leading := trivia a } (rangesOf trivia cl) = [] := by
  unfold freshOf
  have : (trivia a).filter (fun c => !(rangesOf trivia cl).contains (c.start, c.stop)) = [] := by
    rw [List.filter_eq_nil_iff]
    intro c hc
    have : (c.start, c.stop) ∈ rangesOf trivia cl := (mem_rangesOf trivia cl _).mpr ⟨a, h, c, hc, rfl⟩
    simpa using this
  simp only [this, List.foldl_nil]

theorem freshOf_new (hok : TriviaOK trivia) (ib : Bool) (a b : Nat) (cl : List Nat) (h : a ∉ cl) :
    freshOf { isBlock := ib, start := a, stop := b, leading := trivia a } (rangesOf trivia cl) = trivia a := by
  unfold freshOf
  have : (trivia a).filter (fun c => !(rangesOf trivia cl).contains (c.start, c.stop)) = trivia a := by
    rw [List.filter_eq_self]
    intro c hc
    have : (c.start, c.stop) ∉ rangesOf trivia cl := by
      intro hin
      obtain ⟨s, hs, c', hc', heq⟩ := (mem_rangesOf trivia cl _).mp hin
      have hne : s ≠ a := fun e => h (e ▸ hs)
      exact hok.apart s a c' c hne hc' hc heq
    simpa using this
  simp only [this]
  rw [dedup_id _ [] (by simp) (hok.nodup a)]
  simp

/-! ### the forest's pre-order is what the visitor claims -/

theorem Forest.filters_append : ∀ (f g : Forest), (f.append g).filters = f.filters ++ g.filters
  | .nil, g => by simp [Forest.append, Forest.filters]
  | .cons t r, g => by simp [Forest.append, Forest.filters, Forest.filters_append r g]

theorem filtersOf_append (xs ys : List RangeEntry) : filtersOf (xs ++ ys) = filtersOf xs ++ filtersOf ys := by
  simp [filtersOf]

theorem own_entries (a b : Nat) (l : List (Config × (Nat × Nat))) :
    (filtersOf (l.map (entryOf lintExists a b))).filter (fun f => !f.cfg.global) =
      (l.filter fun p => lintExists p.1.lint && !p.1.global).map
        fun c => ({ cfg := c.1, commentRange := c.2, range := (a, b) } : Filter) := by
  induction l with
  | nil => rfl
  | cons p rest ih =>
    simp only [filtersOf] at ih
    simp only [List.map_cons, filtersOf, entryOf]
    cases he : lintExists p.1.lint
    · simp only [Bool.false_eq_true, if_false, List.filterMap_cons, RangeEntry.filter?, List.filter_cons, he,
        Bool.false_and]
      exact ih
    · cases hg : p.1.global
      · simp only [if_true, List.filterMap_cons, RangeEntry.filter?, List.filter_cons, hg, he, Bool.not_false,
          Bool.and_self, List.map_cons]
        rw [ih]
      · simp only [if_true, List.filterMap_cons, RangeEntry.filter?, List.filter_cons, hg, he, Bool.not_true,
          Bool.and_false, Bool.false_eq_true, if_false]
        exact ih

/-- the inline filters among what the visitor records -/
def inlineOf (entries : List RangeEntry) : List Filter := (filtersOf entries).filter fun f => !f.cfg.global

theorem inlineOf_append (xs ys : List RangeEntry) : inlineOf (xs ++ ys) = inlineOf xs ++ inlineOf ys := by
  simp [inlineOf, filtersOf_append]

theorem Syn.start_le_stop (s : Syn) (hi : Nat) (h : s.wf trivia hi = true) : s.start ≤ s.stop ∧ s.stop ≤ hi := by
  cases s with
  | node ib a b kids =>
    simp only [Syn.wf, Bool.and_eq_true, decide_eq_true_eq] at h
    exact ⟨h.1.1, h.1.2⟩

mutual
theorem Syn.claim_forest (hok : TriviaOK trivia) (s : Syn) (hi : Nat) (cl : List Nat) (h : s.wf trivia hi = true) :
    inlineOf (claim lintExists (s.preorder trivia) (rangesOf trivia cl)) = (s.forest trivia lintExists cl).filters ∧
      claimState (s.preorder trivia) (rangesOf trivia cl) = rangesOf trivia (s.after cl) := by
  cases s with
  | node ib a b kids =>
    simp only [Syn.wf, Bool.and_eq_true, decide_eq_true_eq] at h
    obtain ⟨⟨hab, _⟩, hk⟩ := h
    simp only [Syn.preorder, claim_cons, claimState, Syn.after, Syn.forest]
    cases hib : ib
    · -- an ordinary node
      by_cases hin : a ∈ cl
      · have hc : cl.contains a = true := by simpa using hin
        have ih := SynList.claim_forest hok kids a false b cl hk
        simp only [Bool.false_eq_true, if_false, freshOf_seen trivia false a b cl hin, hc, Bool.false_or, if_true,
          cfgsOf, List.flatMap_nil, List.map_nil, List.nil_append, List.append_nil, List.isEmpty_nil]
        exact ih
      · have hc : cl.contains a = false := by simpa using hin
        have ih := SynList.claim_forest hok kids a false b (cl ++ [a]) hk
        simp only [Bool.false_eq_true, if_false, freshOf_new trivia hok false a b cl hin, hc, Bool.false_or,
          ← rangesOf_append]
        refine ⟨?_, ih.2⟩
        rw [inlineOf_append, ih.1]
        have hown : inlineOf (List.map (entryOf lintExists a b) (cfgsOf (trivia a))) =
            (ownOf lintExists (trivia a)).map fun c => ({ cfg := c.1, commentRange := c.2, range := (a, b) } : Filter) :=
          own_entries lintExists a b _
        rw [hown]
        cases hown' : ownOf lintExists (trivia a) with
        | nil => simp
        | cons p ps =>
          simp only [List.isEmpty_cons, Bool.false_eq_true, if_false]
          by_cases hlt : a < b
          · simp [hlt, Forest.filters, Tree.filters]
          · have : a = b := by omega
            subst this
            simp [Forest.filters, Tree.filters]
    · -- a `Block`: ignored
      have ih := SynList.claim_forest hok kids a false b cl hk
      simp only [if_true, Bool.true_or, List.isEmpty_nil]
      exact ih
theorem SynList.claim_forest (hok : TriviaOK trivia) (L : SynList) (prev : Nat) (strict : Bool) (hi : Nat) (cl : List Nat)
    (h : L.wf trivia prev strict hi = true) :
    inlineOf (claim lintExists (L.preorder trivia) (rangesOf trivia cl)) = (L.forest trivia lintExists cl).filters ∧
      claimState (L.preorder trivia) (rangesOf trivia cl) = rangesOf trivia (L.after cl) := by
  cases L with
  | nil => simp [SynList.preorder, claim, claimState, SynList.after, SynList.forest, Forest.filters, inlineOf, filtersOf]
  | cons s rest =>
    simp only [SynList.wf, Bool.and_eq_true] at h
    obtain ⟨⟨_, hs⟩, hr⟩ := h
    have h1 := Syn.claim_forest hok s hi cl hs
    have h2 := SynList.claim_forest hok rest s.stop true hi (s.after cl) hr
    simp only [SynList.preorder, SynList.after, SynList.forest, claim_append, claimState_append, inlineOf_append,
      Forest.filters_append, h1.1, h1.2, h2.1, h2.2]
    trivial
end

/-! ### the forest is well formed -/

mutual
theorem Tree.WF_mono (t : Tree) (lo hi lo' hi' : Nat) (h : t.WF lo hi) (hl : lo' ≤ lo) (hh : hi ≤ hi') : t.WF lo' hi' := by
  cases t with
  | node a b cfgs ch =>
    obtain ⟨h1, h2, h3, h4, h5, h6⟩ := h
    exact ⟨by omega, h2, by omega, h4, h5, h6⟩
  | point a cfgs =>
    obtain ⟨h1, h2, h3, h4⟩ := h
    exact ⟨by omega, by omega, h3, h4⟩
theorem Forest.WF_mono (f : Forest) (lo hi lo' hi' : Nat) (h : f.WF lo hi) (hl : lo' ≤ lo) (hh : hi ≤ hi') : f.WF lo' hi' := by
  cases f with
  | nil => trivial
  | cons t rest =>
    exact ⟨Tree.WF_mono t lo hi lo' hi' h.1 hl hh, Forest.WF_mono rest _ hi _ hi' h.2 (Nat.le_refl _) hh⟩
end

theorem Forest.WF_append : ∀ (f g : Forest) (lo m hi : Nat), f.WF lo m → g.WF (m + 1) hi → m ≤ hi →
    lo ≤ m + 1 → (f.append g).WF lo hi
  | .nil, g, lo, m, hi, _, hg, _, hlo => Forest.WF_mono g _ hi _ hi hg hlo (Nat.le_refl _)
  | .cons t r, g, lo, m, hi, hf, hg, hm, _ => by
    have hb := Tree.start_le_stop t lo m hf.1
    exact ⟨Tree.WF_mono t lo m lo hi hf.1 (Nat.le_refl _) hm,
      Forest.WF_append r g (t.stop + 1) m hi hf.2 hg hm (by omega)⟩

/-- nothing is left to look at in front of the token at `a` -/
def Dead (cl : List Nat) (a : Nat) : Prop := a ∈ cl ∨ trivia a = []

/-- no piece of the subtree of a node starting at `a` starts before `LO` -/
def Low (LO : Nat) (cl : List Nat) (a : Nat) : Prop := LO ≤ a ∨ (LO ≤ a + 1 ∧ Dead trivia cl a)

mutual
theorem Syn.after_mono (s : Syn) (cl : List Nat) : ∀ x ∈ cl, x ∈ s.after cl := by
  cases s with
  | node ib a b kids =>
    intro x hx
    simp only [Syn.after]
    apply SynList.after_mono kids
    split
    · exact hx
    · exact List.mem_append_left _ hx
theorem SynList.after_mono (L : SynList) (cl : List Nat) : ∀ x ∈ cl, x ∈ L.after cl := by
  cases L with
  | nil => intro x hx; exact hx
  | cons s rest =>
    intro x hx
    simp only [SynList.after]
    exact SynList.after_mono rest _ x (Syn.after_mono s cl x hx)
end

theorem ownOf_nil : ownOf lintExists [] = [] := rfl

mutual
theorem Syn.forest_dead (s : Syn) (hi a : Nat) (cl : List Nat) (h : s.wf trivia hi = true) (hhi : hi ≤ a)
    (ha : a ≤ s.start) (hd : Dead trivia cl a) : s.forest trivia lintExists cl = .nil := by
  cases s with
  | node ib x y kids =>
    simp only [Syn.wf, Bool.and_eq_true, decide_eq_true_eq] at h
    obtain ⟨⟨hxy, hy⟩, hk⟩ := h
    simp only [Syn.start] at ha
    have hxa : x = a := by omega
    subst hxa
    have hown : (if (ib || cl.contains x) = true then [] else ownOf lintExists (trivia x)) = [] := by
      split
      · rfl
      · next hnd =>
        rcases hd with hd | hd
        · exfalso; apply hnd; simp [hd]
        · rw [hd]; rfl
    simp only [Syn.forest, hown, List.isEmpty_nil, if_true]
    apply SynList.forest_dead kids x false y x _ hk (by omega) (Nat.le_refl _)
    split
    · exact hd
    · exact Or.inl (by simp)
theorem SynList.forest_dead (L : SynList) (prev : Nat) (strict : Bool) (hi a : Nat) (cl : List Nat)
    (h : L.wf trivia prev strict hi = true) (hhi : hi ≤ a) (ha : a ≤ prev) (hd : Dead trivia cl a) :
    L.forest trivia lintExists cl = .nil := by
  cases L with
  | nil => rfl
  | cons s rest =>
    simp only [SynList.wf, Bool.and_eq_true, decide_eq_true_eq] at h
    obtain ⟨⟨⟨hp, _⟩, hs⟩, hr⟩ := h
    have hb := Syn.start_le_stop trivia s hi hs
    have hd' : Dead trivia (s.after cl) a := by
      rcases hd with hd | hd
      · exact Or.inl (Syn.after_mono s cl a hd)
      · exact Or.inr hd
    simp only [SynList.forest, Syn.forest_dead s hi a cl hs hhi (by omega) hd,
      SynList.forest_dead rest s.stop true hi a _ hr hhi (by omega) hd', Forest.append]
end

theorem ownOf_nonglobal (cs : List Comment) : ∀ c ∈ ownOf lintExists cs, c.1.global = false := by
  intro c hc
  simp only [ownOf, List.mem_filter, Bool.and_eq_true, Bool.not_eq_true'] at hc
  exact hc.2.2

mutual
theorem Syn.forest_WF (s : Syn) (hi LO : Nat) (cl : List Nat) (h : s.wf trivia hi = true)
    (hl : Low trivia LO cl s.start) : (s.forest trivia lintExists cl).WF LO s.stop := by
  cases s with
  | node ib a b kids =>
    simp only [Syn.wf, Bool.and_eq_true, decide_eq_true_eq] at h
    obtain ⟨⟨hab, _⟩, hk⟩ := h
    simp only [Syn.start] at hl
    simp only [Syn.stop, Syn.forest]
    by_cases hdead : (ib || cl.contains a) = true
    · -- nothing claimed here: the pieces of the children
      simp only [hdead, if_true, List.isEmpty_nil]
      apply SynList.forest_WF kids a false b LO cl hk
      intro x hx _
      rcases hl with hl | ⟨hl, hd⟩
      · exact Or.inl (by omega)
      · by_cases hxa : x = a
        · subst hxa; exact Or.inr ⟨hl, hd⟩
        · exact Or.inl (by omega)
    · have hnin : a ∉ cl := by
        intro hin; apply hdead; simp [hin]
      simp only [hdead, Bool.false_eq_true, if_false]
      cases hown : ownOf lintExists (trivia a) with
      | nil =>
        simp only [List.isEmpty_nil, if_true]
        apply SynList.forest_WF kids a false b LO (cl ++ [a]) hk
        intro x hx _
        rcases hl with hl | ⟨hl, hd⟩
        · exact Or.inl (by omega)
        · by_cases hxa : x = a
          · subst hxa; exact Or.inr ⟨hl, Or.inl (by simp)⟩
          · exact Or.inl (by omega)
      | cons p ps =>
        have htriv : trivia a ≠ [] := by
          intro e; rw [e] at hown; cases hown
        have hLO : LO ≤ a := by
          rcases hl with hl | ⟨_, hd⟩
          · exact hl
          · rcases hd with hd | hd
            · exact absurd hd hnin
            · exact absurd hd htriv
        have hng : ∀ c ∈ p :: ps, c.1.global = false := by
          rw [← hown]; exact ownOf_nonglobal lintExists _
        simp only [List.isEmpty_cons, Bool.false_eq_true, if_false]
        by_cases hlt : a < b
        · simp only [hlt, if_true]
          refine ⟨⟨hLO, hlt, Nat.le_refl _, by simp, hng, ?_⟩, trivial⟩
          apply SynList.forest_WF kids a false b (a + 1) (cl ++ [a]) hk
          intro x hx _
          by_cases hxa : x = a
          · subst hxa; exact Or.inr ⟨Nat.le_refl _, Or.inl (by simp)⟩
          · exact Or.inl (by omega)
        · have hab' : a = b := by omega
          subst hab'
          simp only [hlt, if_false]
          rw [SynList.forest_dead trivia lintExists kids a false a a (cl ++ [a]) hk (Nat.le_refl _) (Nat.le_refl _)
            (Or.inl (by simp))]
          exact ⟨⟨hLO, Nat.le_refl _, by simp, hng⟩, trivial⟩
theorem SynList.forest_WF (L : SynList) (prev : Nat) (strict : Bool) (hi LO : Nat) (cl : List Nat)
    (h : L.wf trivia prev strict hi = true)
    (hl : ∀ a, prev ≤ a → (strict = true → trivia a ≠ [] → prev < a) → Low trivia LO cl a) :
    (L.forest trivia lintExists cl).WF LO hi := by
  cases L with
  | nil => trivial
  | cons s rest =>
    simp only [SynList.wf, Bool.and_eq_true, decide_eq_true_eq, Bool.or_eq_true, Bool.not_eq_true',
      List.isEmpty_iff] at h
    obtain ⟨⟨⟨hp, hst⟩, hs⟩, hr⟩ := h
    have hb := Syn.start_le_stop trivia s hi hs
    have hlow : Low trivia LO cl s.start := by
      apply hl s.start hp
      intro hstrict hne
      rcases hst with (hst | hst) | hst
      · rw [hstrict] at hst; cases hst
      · exact absurd hst hne
      · exact hst
    have h1 := Syn.forest_WF s hi LO cl hs hlow
    have h2 := SynList.forest_WF rest s.stop true hi (s.stop + 1) (s.after cl) hr (by
      intro a ha hstr
      by_cases he : trivia a = []
      · by_cases hlt : s.stop < a
        · exact Or.inl (by omega)
        · exact Or.inr ⟨by omega, Or.inr he⟩
      · exact Or.inl (hstr rfl he))
    simp only [SynList.forest]
    apply Forest.WF_append _ _ LO s.stop hi h1 h2 hb.2
    rcases hlow with hlow | ⟨hlow, _⟩ <;> omega
end

end

end Selene.Filter
