/-
From the node sequence the real `NodeVisitor` produced to the syntax tree of `Visitor.lean`: executable
reconstruction (used by the driver on every program) and the lemmas that make `C08_visitor` apply to it.
-/
import Selene.Filter.VisitorProof
namespace Selene.Filter

/-- the leading comments of the token at `a`: those of the first node that starts there -/
def triviaOf (nodes : List NodeInfo) (a : Nat) : List Comment :=
  match nodes.find? (fun n => n.start == a) with
  | some n => n.leading
  | none => []

/-- read the nodes whose spans lie inside `[lo, hi]` off the front of the list as siblings, each with the
    nodes inside its span as its subtree -/
def parseSyn : Nat → Nat → Nat → List NodeInfo → SynList × List NodeInfo
  | 0, _, _, ns => (.nil, ns)
  | _ + 1, _, _, [] => (.nil, [])
  | fuel + 1, lo, hi, n :: rest =>
    if lo ≤ n.start ∧ n.start ≤ n.stop ∧ n.stop ≤ hi then
      let (kids, rest1) := parseSyn fuel n.start n.stop rest
      let (sibs, rest2) := parseSyn fuel n.stop hi rest1
      (.cons (.node n.isBlock n.start n.stop kids) sibs, rest2)
    else (.nil, n :: rest)

/-- nodes without comments in front of them play no part in `get_filter_ranges` -/
def withComments (nodes : List NodeInfo) : List NodeInfo := nodes.filter fun n => !n.leading.isEmpty

def nodupB : List (Nat × Nat) → Bool
  | [] => true
  | x :: xs => !xs.contains x && nodupB xs

theorem nodupB_sound : ∀ (l : List (Nat × Nat)), nodupB l = true → l.Nodup
  | [], _ => List.nodup_nil
  | x :: xs, h => by
    simp only [nodupB, Bool.and_eq_true, Bool.not_eq_true', List.contains_eq_mem, decide_eq_false_iff_not] at h
    exact List.nodup_cons.mpr ⟨h.1, nodupB_sound xs h.2⟩

/-- executable form of `TriviaOK (triviaOf ns)` -/
def triviaOKb (ns : List NodeInfo) : Bool :=
  let starts := ns.map (·.start)
  starts.all (fun a => nodupB ((triviaOf ns a).map Comment.range)) &&
    starts.all fun a => starts.all fun a' =>
      a == a' || (triviaOf ns a).all fun c => (triviaOf ns a').all fun c' => c.range != c'.range

theorem triviaOf_outside (ns : List NodeInfo) (a : Nat) (h : a ∉ ns.map (·.start)) : triviaOf ns a = [] := by
  unfold triviaOf
  have : ns.find? (fun n => n.start == a) = none := by
    rw [List.find?_eq_none]
    intro n hn
    simp only [beq_iff_eq]
    intro e
    exact h (List.mem_map.mpr ⟨n, hn, e⟩)
  rw [this]

theorem triviaOKb_sound (ns : List NodeInfo) (h : triviaOKb ns = true) : TriviaOK (triviaOf ns) := by
  simp only [triviaOKb, Bool.and_eq_true, List.all_eq_true, Bool.or_eq_true, beq_iff_eq, bne_iff_ne] at h
  obtain ⟨h1, h2⟩ := h
  constructor
  · intro a a' c c' hne hc hc'
    by_cases ha : a ∈ ns.map (·.start)
    · by_cases ha' : a' ∈ ns.map (·.start)
      · rcases h2 a ha a' ha' with e | hall
        · exact absurd e hne
        · exact hall c hc c' hc'
      · rw [triviaOf_outside ns a' ha'] at hc'; cases hc'
    · rw [triviaOf_outside ns a ha] at hc; cases hc
  · intro a
    by_cases ha : a ∈ ns.map (·.start)
    · exact nodupB_sound _ (h1 a ha)
    · rw [triviaOf_outside ns a ha]; exact List.nodup_nil

theorem freshOf_nil (n : NodeInfo) (ch : List (Nat × Nat)) (h : n.leading = []) : freshOf n ch = [] := by
  simp [freshOf, h]

/-- dropping the nodes without comments changes nothing -/
theorem claim_withComments (le : String → Bool) (nodes : List NodeInfo) (ch : List (Nat × Nat)) :
    claim le (withComments nodes) ch = claim le nodes ch := by
  induction nodes generalizing ch with
  | nil => rfl
  | cons n rest ih =>
    unfold withComments at ih ⊢
    simp only [List.filter_cons]
    cases hl : n.leading.isEmpty
    · simp only [Bool.not_false, if_true, claim_cons]
      split
      · exact ih ch
      · rw [ih]
    · have hnil : n.leading = [] := List.isEmpty_iff.mp hl
      simp only [Bool.not_true, Bool.false_eq_true, if_false, claim_cons, freshOf_nil n ch hnil, cfgsOf,
        List.flatMap_nil, List.map_nil, List.nil_append, List.append_nil]
      split <;> exact ih ch

/-- the syntax tree behind a node sequence, if the sequence is the pre-order of a well-formed one -/
def synOf (nodes : List NodeInfo) : Option (SynList × Nat) :=
  let ns := withComments nodes
  let hi := ns.foldl (fun m n => max m n.stop) 0
  let (L, rest) := parseSyn (ns.length + 1) 0 hi ns
  if rest.isEmpty && L.wf (triviaOf ns) 0 false hi && triviaOKb ns && L.preorder (triviaOf ns) == ns then some (L, hi)
  else none

end Selene.Filter
