/-
Executable reconstruction of the forest behind a list of inline filters (claim order), used by the
driver on every program to check that the hypothesis of `C08_machine` holds for what the real
`get_filter_ranges` produced: the accepted inline filters are the pre-order of a well-formed forest.
-/
import Selene.Filter.Forest
namespace Selene.Filter

/-- read trees whose ranges lie in `[lo, hi]` off the front of the list (fuel = length of the list) -/
def parseForest : Nat → Nat → Nat → List Filter → Forest × List Filter
  | 0, _, _, fs => (.nil, fs)
  | fuel + 1, lo, hi, fs =>
    match fs with
    | [] => (.nil, [])
    | f :: _ =>
      let a := f.range.1
      let b := f.range.2
      if lo ≤ a ∧ a < b ∧ b ≤ hi then
        let own := fs.takeWhile fun g => g.range = (a, b)
        let rest1 := fs.dropWhile fun g => g.range = (a, b)
        let (ch, rest2) := parseForest fuel (a + 1) b rest1
        let (sib, rest3) := parseForest fuel (b + 1) hi rest2
        (.cons (.node a b (own.map fun g => (g.cfg, g.commentRange)) ch) sib, rest3)
      else if lo ≤ a ∧ a = b ∧ b ≤ hi then
        -- a zero-width piece (the end-of-file token)
        let own := fs.takeWhile fun g => g.range = (a, b)
        let rest1 := fs.dropWhile fun g => g.range = (a, b)
        let (sib, rest3) := parseForest fuel (a + 1) hi rest1
        (.cons (.point a (own.map fun g => (g.cfg, g.commentRange))) sib, rest3)
      else (.nil, fs)

mutual
def Tree.wfb (lo hi : Nat) : Tree → Bool
  | .node a b cfgs ch => decide (lo ≤ a) && decide (a < b) && decide (b ≤ hi) && !cfgs.isEmpty &&
      cfgs.all (fun c => !c.1.global) && ch.wfb (a + 1) b
  | .point a cfgs => decide (lo ≤ a) && decide (a ≤ hi) && !cfgs.isEmpty && cfgs.all (fun c => !c.1.global)
def Forest.wfb (lo hi : Nat) : Forest → Bool
  | .nil => true
  | .cons t rest => t.wfb lo hi && rest.wfb (t.stop + 1) hi
end

mutual
theorem Tree.wfb_sound (t : Tree) (lo hi : Nat) (h : t.wfb lo hi = true) : t.WF lo hi := by
  cases t with
  | node a b cfgs ch =>
    simp only [Tree.wfb, Bool.and_eq_true, decide_eq_true_eq, Bool.not_eq_true', List.all_eq_true] at h
    obtain ⟨⟨⟨⟨⟨h1, h2⟩, h3⟩, h4⟩, h5⟩, h6⟩ := h
    refine ⟨h1, h2, h3, ?_, ?_, Forest.wfb_sound ch (a + 1) b h6⟩
    · intro e; subst e; simp at h4
    · intro c hc; simpa using h5 c hc
  | point a cfgs =>
    simp only [Tree.wfb, Bool.and_eq_true, decide_eq_true_eq, Bool.not_eq_true', List.all_eq_true] at h
    obtain ⟨⟨⟨h1, h2⟩, h4⟩, h5⟩ := h
    refine ⟨h1, h2, ?_, ?_⟩
    · intro e; subst e; simp at h4
    · intro c hc; simpa using h5 c hc
theorem Forest.wfb_sound (f : Forest) (lo hi : Nat) (h : f.wfb lo hi = true) : f.WF lo hi := by
  cases f with
  | nil => trivial
  | cons t rest =>
    simp only [Forest.wfb, Bool.and_eq_true] at h
    exact ⟨Tree.wfb_sound t lo hi h.1, Forest.wfb_sound rest (t.stop + 1) hi h.2⟩
end

/-- the forest of a filter family, if the family is the pre-order of a well-formed one -/
def forestOf (fs : List Filter) : Option Forest :=
  let hi := fs.foldl (fun m f => max m f.range.2) 0
  let (F, rest) := parseForest (fs.length + 1) 0 hi fs
  if rest.isEmpty && F.wfb 0 hi && F.filters == fs then some F else none

end Selene.Filter
