import Selene.Filter.Build
namespace Selene.Filter
open Spec

def cov (d : Diag) (l : List Filter) : List Filter := l.filter fun f => covers f d

theorem innermost_mem (l : List Filter) (f : Filter) (h : innermost l = some f) : f ∈ l := by
  induction l generalizing f with
  | nil => simp [innermost] at h
  | cons x rest ih =>
    simp only [innermost] at h
    cases hr : innermost rest with
    | none => rw [hr] at h; simp at h; subst h; simp
    | some g =>
      rw [hr] at h
      simp only at h
      split at h
      · injection h with h; subst h; exact List.mem_cons_of_mem _ (ih g hr)
      · injection h with h; subst h; simp

theorem innermost_eq_none (l : List Filter) : innermost l = none ↔ l = [] := by
  cases l with
  | nil => simp [innermost]
  | cons x rest =>
    simp only [innermost]
    cases innermost rest with
    | none => simp
    | some g => simp only; split <;> simp

/-- filters of one piece come first and all start where it starts; what is inside starts later -/
theorem innermost_append (a : Nat) (A B : List Filter) (hA : ∀ x ∈ A, x.range.1 = a) (hB : ∀ y ∈ B, a < y.range.1) :
    innermost (A ++ B) = (innermost B).or A.head? := by
  induction A with
  | nil =>
    simp only [List.nil_append, List.head?_nil]
    cases innermost B <;> rfl
  | cons x rest ih =>
    have ihr := ih (fun y hy => hA y (by simp [hy]))
    simp only [List.cons_append, innermost, ihr, List.head?_cons]
    cases hb : innermost B with
    | some g =>
      have : a < g.range.1 := hB g (innermost_mem B g hb)
      have hx : x.range.1 = a := hA x (by simp)
      simp only [Option.or_some]
      have : g.range.1 > x.range.1 := by omega
      simp [this]
    | none =>
      simp only [Option.none_or]
      cases hr : rest.head? with
      | none => rfl
      | some g =>
        have hg : g ∈ rest := List.mem_of_mem_head? hr
        have e1 : g.range.1 = a := hA g (by simp [hg])
        have e2 : x.range.1 = a := hA x (by simp)
        have : ¬ (g.range.1 > x.range.1) := by omega
        simp [this]

theorem own_cov (a b : Nat) (cfgs : List (Config × (Nat × Nat))) (d : Diag) (hin : a ≤ d.start ∧ d.start < b)
    (hg : ∀ c ∈ cfgs, c.1.global = false) :
    ((cov d (cfgs.map fun c => ({ cfg := c.1, commentRange := c.2, range := (a, b) } : Filter))).head?).map (·.cfg) =
      (cfgs.map (·.1)).find? (fun c => c.lint = d.code) := by
  induction cfgs with
  | nil => rfl
  | cons c rest ih =>
    have ihr := ih (fun x hx => hg x (by simp [hx]))
    have hc : c.1.global = false := hg c (by simp)
    by_cases hl : c.1.lint = d.code
    · simp [cov, covers, hc, hl, hin.1, hin.2]
    · simp only [cov, List.map_cons, List.filter_cons, covers, hc, hl, List.find?_cons] at ihr ⊢
      simpa using ihr

theorem own_starts (a b : Nat) (cfgs : List (Config × (Nat × Nat))) (d : Diag) :
    ∀ x ∈ cov d (cfgs.map fun c => ({ cfg := c.1, commentRange := c.2, range := (a, b) } : Filter)), x.range.1 = a := by
  intro x hx
  simp only [cov, List.mem_filter, List.mem_map] at hx
  obtain ⟨⟨c, _, rfl⟩, _⟩ := hx
  rfl

mutual
theorem Tree.starts_within (t : Tree) (lo hi : Nat) (h : t.WF lo hi) :
    ∀ f ∈ t.filters, t.start ≤ f.range.1 ∧ f.range.2 ≤ t.stop ∧ f.cfg.global = false := by
  cases t with
  | node a b cfgs ch =>
    obtain ⟨h1, h2, h3, _, hg, hch⟩ := h
    intro f hf
    simp only [Tree.filters, List.mem_append, List.mem_map] at hf
    simp only [Tree.start, Tree.stop]
    rcases hf with ⟨c, hc, rfl⟩ | hf
    · exact ⟨Nat.le_refl _, Nat.le_refl _, hg c hc⟩
    · have := Forest.starts_within ch (a + 1) b hch f hf
      exact ⟨by omega, by omega, this.2.2⟩
  | point a cfgs =>
    obtain ⟨_, _, _, hg⟩ := h
    intro f hf
    simp only [Tree.filters, List.mem_map] at hf
    obtain ⟨c, hc, rfl⟩ := hf
    exact ⟨Nat.le_refl _, Nat.le_refl _, hg c hc⟩
theorem Forest.starts_within (f : Forest) (lo hi : Nat) (h : f.WF lo hi) : ∀ x ∈ f.filters, lo ≤ x.range.1 ∧ x.range.2 ≤ hi ∧ x.cfg.global = false := by
  cases f with
  | nil => intro x hx; simp [Forest.filters] at hx
  | cons t rest =>
    obtain ⟨h1, h2⟩ := h
    have hs := Tree.start_le_stop t lo hi h1
    intro x hx
    simp only [Forest.filters, List.mem_append] at hx
    rcases hx with hx | hx
    · have := Tree.starts_within t lo hi h1 x hx
      exact ⟨by omega, by omega, this.2.2⟩
    · have := Forest.starts_within rest (t.stop + 1) hi h2 x hx
      exact ⟨by omega, this.2.1, this.2.2⟩
end

theorem cov_outside (d : Diag) (l : List Filter) (lo hi : Nat) (h : ∀ f ∈ l, lo ≤ f.range.1 ∧ f.range.2 ≤ hi)
    (hp : d.start < lo ∨ hi ≤ d.start) : cov d l = [] := by
  simp only [cov, List.filter_eq_nil_iff]
  intro f hf
  obtain ⟨h1, h2⟩ := h f hf
  simp only [covers, Bool.and_eq_true, decide_eq_true_eq, not_and]
  intro h3 h4
  have := h3.2
  omega


theorem cov_append (d : Diag) (a b : List Filter) : cov d (a ++ b) = cov d a ++ cov d b := by
  simp [cov]

theorem Tree.cov_outside (t : Tree) (lo hi : Nat) (h : t.WF lo hi) (d : Diag) (hp : d.start < t.start ∨ t.stop ≤ d.start) :
    cov d t.filters = [] :=
  Selene.Filter.cov_outside d _ t.start t.stop (fun f hf => by
    have := Tree.starts_within t lo hi h f hf; exact ⟨this.1, this.2.1⟩) hp

mutual
/-- **innermost covering filter = first matching configuration on the stack of enclosing filters** -/
theorem Tree.spec_active (t : Tree) (lo hi : Nat) (h : t.WF lo hi) (d : Diag) :
    (innermost (cov d t.filters)).map (·.cfg) = (t.active d.start).find? (fun c => c.lint = d.code) := by
  cases t with
  | node a b cfgs ch =>
    have hwf := h
    obtain ⟨h1, h2, h3, hne, hg, hch⟩ := h
    by_cases hin : a ≤ d.start ∧ d.start < b
    · simp only [Tree.filters, Tree.active, hin, and_self, if_true, cov_append, List.find?_append]
      rw [innermost_append a _ _ (own_starts a b cfgs d)
        (fun y hy => by
          have hy' : y ∈ ch.filters := by simp only [cov, List.mem_filter] at hy; exact hy.1
          have := (Forest.starts_within ch (a + 1) b hch y hy').1
          omega)]
      rw [← Forest.spec_active ch (a + 1) b hch d, ← own_cov a b cfgs d hin hg]
      cases innermost (cov d ch.filters) <;> simp
    · have hout := Tree.cov_outside (.node a b cfgs ch) lo hi hwf d (by simp only [Tree.start, Tree.stop]; omega)
      rw [hout]
      simp [Tree.active, hin, innermost]
  | point a cfgs =>
    have hout := Tree.cov_outside (.point a cfgs) lo hi h d (by simp only [Tree.start, Tree.stop]; omega)
    rw [hout]
    simp [Tree.active, innermost]
theorem Forest.spec_active (f : Forest) (lo hi : Nat) (h : f.WF lo hi) (d : Diag) :
    (innermost (cov d f.filters)).map (·.cfg) = (f.active d.start).find? (fun c => c.lint = d.code) := by
  cases f with
  | nil => simp [Forest.filters, Forest.active, cov, innermost]
  | cons t rest =>
    obtain ⟨h1, h2⟩ := h
    have ht := Tree.spec_active t lo hi h1 d
    have hr := Forest.spec_active rest (t.stop + 1) hi h2 d
    simp only [Forest.filters, Forest.active, cov_append]
    by_cases hpb : d.start < t.stop
    · have e1 : cov d rest.filters = [] :=
        Selene.Filter.cov_outside d _ (t.stop + 1) hi (fun x hx => by
          have := Forest.starts_within rest (t.stop + 1) hi h2 x hx; exact ⟨this.1, this.2.1⟩) (Or.inl (by omega))
      have e2 : rest.active d.start = [] := Forest.active_outside rest (t.stop + 1) hi d.start h2 (Or.inl (by omega))
      rw [e1, e2, List.append_nil, List.append_nil]
      exact ht
    · have e1 := Tree.cov_outside t lo hi h1 d (Or.inr (by omega))
      have e2 := Tree.active_outside t d.start (Or.inr (by omega))
      rw [e1, e2, List.nil_append, List.nil_append]
      exact hr
end

end Selene.Filter
