/-
The syntax tree as `FilterVisitor` sees it, and the forest of filters it yields.

`NodeVisitor` calls `visit_node` for every syntax node in pre-order; a node's leading trivia is the
leading trivia of its first token, so it is a function of the node's start (`trivia`), and a comment is
looked at by the first non-`Block` node that starts with its token (`comments_checked`).  A node's range
is the span of its tokens: children lie inside their parent, in source order, and a token in front of
which a comment stands starts strictly after everything that ends before it.

`Syn.forest` builds, from such a tree, the forest of filtered pieces; `VisitorProof.lean` proves that its
pre-order is what `claim` (the model of `get_filter_ranges`) produces and that it is well formed — the
hypothesis of `C08_machine`, here derived from the shape of the syntax tree.
-/
import Selene.Filter.Forest
namespace Selene.Filter

mutual
/-- a syntax node: is it a `Block` (ignored by the visitor), the span of its tokens, its child nodes -/
inductive Syn where
  | node (isBlock : Bool) (start stop : Nat) (kids : SynList)
/-- child nodes in visit order -/
inductive SynList where
  | nil
  | cons (s : Syn) (rest : SynList)
end

def Syn.start : Syn → Nat
  | .node _ a _ _ => a
def Syn.stop : Syn → Nat
  | .node _ _ b _ => b

def Comment.range (c : Comment) : Nat × Nat := (c.start, c.stop)

/-- the configurations written in a list of comments, each with the range of its comment -/
def cfgsOf (cs : List Comment) : List (Config × (Nat × Nat)) :=
  cs.flatMap fun c => c.lines.flatMap fun line =>
    match parseComment line with
    | none => []
    | some cfgs => cfgs.map fun cfg => (cfg, (c.start, c.stop))

/-- what `visit_node` records for one configuration found in front of a node with range `(a, b)` -/
def entryOf (lintExists : String → Bool) (a b : Nat) (p : Config × (Nat × Nat)) : RangeEntry :=
  if lintExists p.1.lint then .ok { cfg := p.1, commentRange := p.2, range := (a, b) }
  else .rejected p.2 p.1.lint

/-- the accepted inline configurations among them -/
def ownOf (lintExists : String → Bool) (cs : List Comment) : List (Config × (Nat × Nat)) :=
  (cfgsOf cs).filter fun p => lintExists p.1.lint && !p.1.global

def Forest.append : Forest → Forest → Forest
  | .nil, g => g
  | .cons t r, g => .cons t (r.append g)

section
variable (trivia : Nat → List Comment) (lintExists : String → Bool)

mutual
/-- the nodes in the order `NodeVisitor` reports them -/
def Syn.preorder : Syn → List NodeInfo
  | .node ib a b kids => { isBlock := ib, start := a, stop := b, leading := trivia a } :: kids.preorder
def SynList.preorder : SynList → List NodeInfo
  | .nil => []
  | .cons s rest => s.preorder ++ rest.preorder
end

mutual
/-- the token starts whose comments have been looked at once the subtree has been visited -/
def Syn.after : Syn → List Nat → List Nat
  | .node ib a _ kids, cl => kids.after (if ib || cl.contains a then cl else cl ++ [a])
def SynList.after : SynList → List Nat → List Nat
  | .nil, cl => cl
  | .cons s rest, cl => rest.after (s.after cl)
end

mutual
/-- the filtered pieces of a subtree, given the token starts already looked at -/
def Syn.forest : Syn → List Nat → Forest
  | .node ib a b kids, cl =>
    let dead := ib || cl.contains a
    let own := if dead then [] else ownOf lintExists (trivia a)
    let ch := kids.forest (if dead then cl else cl ++ [a])
    if own.isEmpty then ch
    else if a < b then .cons (.node a b own ch) .nil
    else .cons (.point a own) ch
def SynList.forest : SynList → List Nat → Forest
  | .nil, _ => .nil
  | .cons s rest, cl => (s.forest cl).append (rest.forest (s.after cl))
end

mutual
/-- spans: a node's tokens lie inside `[.., hi]`; children inside the parent, each after the previous one,
    strictly after it when a comment stands in front of the child's first token -/
def Syn.wf (hi : Nat) : Syn → Bool
  | .node _ a b kids => decide (a ≤ b) && decide (b ≤ hi) && kids.wf a false b
def SynList.wf (prev : Nat) (strict : Bool) (hi : Nat) : SynList → Bool
  | .nil => true
  | .cons s rest =>
    decide (prev ≤ s.start) && (!strict || (trivia s.start).isEmpty || decide (prev < s.start)) &&
      s.wf hi && rest.wf s.stop true hi
end

/-- comments belong to one token each, and a token's comments are distinct -/
structure TriviaOK : Prop where
  apart : ∀ a a' c c', a ≠ a' → c ∈ trivia a → c' ∈ trivia a' → c.range ≠ c'.range
  nodup : ∀ a, ((trivia a).map Comment.range).Nodup

/-- the comment ranges in `comments_checked` once the tokens at `cl` have been looked at -/
def rangesOf (cl : List Nat) : List (Nat × Nat) := cl.flatMap fun s => (trivia s).map Comment.range

end
end Selene.Filter
