import Selene.Filter.Exec
namespace Selene.Filter

/-! ### laminar families as forests -/
mutual
/-- a piece of code `[a, b)` with the filters attached to it (comment order) and the filtered pieces inside
    it; `point`: a zero-width piece (the end-of-file token), whose filters cover nothing -/
inductive Tree where
  | node (a b : Nat) (cfgs : List (Config × (Nat × Nat))) (children : Forest)
  | point (a : Nat) (cfgs : List (Config × (Nat × Nat)))
/-- siblings in source order -/
inductive Forest where
  | nil
  | cons (t : Tree) (rest : Forest)
end

def Tree.start : Tree → Nat
  | .node a _ _ _ => a
  | .point a _ => a
def Tree.stop : Tree → Nat
  | .node _ b _ _ => b
  | .point a _ => a

mutual
/-- the filters in the order the visitor claims them (pre-order) -/
def Tree.filters : Tree → List Filter
  | .node a b cfgs ch => cfgs.map (fun c => { cfg := c.1, commentRange := c.2, range := (a, b) }) ++ ch.filters
  | .point a cfgs => cfgs.map (fun c => { cfg := c.1, commentRange := c.2, range := (a, a) })
def Forest.filters : Forest → List Filter
  | .nil => []
  | .cons t rest => t.filters ++ rest.filters
end

mutual
/-- ranges nested or strictly apart, a nested range starts after the enclosing one, every node carries a filter,
    none of them global; everything inside `[lo, hi]` -/
def Tree.WF (lo hi : Nat) : Tree → Prop
  | .node a b cfgs ch => lo ≤ a ∧ a < b ∧ b ≤ hi ∧ cfgs ≠ [] ∧ (∀ c ∈ cfgs, c.1.global = false) ∧ ch.WF (a + 1) b
  | .point a cfgs => lo ≤ a ∧ a ≤ hi ∧ cfgs ≠ [] ∧ (∀ c ∈ cfgs, c.1.global = false)
def Forest.WF (lo hi : Nat) : Forest → Prop
  | .nil => True
  | .cons t rest => t.WF lo hi ∧ rest.WF (t.stop + 1) hi
end

mutual
/-- the instructions in execution order: pushes (last filter of the node first, so that the first ends on
    top), the inner pieces, one `Pop` per filter; a zero-width piece pushes and pops filter by filter -/
def Tree.instrs : Tree → List Instr
  | .node a b cfgs ch =>
    (cfgs.reverse.map fun c => Instr.push c.1 a) ++ ch.instrs ++ cfgs.map fun _ => Instr.pop b
  | .point a cfgs => cfgs.reverse.flatMap fun c => [Instr.push c.1 a, Instr.pop a]
def Forest.instrs : Forest → List Instr
  | .nil => []
  | .cons t rest => t.instrs ++ rest.instrs
end

mutual
/-- configurations of the pieces that contain byte `p`, innermost first -/
def Tree.active (p : Nat) : Tree → List Config
  | .node a b cfgs ch => if a ≤ p ∧ p < b then ch.active p ++ cfgs.map (·.1) else []
  | .point _ _ => []
def Forest.active (p : Nat) : Forest → List Config
  | .nil => []
  | .cons t rest => t.active p ++ rest.active p
end

theorem exec_pushes (cfgs : List (Config × (Nat × Nat))) (a : Nat) (s : List Config) :
    exec (cfgs.reverse.map fun c => Instr.push c.1 a) s = some (cfgs.map (·.1) ++ s) := by
  induction cfgs generalizing s with
  | nil => simp [exec]
  | cons c rest ih =>
    simp only [List.reverse_cons, List.map_append, List.map_cons, List.map_nil, exec_append, ih]
    simp [exec]

theorem exec_pops (cfgs : List (Config × (Nat × Nat))) (b : Nat) (top : List Config) (s : List Config)
    (h : top.length = cfgs.length) :
    exec (cfgs.map fun _ => Instr.pop b) (top ++ s) = some s := by
  induction cfgs generalizing top with
  | nil => cases top with
    | nil => simp [exec]
    | cons _ _ => simp at h
  | cons c rest ih =>
    cases top with
    | nil => simp at h
    | cons t top' =>
      simp only [List.map_cons, List.cons_append, exec]
      exact ih top' (by simpa using h)

theorem exec_point (cfgs : List (Config × (Nat × Nat))) (a : Nat) (s : List Config) :
    exec (cfgs.flatMap fun c => [Instr.push c.1 a, Instr.pop a]) s = some s := by
  induction cfgs with
  | nil => simp [exec]
  | cons c rest ih => simp [List.flatMap_cons, exec, ih]

theorem Tree.start_le_stop (t : Tree) (lo hi : Nat) (h : t.WF lo hi) : lo ≤ t.start ∧ t.start ≤ t.stop ∧ t.stop ≤ hi := by
  cases t with
  | node a b cfgs ch => obtain ⟨h1, h2, h3, _⟩ := h; exact ⟨h1, by simp [Tree.start, Tree.stop]; omega, h3⟩
  | point a cfgs => obtain ⟨h1, h2, _⟩ := h; exact ⟨h1, by simp [Tree.start, Tree.stop], h2⟩

mutual
theorem Tree.bytes_within (t : Tree) (lo hi : Nat) (h : t.WF lo hi) :
    ∀ i ∈ t.instrs, t.start ≤ i.bytes ∧ i.bytes ≤ t.stop := by
  cases t with
  | node a b cfgs ch =>
    obtain ⟨h1, h2, h3, _, _, h6⟩ := h
    intro i hm
    simp only [Tree.instrs, List.mem_append, List.mem_map, List.mem_reverse] at hm
    simp only [Tree.start, Tree.stop]
    rcases hm with (⟨c, _, rfl⟩ | hm) | ⟨c, _, rfl⟩
    · simp [Instr.bytes]; omega
    · have := Forest.bytes_within ch (a + 1) b h6 i hm; omega
    · simp [Instr.bytes]; omega
  | point a cfgs =>
    intro i hm
    simp only [Tree.instrs, List.mem_flatMap, List.mem_reverse, List.mem_cons, List.not_mem_nil, or_false] at hm
    obtain ⟨c, _, rfl | rfl⟩ := hm <;> simp [Instr.bytes, Tree.start, Tree.stop]
theorem Forest.bytes_within (f : Forest) (lo hi : Nat) (h : f.WF lo hi) : ∀ i ∈ f.instrs, lo ≤ i.bytes ∧ i.bytes ≤ hi := by
  cases f with
  | nil => intro i hm; simp [Forest.instrs] at hm
  | cons t rest =>
    obtain ⟨h1, h2⟩ := h
    intro i hm
    simp only [Forest.instrs, List.mem_append] at hm
    have hs := Tree.start_le_stop t lo hi h1
    rcases hm with hm | hm
    · have := Tree.bytes_within t lo hi h1 i hm; omega
    · have := Forest.bytes_within rest (t.stop + 1) hi h2 i hm; omega
end

theorem takeWhile_all {α} (q : α → Bool) (l : List α) (h : ∀ x ∈ l, q x = true) : l.takeWhile q = l := by
  induction l with
  | nil => rfl
  | cons x rest ih => simp [h x (by simp), ih (fun y hy => h y (by simp [hy]))]

theorem takeWhile_append_all {α} (q : α → Bool) (a b : List α) (h : ∀ x ∈ a, q x = true) :
    (a ++ b).takeWhile q = a ++ b.takeWhile q := by
  induction a with
  | nil => rfl
  | cons x rest ih => simp [h x (by simp), ih (fun y hy => h y (by simp [hy]))]

/-- when what follows starts with a failing element, the prefix is decided inside the first part -/
theorem takeWhile_append_fail {α} (q : α → Bool) (a : List α) (x : α) (b : List α) (h : q x = false) :
    (a ++ x :: b).takeWhile q = a.takeWhile q := by
  induction a with
  | nil => simp [h]
  | cons y rest ih =>
    by_cases hy : q y = true
    · simp [hy, ih]
    · simp [hy]

theorem Tree.active_outside (t : Tree) (p : Nat) (hp : p < t.start ∨ t.stop ≤ p) : t.active p = [] := by
  cases t with
  | node a b cfgs ch =>
    simp only [Tree.start, Tree.stop] at hp
    have : ¬ (a ≤ p ∧ p < b) := by omega
    simp [Tree.active, this]
  | point a cfgs => rfl

theorem Forest.active_outside (f : Forest) (lo hi p : Nat) (h : f.WF lo hi) (hp : p < lo ∨ hi ≤ p) : f.active p = [] := by
  cases f with
  | nil => rfl
  | cons t rest =>
    obtain ⟨h1, h2⟩ := h
    have hs := Tree.start_le_stop t lo hi h1
    have e1 := Tree.active_outside t p (by omega)
    have e2 := Forest.active_outside rest (t.stop + 1) hi p h2 (by omega)
    simp [Forest.active, e1, e2]

theorem takeWhile_append_exists_fail {α} (q : α → Bool) (a b : List α) (h : ∃ x ∈ a, q x = false) :
    (a ++ b).takeWhile q = a.takeWhile q := by
  induction a with
  | nil => simp at h
  | cons y rest ih =>
    by_cases hy : q y = true
    · obtain ⟨x, hx, hq⟩ := h
      rcases List.mem_cons.mp hx with e | e
      · subst e; simp [hy] at hq
      · simp [hy, ih ⟨x, e, hq⟩]
    · simp [hy]

/-- while a piece is not over, one of its instructions is still to come -/
theorem Tree.pending (t : Tree) (lo hi p : Nat) (h : t.WF lo hi) (hp : p < t.stop) : ∃ x ∈ t.instrs, upTo p x = false := by
  cases t with
  | node a b cfgs ch =>
    obtain ⟨_, _, _, hne, _, _⟩ := h
    obtain ⟨c0, crest, hc⟩ := List.exists_cons_of_ne_nil hne
    refine ⟨Instr.pop b, ?_, ?_⟩
    · simp only [Tree.instrs, List.mem_append, List.mem_map]
      exact Or.inr ⟨c0, by rw [hc]; simp⟩
    · simp only [Tree.stop] at hp
      unfold upTo; exact decide_eq_false (by simp only [Instr.bytes]; omega)
  | point a cfgs =>
    obtain ⟨_, _, hne, _⟩ := h
    obtain ⟨c0, crest, hc⟩ := List.exists_cons_of_ne_nil hne
    refine ⟨Instr.pop a, ?_, ?_⟩
    · simp only [Tree.instrs, List.mem_flatMap, List.mem_reverse]
      exact ⟨c0, by rw [hc]; simp, by simp⟩
    · simp only [Tree.stop] at hp
      unfold upTo; exact decide_eq_false (by simp only [Instr.bytes]; omega)

mutual
/-- **prefix execution**: running the instructions at or before `p` leaves exactly the enclosing filters on top -/
theorem Tree.exec_prefix (t : Tree) (lo hi p : Nat) (h : t.WF lo hi) (s : List Config) :
    exec (t.instrs.takeWhile (upTo p)) s = some (t.active p ++ s) := by
  cases t with
  | node a b cfgs ch =>
    have hwf := h
    obtain ⟨h1, h2, h3, hne, _, hch⟩ := h
    have hpush : ∀ i ∈ (cfgs.reverse.map fun c => Instr.push c.1 a), i.bytes = a := by
      intro i hm; simp only [List.mem_map] at hm; obtain ⟨c, _, rfl⟩ := hm; rfl
    obtain ⟨c0, crest, hc⟩ := List.exists_cons_of_ne_nil hne
    by_cases hpa : p < a
    · -- nothing of this piece has started
      have hne' : (cfgs.reverse.map fun c => Instr.push c.1 a) ≠ [] := by simp [hne]
      obtain ⟨x, xs, hx⟩ := List.exists_cons_of_ne_nil hne'
      have hxb : upTo p x = false := by
        have := hpush x (by rw [hx]; simp)
        unfold upTo; exact decide_eq_false (by rw [this]; omega)
      have hout : ¬ (a ≤ p ∧ p < b) := by omega
      simp only [Tree.instrs, Tree.active, hout, if_false, hx, List.cons_append, List.takeWhile_cons, hxb]
      simp [exec]
    · by_cases hpb : p < b
      · have hin : a ≤ p ∧ p < b := ⟨by omega, hpb⟩
        have hall : ∀ i ∈ (cfgs.reverse.map fun c => Instr.push c.1 a), upTo p i = true := by
          intro i hm
          unfold upTo; exact decide_eq_true (by rw [hpush i hm]; omega)
        have hpop : upTo p (Instr.pop b) = false := by
          unfold upTo; exact decide_eq_false (by simp only [Instr.bytes]; omega)
        have hpops : (cfgs.map fun _ => Instr.pop b) = Instr.pop b :: (crest.map fun _ => Instr.pop b) := by
          rw [hc]; rfl
        simp only [Tree.instrs, Tree.active, hin, and_self, if_true, List.append_assoc]
        rw [takeWhile_append_all _ _ _ hall, hpops, takeWhile_append_fail _ _ _ _ hpop, exec_append, exec_pushes]
        simp only [Option.bind_some]
        rw [Forest.exec_prefix ch (a + 1) b p hch]
      · -- the whole piece is over
        have hout : ¬ (a ≤ p ∧ p < b) := by omega
        have hall : ∀ i ∈ (Tree.node a b cfgs ch).instrs, upTo p i = true := by
          intro i hm
          have hb : i.bytes ≤ b := by
            simp only [Tree.instrs, List.mem_append, List.mem_map, List.mem_reverse] at hm
            rcases hm with (⟨c, _, rfl⟩ | hm) | ⟨c, _, rfl⟩
            · simp only [Instr.bytes]; omega
            · exact (Forest.bytes_within ch (a + 1) b hch i hm).2
            · simp [Instr.bytes]
          unfold upTo; exact decide_eq_true (by omega)
        rw [takeWhile_all _ _ hall]
        have hchall : ch.instrs.takeWhile (upTo p) = ch.instrs :=
          takeWhile_all _ _ (fun i hm => by
            have := (Forest.bytes_within ch (a + 1) b hch i hm).2
            unfold upTo; exact decide_eq_true (by omega))
        have hch0 := Forest.exec_prefix ch (a + 1) b p hch (cfgs.map (·.1) ++ s)
        rw [hchall, Forest.active_outside ch (a + 1) b p hch (Or.inr (by omega))] at hch0
        simp only [Tree.instrs, Tree.active, hout, if_false, exec_append, exec_pushes, Option.bind_some, List.nil_append] at hch0 ⊢
        rw [hch0]
        simp only [Option.bind_some]
        exact exec_pops cfgs b (cfgs.map (·.1)) s (by simp)
  | point a cfgs =>
    obtain ⟨_, _, hne, _⟩ := h
    by_cases hpa : p < a
    · have hne' : (cfgs.reverse.flatMap fun c => [Instr.push c.1 a, Instr.pop a]) ≠ [] := by
        obtain ⟨c0, crest, hc⟩ := List.exists_cons_of_ne_nil hne
        rw [hc]; simp
      obtain ⟨x, xs, hx⟩ := List.exists_cons_of_ne_nil hne'
      have hxa : x.bytes = a := by
        have hm : x ∈ (cfgs.reverse.flatMap fun c => [Instr.push c.1 a, Instr.pop a]) := by rw [hx]; simp
        simp only [List.mem_flatMap, List.mem_reverse, List.mem_cons, List.not_mem_nil, or_false] at hm
        obtain ⟨c, _, rfl | rfl⟩ := hm <;> rfl
      have hxb : upTo p x = false := by unfold upTo; exact decide_eq_false (by rw [hxa]; omega)
      simp only [Tree.instrs, Tree.active, hx, List.takeWhile_cons, hxb]
      simp [exec]
    · have hall : ∀ i ∈ (Tree.point a cfgs).instrs, upTo p i = true := by
        intro i hm
        simp only [Tree.instrs, List.mem_flatMap, List.mem_reverse, List.mem_cons, List.not_mem_nil, or_false] at hm
        obtain ⟨c, _, rfl | rfl⟩ := hm <;> (unfold upTo; exact decide_eq_true (by simp only [Instr.bytes]; omega))
      rw [takeWhile_all _ _ hall]
      simp only [Tree.instrs, Tree.active, List.nil_append]
      exact exec_point cfgs.reverse a s
theorem Forest.exec_prefix (f : Forest) (lo hi p : Nat) (h : f.WF lo hi) (s : List Config) :
    exec (f.instrs.takeWhile (upTo p)) s = some (f.active p ++ s) := by
  cases f with
  | nil => simp [Forest.instrs, Forest.active, exec]
  | cons t rest =>
    obtain ⟨h1, h2⟩ := h
    have ht := Tree.exec_prefix t lo hi p h1
    by_cases hpb : p < t.stop
    · -- later siblings have not started; this piece still has an instruction after `p`
      simp only [Forest.instrs, Forest.active]
      rw [takeWhile_append_exists_fail _ _ _ (Tree.pending t lo hi p h1 hpb), ht,
        Forest.active_outside rest (t.stop + 1) hi p h2 (Or.inl (by omega))]
      simp
    · have hall : ∀ i ∈ t.instrs, upTo p i = true := by
        intro i hm
        have := (Tree.bytes_within t lo hi h1 i hm).2
        unfold upTo; exact decide_eq_true (by omega)
      have ht' := ht s
      rw [takeWhile_all _ _ hall, Tree.active_outside t p (Or.inr (by omega))] at ht'
      simp only [Forest.instrs, Forest.active, Tree.active_outside t p (Or.inr (by omega)), List.nil_append] at ht' ⊢
      rw [takeWhile_append_all _ _ _ hall, exec_append, ht']
      simp only [Option.bind_some]
      exact Forest.exec_prefix rest (t.stop + 1) hi p h2 s
end

end Selene.Filter
