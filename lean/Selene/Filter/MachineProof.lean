import Selene.Filter.SpecForest
namespace Selene.Filter
open Spec

theorem insertSorted_sorted (d : Diag) (l : List Diag) (h : Sorted l) : Sorted (insertSorted d l) := by
  induction l with
  | nil => simp [insertSorted, Sorted]
  | cons e rest ih =>
    simp only [insertSorted]
    split
    · rename_i hle
      refine ⟨?_, h⟩
      intro x hx
      rcases List.mem_cons.mp hx with rfl | hx
      · exact hle
      · have := h.1 x hx; omega
    · rename_i hle
      refine ⟨?_, ih h.2⟩
      intro x hx
      rcases (mem_insertSorted d x rest).mp hx with rfl | hx
      · omega
      · exact h.1 x hx

theorem sortDiags_sorted (ds : List Diag) : Sorted (sortDiags ds) := by
  induction ds with
  | nil => simp [sortDiags, Sorted]
  | cons d rest ih => exact insertSorted_sorted d _ ih

/-- `runDiags` from the initial state -/
theorem runDiags_eq0 (X : List Instr) (ds : List Diag) (hs : Sorted ds)
    (hall : ∀ d ∈ ds, ∃ s, stackAt X d.start = some s) :
    runDiags ds X [] =
      some (ds.filterMap (decideAt X)) := by
  cases ds with
  | nil => simp [runDiags]
  | cons d rest =>
    obtain ⟨s, hsd⟩ := hall d (by simp)
    have hrun : runPending X [] d.start = some (X.dropWhile (upTo d.start), s) := by
      rw [runPending_eq]
      have : exec (X.takeWhile (upTo d.start)) [] = some s := hsd
      rw [this]; rfl
    have hrest := runDiags_eq X rest hs.2 d.start s hsd (fun e he => hs.1 e he) (fun e he => hall e (by simp [he]))
    simp only [runDiags, hrun, hrest, List.filterMap_cons, decideAt, hsd, Option.bind_some]
    cases decide1 s d <;> simp

theorem exec_global_pushes (G : List Filter) (s : List Config) :
    exec ((G.map fun g => Instr.push g.cfg 0).reverse) s = some (G.map (·.cfg) ++ s) := by
  induction G generalizing s with
  | nil => simp [exec]
  | cons g rest ih =>
    simp only [List.map_cons, List.reverse_cons, exec_append, ih]
    simp [exec]

theorem head?_filter_and (l : List Filter) (q : Filter → Bool) (code : String) :
    ((l.filter fun f => q f && decide (f.cfg.lint = code)).head?).map (·.cfg) =
      ((l.filter q).map (·.cfg)).find? (fun c => c.lint = code) := by
  induction l with
  | nil => rfl
  | cons f rest ih =>
    by_cases hq : q f = true
    · by_cases hl : f.cfg.lint = code
      · simp [hq, hl]
      · simp only [List.filter_cons, hq, hl, decide_false, Bool.and_false, Bool.false_eq_true, if_false, if_true,
          List.map_cons, List.find?_cons] at ih ⊢
        exact ih
    · simp only [List.filter_cons, hq, Bool.false_and, Bool.false_eq_true, if_false] at ih ⊢
      exact ih

/-- **C08 (the push/pop machine = innermost covering filter wins).**  For every family of accepted filters
whose inline members are the filters of a well-formed forest of code pieces (nested or strictly apart,
arbitrary depth and breadth, any number of filters per piece, any number of global filters anywhere in
the list), every list of diagnostics: the machine does not panic and reports exactly what the
specification prescribes for each diagnostic, in order of position. -/
theorem machine_eq_spec (entries : List RangeEntry) (fc : Option Nat) (ds : List Diag) (F : Forest) (hi : Nat)
    (hF : (filtersOf entries).filter (fun f => !f.cfg.global) = F.filters) (hwf : F.WF 0 hi)
    (hne : (filtersOf entries).isEmpty = false) :
    (filterDiagnostics entries fc ds).map (·.diags) =
      some ((sortDiags ds).filterMap (Spec.verdict (filtersOf entries) fc)) := by
  -- the instruction list
  have hinstr : (build fc (filtersOf entries)).instrs.reverse =
      (((filtersOf entries).filter (acceptedGlobal fc)).map fun g => Instr.push g.cfg 0).reverse ++ F.instrs := by
    simp only [build, List.reverse_append]
    rw [foldl_buildStep_globals, foldl_buildStep_instrs, hF]
    have := Forest.build_instrs F 0 hi hwf [] [] (by simp) (by simp)
    simp only [List.nil_append, List.append_nil] at this
    show _ ++ (List.foldl instrStep [] F.filters).reverse = _
    rw [this]; simp
  -- the stack in force at every position
  have hstack : ∀ p, stackAt (build fc (filtersOf entries)).instrs.reverse p =
      some (F.active p ++ ((filtersOf entries).filter (acceptedGlobal fc)).map (·.cfg)) := by
    intro p
    unfold stackAt
    rw [hinstr, takeWhile_append_all _ _ _ (by
      intro i hi
      simp only [List.mem_reverse, List.mem_map] at hi
      obtain ⟨g, _, rfl⟩ := hi
      simp [upTo, Instr.bytes]), exec_append, exec_global_pushes]
    simp only [List.append_nil, Option.bind_some]
    exact Forest.exec_prefix F 0 hi p hwf _
  -- the verdict for one diagnostic
  have hverdict : ∀ d : Diag,
      decide1 (F.active d.start ++ ((filtersOf entries).filter (acceptedGlobal fc)).map (·.cfg)) d =
        Spec.verdict (filtersOf entries) fc d := by
    intro d
    have hcov : (filtersOf entries).filter (fun f => covers f d) = cov d F.filters := by
      rw [← hF]
      simp only [cov, List.filter_filter]
      apply List.filter_congr
      intro f _
      simp only [covers]
      cases f.cfg.global <;> simp
    have h1 := Forest.spec_active F 0 hi hwf d
    have h2 := head?_filter_and (filtersOf entries) (acceptedGlobal fc) d.code
    unfold Spec.verdict decide1
    rw [hcov, List.find?_append, ← h1]
    cases hi : innermost (cov d F.filters) with
    | some f => simp [applySev]
    | none =>
      simp only [Option.map_none, Option.none_or]
      rw [← h2]
      cases ((filtersOf entries).filter fun f => acceptedGlobal fc f && decide (f.cfg.lint = d.code)).head? with
      | some g => simp [applySev]
      | none => simp
  unfold filterDiagnostics
  simp only [hne, Bool.false_eq_true, if_false]
  rw [runDiags_eq0 _ _ (sortDiags_sorted ds) (fun d _ => ⟨_, hstack d.start⟩)]
  have hfun : decideAt (build fc (filtersOf entries)).instrs.reverse = Spec.verdict (filtersOf entries) fc := by
    funext d
    simp only [decideAt, hstack, Option.bind_some, hverdict]
  simp only [Option.map_some, hfun]

end Selene.Filter
