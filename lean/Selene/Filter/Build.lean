import Selene.Filter.Forest
namespace Selene.Filter

/-- what one accepted inline filter does to the instruction list -/
def instrStep (is : List Instr) (f : Filter) : List Instr :=
  insertInstr (insertInstr is f.range.2 (.pop f.range.2)) f.range.1 (.push f.cfg f.range.1)

theorem insertInstr_skip (A B : List Instr) (x : Nat) (new : Instr) (h : ∀ i ∈ A, x ≤ i.bytes) :
    insertInstr (A ++ B) x new = A ++ insertInstr B x new := by
  induction A with
  | nil => rfl
  | cons i rest ih =>
    have hi : ¬ i.bytes < x := by have := h i (by simp); omega
    simp only [List.cons_append, insertInstr, hi, if_false]
    rw [ih (fun j hj => h j (by simp [hj]))]

theorem insertInstr_here (B : List Instr) (x : Nat) (new : Instr) (h : ∀ i ∈ B, i.bytes < x) :
    insertInstr B x new = new :: B := by
  cases B with
  | nil => rfl
  | cons i rest => simp [insertInstr, h i (by simp)]

theorem insertInstr_at (A B : List Instr) (x : Nat) (new : Instr) (hA : ∀ i ∈ A, x ≤ i.bytes) (hB : ∀ i ∈ B, i.bytes < x) :
    insertInstr (A ++ B) x new = A ++ new :: B := by
  rw [insertInstr_skip A B x new hA, insertInstr_here B x new hB]

/-- the filters of one piece of code: `Pop`s pile up after what is at or beyond `b`, pushes after what is at or beyond `a` -/
theorem own_filters (a b : Nat) (hab : a < b) (cfgs : List (Config × (Nat × Nat))) (H P Q L : List Instr)
    (hH : ∀ i ∈ H, b ≤ i.bytes) (hP : ∀ i ∈ P, b ≤ i.bytes) (hQ : ∀ i ∈ Q, a ≤ i.bytes ∧ i.bytes < b)
    (hL : ∀ i ∈ L, i.bytes < a) :
    (cfgs.map fun c => ({ cfg := c.1, commentRange := c.2, range := (a, b) } : Filter)).foldl instrStep (H ++ P ++ Q ++ L) =
      H ++ (P ++ cfgs.map fun _ => Instr.pop b) ++ (Q ++ cfgs.map fun c => Instr.push c.1 a) ++ L := by
  induction cfgs generalizing P Q with
  | nil => simp
  | cons c rest ih =>
    simp only [List.map_cons, List.foldl_cons]
    have step : instrStep (H ++ P ++ Q ++ L) { cfg := c.1, commentRange := c.2, range := (a, b) } =
        H ++ (P ++ [Instr.pop b]) ++ (Q ++ [Instr.push c.1 a]) ++ L := by
      unfold instrStep
      simp only
      have e1 : insertInstr (H ++ P ++ Q ++ L) b (Instr.pop b) = (H ++ P) ++ Instr.pop b :: (Q ++ L) := by
        have : H ++ P ++ Q ++ L = (H ++ P) ++ (Q ++ L) := by simp
        rw [this]
        apply insertInstr_at
        · intro i hi; rcases List.mem_append.mp hi with h | h
          · exact hH i h
          · exact hP i h
        · intro i hi; rcases List.mem_append.mp hi with h | h
          · exact (hQ i h).2
          · have := hL i h; omega
      rw [e1]
      have e2 : insertInstr ((H ++ P) ++ Instr.pop b :: (Q ++ L)) a (Instr.push c.1 a) =
          ((H ++ P) ++ Instr.pop b :: Q) ++ Instr.push c.1 a :: L := by
        have : (H ++ P) ++ Instr.pop b :: (Q ++ L) = ((H ++ P) ++ Instr.pop b :: Q) ++ L := by simp
        rw [this]
        apply insertInstr_at
        · intro i hi
          simp only [List.mem_append, List.mem_cons] at hi
          rcases hi with (h | h) | h | h
          · have := hH i h; omega
          · have := hP i h; omega
          · subst h; simp [Instr.bytes]; omega
          · exact (hQ i h).1
        · exact hL
      rw [e2]; simp
    rw [step]
    have := ih (P ++ [Instr.pop b]) (Q ++ [Instr.push c.1 a])
      (by intro i hi; rcases List.mem_append.mp hi with h | h
          · exact hP i h
          · simp at h; subst h; simp [Instr.bytes])
      (by intro i hi; rcases List.mem_append.mp hi with h | h
          · exact hQ i h
          · simp at h; subst h; simp [Instr.bytes]; omega)
    rw [this]; simp


theorem map_const_reverse {α β} (l : List α) (x : β) : (l.map fun _ => x).reverse = l.map fun _ => x := by
  induction l with
  | nil => rfl
  | cons y rest ih =>
    simp only [List.map_cons, List.reverse_cons, ih]
    clear ih
    induction rest with
    | nil => rfl
    | cons z zs ih2 => simp only [List.map_cons, List.cons_append, ih2]

theorem Tree.instrs_reverse (a b : Nat) (cfgs : List (Config × (Nat × Nat))) (ch : Forest) :
    (Tree.node a b cfgs ch).instrs.reverse =
      (cfgs.map fun _ => Instr.pop b) ++ ch.instrs.reverse ++ cfgs.map fun c => Instr.push c.1 a := by
  simp only [Tree.instrs, List.reverse_append, map_const_reverse, List.map_reverse, List.reverse_reverse, List.append_assoc]

/-- the filters of a zero-width piece: each `Pop` and `Push` lands after everything already there at that byte -/
theorem point_filters (a : Nat) (cfgs : List (Config × (Nat × Nat))) (H M L : List Instr)
    (hH : ∀ i ∈ H, a ≤ i.bytes) (hM : ∀ i ∈ M, a ≤ i.bytes) (hL : ∀ i ∈ L, i.bytes < a) :
    (cfgs.map fun c => ({ cfg := c.1, commentRange := c.2, range := (a, a) } : Filter)).foldl instrStep (H ++ M ++ L) =
      H ++ (M ++ cfgs.flatMap fun c => [Instr.pop a, Instr.push c.1 a]) ++ L := by
  induction cfgs generalizing M with
  | nil => simp
  | cons c rest ih =>
    simp only [List.map_cons, List.foldl_cons]
    have step : instrStep (H ++ M ++ L) { cfg := c.1, commentRange := c.2, range := (a, a) } =
        H ++ (M ++ [Instr.pop a, Instr.push c.1 a]) ++ L := by
      unfold instrStep
      simp only
      have e1 : insertInstr (H ++ M ++ L) a (Instr.pop a) = (H ++ M) ++ Instr.pop a :: L := by
        apply insertInstr_at
        · intro i hi; rcases List.mem_append.mp hi with h | h
          · exact hH i h
          · exact hM i h
        · exact hL
      rw [e1]
      have e2 : insertInstr ((H ++ M) ++ Instr.pop a :: L) a (Instr.push c.1 a) =
          ((H ++ M) ++ [Instr.pop a]) ++ Instr.push c.1 a :: L := by
        have : (H ++ M) ++ Instr.pop a :: L = ((H ++ M) ++ [Instr.pop a]) ++ L := by simp
        rw [this]
        apply insertInstr_at
        · intro i hi
          simp only [List.mem_append, List.mem_cons, List.not_mem_nil, or_false] at hi
          rcases hi with (h | h) | h
          · exact hH i h
          · exact hM i h
          · subst h; simp [Instr.bytes]
        · exact hL
      rw [e2]; simp
    rw [step]
    have := ih (M ++ [Instr.pop a, Instr.push c.1 a])
      (by intro i hi; rcases List.mem_append.mp hi with h | h
          · exact hM i h
          · simp only [List.mem_cons, List.not_mem_nil, or_false] at h
            rcases h with rfl | rfl <;> simp [Instr.bytes])
    rw [this]; simp

theorem point_instrs_reverse (a : Nat) (cfgs : List (Config × (Nat × Nat))) :
    (Tree.point a cfgs).instrs.reverse = cfgs.flatMap fun c => [Instr.pop a, Instr.push c.1 a] := by
  simp only [Tree.instrs]
  induction cfgs with
  | nil => rfl
  | cons c rest ih =>
    simp only [List.reverse_cons, List.flatMap_append, List.flatMap_cons, List.flatMap_nil, List.append_nil,
      List.reverse_append, ih]
    rfl

mutual
/-- **the built list is the structural one**: inserting the filters of a forest (pre-order) between what lies
    beyond it and what lies before it yields the forest's instruction list, reversed -/
theorem Tree.build_instrs (t : Tree) (lo hi : Nat) (h : t.WF lo hi) (H L : List Instr)
    (hH : ∀ i ∈ H, hi ≤ i.bytes) (hL : ∀ i ∈ L, i.bytes < lo) :
    t.filters.foldl instrStep (H ++ L) = H ++ t.instrs.reverse ++ L := by
  cases t with
  | node a b cfgs ch =>
    obtain ⟨h1, h2, h3, hne, hg, hch⟩ := h
    simp only [Tree.filters, List.foldl_append]
    have own := own_filters a b h2 cfgs H [] [] L (fun i hi => by have := hH i hi; omega) (by simp) (by simp)
      (fun i hi => by have := hL i hi; omega)
    simp only [List.append_nil, List.nil_append] at own
    rw [own]
    have hch' := Forest.build_instrs ch (a + 1) b hch (H ++ cfgs.map fun _ => Instr.pop b)
      ((cfgs.map fun c => Instr.push c.1 a) ++ L)
      (by intro i hi; rcases List.mem_append.mp hi with h | h
          · have := hH i h; omega
          · simp only [List.mem_map] at h; obtain ⟨_, _, rfl⟩ := h; simp [Instr.bytes])
      (by intro i hi; rcases List.mem_append.mp hi with h | h
          · simp only [List.mem_map] at h; obtain ⟨_, _, rfl⟩ := h; simp [Instr.bytes]
          · have := hL i h; omega)
    have e : H ++ (cfgs.map fun _ => Instr.pop b) ++ (cfgs.map fun c => Instr.push c.1 a) ++ L =
        (H ++ cfgs.map fun _ => Instr.pop b) ++ ((cfgs.map fun c => Instr.push c.1 a) ++ L) := by simp
    rw [e, hch', Tree.instrs_reverse]
    simp
  | point a cfgs =>
    obtain ⟨h1, h2, _, _⟩ := h
    have own := point_filters a cfgs H [] L (fun i hi => by have := hH i hi; omega) (by simp)
      (fun i hi => by have := hL i hi; omega)
    simp only [List.append_nil, List.nil_append] at own
    simp only [Tree.filters]
    rw [own, point_instrs_reverse]
theorem Forest.build_instrs (f : Forest) (lo hi : Nat) (h : f.WF lo hi) (H L : List Instr)
    (hH : ∀ i ∈ H, hi ≤ i.bytes) (hL : ∀ i ∈ L, i.bytes < lo) :
    f.filters.foldl instrStep (H ++ L) = H ++ f.instrs.reverse ++ L := by
  cases f with
  | nil => simp [Forest.filters, Forest.instrs]
  | cons t rest =>
    obtain ⟨h1, h2⟩ := h
    have ht := Tree.build_instrs t lo hi h1 H L hH hL
    have hs := Tree.start_le_stop t lo hi h1
    simp only [Forest.filters, List.foldl_append, Forest.instrs, List.reverse_append]
    rw [ht]
    have hbelow : ∀ i ∈ t.instrs.reverse ++ L, i.bytes < t.stop + 1 := by
      intro i hmem
      rcases List.mem_append.mp hmem with hm | hm
      · have hm' : i ∈ t.instrs := by simpa using hm
        have := (Tree.bytes_within t lo hi h1 i hm').2
        omega
      · have := hL i hm
        omega
    have hr := Forest.build_instrs rest (t.stop + 1) hi h2 H (t.instrs.reverse ++ L) hH hbelow
    have e : H ++ t.instrs.reverse ++ L = H ++ (t.instrs.reverse ++ L) := by simp
    rw [e, hr]
    simp
end

theorem foldl_buildStep_instrs (fc : Option Nat) (fs : List Filter) (st : BuildSt) :
    (fs.foldl (buildStep fc) st).instrs = (fs.filter fun f => !f.cfg.global).foldl instrStep st.instrs := by
  induction fs generalizing st with
  | nil => rfl
  | cons f rest ih =>
    simp only [List.foldl_cons, List.filter_cons]
    rw [ih, buildStep_instrs]
    by_cases hg : f.cfg.global = true
    · simp [hg]
    · have hl : isLate fc f = false := by simp [isLate, hg]
      simp [hg, hl, instrStep]

theorem foldl_buildStep_globals (fc : Option Nat) (fs : List Filter) (st : BuildSt) :
    (fs.foldl (buildStep fc) st).globals = st.globals ++ fs.filter (Spec.acceptedGlobal fc) := by
  induction fs generalizing st with
  | nil => simp
  | cons f rest ih =>
    simp only [List.foldl_cons, List.filter_cons]
    rw [ih, buildStep_globals]
    by_cases hg : f.cfg.global = true
    · by_cases hl : isLate fc f = true
      · simp [Spec.acceptedGlobal, hg, hl]
      · simp [Spec.acceptedGlobal, hg, hl]
    · have hl : isLate fc f = false := by simp [isLate, hg]
      simp [Spec.acceptedGlobal, hg, hl]

end Selene.Filter
