import Driver.Proto
import Selene.Lua.Read
import Selene.Lints.Roact
namespace Driver.Roact
open Selene Selene.Lua Selene.Lints.Roact

def showDiag (d : Diag) : String :=
  s!"(({d.range.first} {d.range.last}) {d.message.quote} ({" ".intercalate (d.notes.map String.quote)}))"

def readClasses : Sexp → Option Selene.Std.Roblox.Classes
  | .list xs => xs.mapM fun x => match x with
    | .list [n, sup, .list evs, .list props] => do
      some (← n.asString?, { superclass := ← sup.asString?, events := ← evs.mapM Sexp.asString?, properties := ← props.mapM Sexp.asString? })
    | _ => none
  | _ => none

/-- request `(chunk origin src classes (token…))`, implementation `(named-with-classes unnamed named-without-classes)`, each a
list of `((first last) message (note…))` in the order the lint emits them -/
def handleProg : Handler := fun input impl =>
  match input with
  | .list [schunk, _origin, _src, scls, .list toksx] =>
    match readChunk schunk, readClasses scls with
    | some chunk, some cs =>
      let toks := toksx.filterMap Sexp.asString?
      let on := (run true toks cs chunk.block).map showDiag
      let unnamed := (run false toks cs chunk.block).map showDiag
      let classless := (run true toks [] chunk.block).map showDiag
      match impl with
      | .atom "panic" => { agree := false, spec := some "[C11] roblox_incorrect_roact_usage panicked", model := "" }
      | .list [.list i1, .list i2, .list i3] =>
        let ok := on == i1.map toString && unnamed == i2.map toString && classless == i3.map toString
        let has := fun (frag : String) => on.any fun d => (d.splitOn frag).length > 1
        let tags := (if on.isEmpty then ["silent"] else ["reported"]) ++
          (if has "is not a valid event" then ["event"] else []) ++ (if has "is not a property" then ["property"] else []) ++
          (if has "element's key" then ["name-key"] else []) ++ (if has "is not a valid class" then ["unknown-class"] else [])
        { agree := ok,
          model := if ok then "" else s!"model {on.filter fun x => !(i1.map toString).contains x} impl {(i1.map toString).filter fun x => !on.contains x} order-or-other: model {on.length}/{unnamed.length}/{classless.length} impl {i1.length}/{i2.length}/{i3.length}",
          tags }
      | _ => .malformed "roact impl"
    | _, _ => .malformed "roact chunk / classes"
  | _ => .malformed "roact"

def handlers : List (String × Handler) := [("ROACT.prog", handleProg)]
end Driver.Roact
