import Driver.Proto
import Selene.Props.C19
namespace Driver.C19
open Selene Selene.Cli

def readSev : Sexp → Option Sev
  | .atom "error" => some .error
  | .atom "warning" => some .warning
  | .atom "allow" => some .allow
  | _ => none

def readOutcome : Sexp → Option FileOutcome
  | .atom "missing" => some .missing
  | .atom "unreadable" => some .unreadable
  | .list [.atom "parse", n] => do some (.parseErrors (← n.asNat?))
  | .list (.atom "linted" :: sevs) => do some (.linted (← sevs.mapM readSev))
  | _ => none

def readFile : Sexp → Option File
  | .list [p, e, o] => do some { path := ← p.asString?, excludedByPattern := ← e.asBool?, outcome := ← readOutcome o }
  | _ => none

/-- request: `((file…) (allowWarnings noExclude noSummary luacheck))`,
    implementation (5th flag = number of crashed workers): `(exit summaryPrinted (parse errors warnings)|none printedErrors printedWarnings)` -/
def handleRun : Handler := fun input impl =>
  match input, impl with
  | .list [.list sfiles, .list [aw, ne, ns, lc, spanics]], .list [sexit, ssum, scounts, sperr, spwarn] =>
    match sfiles.mapM readFile, aw.asBool?, ne.asBool?, ns.asBool?, lc.asBool?, sexit.asNat?, ssum.asBool?,
          sperr.asNat?, spwarn.asNat?, spanics.asNat? with
    | some files, some aw, some ne, some ns, some lc, some iexit, some isum, some perr, some pwarn, some panics =>
      let fl : Flags := { allowWarnings := aw, noExclude := ne, noSummary := ns, luacheck := lc }
      let r := runCli files fl panics
      let countsOk := match scounts with
        | .list [p, e, w] => p.asNat? == some r.counts.parse && e.asNat? == some r.counts.errors && w.asNat? == some r.counts.warnings
        | _ => true
      let agree := r.exit == iexit && (panics > 0 || r.summary == isum) && countsOk
      -- specification, evaluated on what the implementation printed
      let chk := checked files ne
      let failed := (chk.filter fun f => Selene.Props.C19.isFailedToOpen f.outcome).length
      let parseN := (chk.map fun f => match f.outcome with | .parseErrors n => n | _ => 0).sum
      let nothing := perr == 0 && failed == 0 && parseN == 0 && panics == 0 && (pwarn == 0 || aw)
      let spec :=
        if (iexit == 0) != nothing then
          some s!"exit status {iexit} although printed errors={perr} warnings={pwarn} parse errors={parseN} unopenable files={failed} crashed workers={panics} allow-warnings={aw}"
        else match scounts with
          | .list [p, e, w] =>
            if e.asNat? != some (perr + failed) then some s!"summary says {e} errors, {perr} error diagnostics were printed and {failed} files could not be opened"
            else if w.asNat? != some pwarn then some s!"summary says {w} warnings, {pwarn} were printed"
            else if p.asNat? != some parseN then some s!"summary says {p} parse errors, files have {parseN}"
            else none
          | _ => none
      let tags := (if aw then ["allow-warnings"] else []) ++ (if ne then ["no-exclude"] else []) ++
        (if ns then ["no-summary"] else []) ++ (if lc then ["luacheck"] else []) ++ (if panics > 0 then ["worker-crash"] else []) ++
        (if r.counts.errors > 0 then ["E"] else []) ++ (if r.counts.warnings > 0 then ["W"] else []) ++
        (if r.counts.parse > 0 then ["P"] else []) ++
        (if files.any (fun f => f.outcome == .missing) then ["missing"] else []) ++
        (if files.any (·.excludedByPattern) then ["excluded"] else []) ++ [s!"exit{r.exit}"]
      { agree, spec, model := s!"(exit {r.exit} summary {r.summary} counts {r.counts.parse} {r.counts.errors} {r.counts.warnings})", tags }
    | _, _, _, _, _, _, _, _, _, _ => .malformed "run parts"
  | _, _ => .malformed "run"

def handlers : List (String × Handler) := [("C19.run", handleRun)]
end Driver.C19
