import Driver.Proto
import Driver.C06
import Selene.Lua.Read
import Selene.Std.Prog
import Selene.Scope.RefAt
import Selene.Scope.Coherent
import Selene.Scope.Spec
import Selene.Lints.Roblox
import Driver.Scope
namespace Driver.StdProg
open Selene Selene.Lua Selene.Std Selene.Std.Prog Selene.Scope

def sortStrs (l : List String) : List String := (l.toArray.qsort (· < ·)).toList

def showPDiag (g : PDiag) : String :=
  let (m, lm) := g.message
  s!"({g.code.quote} ({g.span.first} {g.span.last}) {m.quote} {lm.quote})"

/-- implementation diagnostics arrive as `(code (first last) message labelMessage)` -/
def implKey (s : Sexp) : Option String :=
  match s with
  | .list [c, p, m, lm] => some s!"({(c.asString?.getD "").quote} {toString p} {(m.asString?.getD "").quote} {(lm.asString?.getD "").quote})"
  | _ => none

def readAllow : Sexp → Option (List (List String))
  | .list xs => xs.mapM fun x => x.asString?.map (·.splitOn ".")
  | _ => none

def kindTag : Kind → String
  | .access .noField => "no-field"
  | .access .notWritable => "not-writable"
  | .access .notOverridable => "not-overridable"
  | .call .notFunction => "not-function"
  | .call (.style _) => "style"
  | .call (.needsVararg _) => "needs-vararg"
  | .call (.count _ _ _) => "count"
  | .call (.type _ _ _) => "type"
  | .deprecated w _ => "deprecated-" ++ w
  | .deprecatedParam _ => "deprecated-param"
  | .mustUse => "must-use"

/-- request `(lib allow chunk origin src)`, implementation `(diags…)` of the two lints, or `panic` -/
def handleProg : Handler := fun input impl =>
  match input with
  | .list [slib, sallow, schunk, _origin, _src] =>
    match readLib slib, readAllow sallow, readChunk schunk with
    | some lib, some allow, some chunk =>
      let l := Driver.C06.toSegLib lib
      let σ := Core.analyse chunk.block
      let R := σ.resolvedAt
      let mdiags := stdLint l R chunk.block ++ deprecatedLint l R allow chunk.block ++ mustUseLint l R chunk.block
      match impl with
      | .atom "panic" => { agree := false, spec := some "[C11] the library lints panicked", model := "" }
      | .list idiags =>
        let md := sortStrs (mdiags.map showPDiag)
        let id := sortStrs (idiags.filterMap implKey)
        let coherent := σ.firstRefCoherent
        -- the hypothesis of `C07_std_inside_tree`, on the tree itself: the reference tokens are pairwise distinct
        let distinct := decide (Core.refTokens chunk.block).Nodup
        -- three-way: the implementation's diagnostics judged by Lua's scoping rules directly — a diagnostic whose
        -- range starts at an identifier that the resolver binds to a local declaration is a use inside that binding's scope
        let spec := Spec.resolve chunk.block
        -- the use a diagnostic is about: for a diagnostic the model also produces, the root token the model's gate looked at;
        -- otherwise the start of its range — except where the range is an *argument* of the call (type problems, deprecated
        -- parameters), whose first token says nothing about the called name
        let boundAt := fun (t : Nat) => match spec.occs.find? (fun o => o.tok == t && o.kind != .target) with
          | some o => o.binding.map fun (dtok, _) => (o.name, dtok)
          | none => none
        let inside := idiags.filterMap fun d => match d with
          | .list [c, .list [a, _], m, _] =>
            let msg := m.asString?.getD ""
            let key := implKey d
            let root : Option Nat := match mdiags.find? (fun g => some (showPDiag g) == key) with
              | some g => some g.root
              | none =>
                if msg.startsWith "use of standard_library function" || msg == "this parameter is deprecated" then none else a.asNat?
            match root.bind boundAt with
            | some (name, dtok) => some s!"[C07] inside: {c} `{msg}` for a use rooted at token {root.getD 0}, where `{name}` denotes the script's own variable declared at token {dtok}"
            | none => none
          | _ => none
        let tags := (mdiags.map fun g => kindTag g.kind).eraseDups ++
          (if mdiags.isEmpty then ["silent"] else []) ++
          (if spec.occs.any (fun o => o.binding.isSome && (lib.globals.any fun (k, _) => (k.splitOn ".").head? == some o.name)) then ["rebound-library-name"] else []) ++
          (if coherent then [] else ["first-ref-incoherent"]) ++ (if distinct then [] else ["reference-tokens-not-distinct"])
        -- at a library call site the model's style / count problems are exactly the documented ones (C05_prog_style,
        -- C05_prog_count), and at a read or assignment target its access problems are those of the documented lookup
        -- (C06_prog_read, C06_prog_write): a difference there is a difference from the specification
        let onlyModel := mdiags.filter fun g => !id.contains (showPDiag g)
        let onlyImpl := idiags.filter fun d => match implKey d with | some k => !md.contains k | none => false
        let missing := onlyModel.filterMap fun g => match g.kind with
          | .call (.style _) => some s!"[C05] style/missing: `{g.message.1}` is not reported for the call at tokens {g.span.first}..{g.span.last} although the call style differs from the definition"
          | .call (.count _ _ _) => some s!"[C05] count/missing: `{g.message.1}` is not reported for the call at tokens {g.span.first}..{g.span.last}"
          | .call (.needsVararg _) => some s!"[C05] count/missing: `{g.message.1}` is not reported for the call at tokens {g.span.first}..{g.span.last}"
          | .call .notFunction => some s!"[C05] not-function/missing: `{g.message.1}` is not reported at tokens {g.span.first}..{g.span.last}"
          | .access _ => some s!"[C06] missing: `{g.message.1}` is not reported at tokens {g.span.first}..{g.span.last} although the documented lookup and writability rules require it"
          | _ => none
        let unexpected := onlyImpl.filterMap fun d => match d with
          | .list [_, sp, m, _] =>
            let msg := m.asString?.getD ""
            if msg.endsWith "is a method" || msg.endsWith "is not a method" then some s!"[C05] style/unexpected: `{msg}` at {sp} although the call style matches the definition (or the name is not the library's)"
            else if (msg.splitOn " requires ").length > 1 then some s!"[C05] count/unexpected: `{msg}` at {sp}"
            else if (msg.splitOn "does not contain the field").length > 1 || msg.endsWith "is not writable" || msg.endsWith "is not overridable" then
              some s!"[C06] unexpected: `{msg}` at {sp} although the documented lookup and writability rules allow the access"
            else none
          | _ => none
        { agree := md == id && coherent && distinct,
          spec := (inside ++ missing ++ unexpected).head?.map fun first => " ;; ".intercalate (first :: ((inside ++ missing ++ unexpected).drop 1).take 3),
          model := if md == id then (if !coherent then "hypothesis firstRefCoherent of C07_std_inside does not hold on this program" else if !distinct then "hypothesis `reference tokens pairwise distinct` of C07_std_inside_tree does not hold on this program" else "")
                   else s!"model {md.filter fun x => !id.contains x} impl {id.filter fun x => !md.contains x}",
          tags }
      | _ => .malformed "stdprog impl"
    | _, _, _ => .malformed "stdprog lib / allow / chunk"
  | _ => .malformed "stdprog"

/-- request `(chunk src)`, implementation `((code (first last) message)…)` of the three Roblox constructor lints -/
def handleRoblox : Handler := fun input impl =>
  match input with
  | .list [schunk, _src] =>
    match readChunk schunk with
    | some chunk =>
      let mdiags := Selene.Lints.Roblox.lint chunk.block
      match impl with
      | .atom "panic" => { agree := false, spec := some "[C11] a Roblox lint panicked", model := "" }
      | .list idiags =>
        let md := sortStrs (mdiags.map fun g => s!"({g.code.quote} ({g.primary.first} {g.primary.last}) {g.msg.quote})")
        let id := sortStrs (idiags.filterMap fun d => match d with
          | .list [c, p, m] => some s!"({(c.asString?.getD "").quote} {toString p} {(m.asString?.getD "").quote})"
          | _ => none)
        { agree := md == id,
          model := if md == id then "" else s!"model {md.filter fun x => !id.contains x} impl {id.filter fun x => !md.contains x}",
          tags := (mdiags.map (·.code)).eraseDups ++ (if mdiags.isEmpty then ["silent"] else []) }
      | _ => .malformed "roblox impl"
    | none => .malformed "roblox chunk"
  | _ => .malformed "roblox"

def handlers : List (String × Handler) := [("STD.prog", handleProg), ("ROBLOX.prog", handleRoblox)]
end Driver.StdProg
