import Driver.Proto
import Driver.C06
import Selene.Lua.Read
import Selene.Std.Prog
import Selene.Scope.RefAt
import Selene.Scope.Coherent
import Selene.Scope.Spec
namespace Driver.StdProg
open Selene Selene.Lua Selene.Std Selene.Std.Prog Selene.Scope

def sortStrs (l : List String) : List String := (l.toArray.qsort (· < ·)).toList

def showPDiag (g : PDiag) : String :=
  let (m, lm) := g.message
  s!"({g.code.quote} ({g.span.first} {g.span.last}) {m.quote} {lm.quote})"

/-- implementation diagnostics arrive as `(code (first last) message labelMessage)` -/
def implKey (s : Sexp) : Option String :=
  match s with
  | .list [c, p, m, lm] => some s!"({(c.asString?.getD "").quote} {toString p} {(m.asString?.getD "").quote} {(lm.asString?.getD "").quote})"
  | _ => none

def readAllow : Sexp → Option (List (List String))
  | .list xs => xs.mapM fun x => x.asString?.map (·.splitOn ".")
  | _ => none

def kindTag : Kind → String
  | .access .noField => "no-field"
  | .access .notWritable => "not-writable"
  | .access .notOverridable => "not-overridable"
  | .call .notFunction => "not-function"
  | .call (.style _) => "style"
  | .call (.needsVararg _) => "needs-vararg"
  | .call (.count _ _ _) => "count"
  | .call (.type _ _ _) => "type"
  | .deprecated w _ => "deprecated-" ++ w
  | .deprecatedParam _ => "deprecated-param"
  | .mustUse => "must-use"

/-- request `(lib allow chunk origin src)`, implementation `(diags…)` of the two lints, or `panic` -/
def handleProg : Handler := fun input impl =>
  match input with
  | .list [slib, sallow, schunk, _origin, _src] =>
    match readLib slib, readAllow sallow, readChunk schunk with
    | some lib, some allow, some chunk =>
      let l := Driver.C06.toSegLib lib
      let σ := Core.analyse chunk.block
      let R := σ.resolvedAt
      let mdiags := stdLint l R chunk.block ++ deprecatedLint l R allow chunk.block ++ mustUseLint l R chunk.block
      match impl with
      | .atom "panic" => { agree := false, spec := some "[C11] the library lints panicked", model := "" }
      | .list idiags =>
        let md := sortStrs (mdiags.map showPDiag)
        let id := sortStrs (idiags.filterMap implKey)
        let coherent := σ.firstRefCoherent
        -- the hypothesis of `C07_std_inside_tree`, on the tree itself: the reference tokens are pairwise distinct
        let distinct := decide (Core.refTokens chunk.block).Nodup
        -- three-way: the implementation's diagnostics judged by Lua's scoping rules directly — a diagnostic whose
        -- range starts at an identifier that the resolver binds to a local declaration is a use inside that binding's scope
        let spec := Spec.resolve chunk.block
        let inside := idiags.filterMap fun d => match d with
          | .list [c, .list [a, _], m, _] =>
            match a.asNat? with
            | some t =>
              match spec.occs.find? (fun o => o.tok == t && o.kind != .target) with
              | some o => match o.binding with
                | some (dtok, _) => some s!"[C07] inside: {c} `{m.asString?.getD ""}` at token {t}, where `{o.name}` denotes the script's own variable declared at token {dtok}"
                | none => none
              | none => none
            | none => none
          | _ => none
        let tags := (mdiags.map fun g => kindTag g.kind).eraseDups ++
          (if mdiags.isEmpty then ["silent"] else []) ++
          (if spec.occs.any (fun o => o.binding.isSome && (lib.globals.any fun (k, _) => (k.splitOn ".").head? == some o.name)) then ["rebound-library-name"] else []) ++
          (if coherent then [] else ["first-ref-incoherent"]) ++ (if distinct then [] else ["reference-tokens-not-distinct"])
        { agree := md == id && coherent && distinct,
          spec := inside.head?,
          model := if md == id then (if !coherent then "hypothesis firstRefCoherent of C07_std_inside does not hold on this program" else if !distinct then "hypothesis `reference tokens pairwise distinct` of C07_std_inside_tree does not hold on this program" else "")
                   else s!"model {md.filter fun x => !id.contains x} impl {id.filter fun x => !md.contains x}",
          tags }
      | _ => .malformed "stdprog impl"
    | _, _, _ => .malformed "stdprog lib / allow / chunk"
  | _ => .malformed "stdprog"

def handlers : List (String × Handler) := [("STD.prog", handleProg)]
end Driver.StdProg
