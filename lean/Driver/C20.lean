import Driver.Proto
import Selene.Props.C20
namespace Driver.C20
open Selene Selene.Cli Selene.Props.C20

def readSeverity : Sexp → Option Severity
  | .atom "error" => some .error
  | .atom "warning" => some .warning
  | _ => none

def readDiag : Sexp → Option Diag
  | .list [f, c, s, a, b, m] => do
    some { file := ← f.asString?, code := ← c.asString?, severity := ← readSeverity s, start := ← a.asNat?,
           stop := ← b.asNat?, message := ← m.asString? }
  | _ => none

def readRow : Sexp → Option Row
  | .list [f, c, s, l, k, m] => do
    some { file := ← f.asString?, code := ← c.asString?, severity := ← readSeverity s, line := ← l.asNat?,
           column := ← k.asNat?, message := ← m.asString? }
  | _ => none

def rowKey (r : Row) : String := s!"{r.file}|{r.line}|{r.column}|{repr r.severity}|{r.code}|{r.message}"

def sortRows (rs : List Row) : List String := ((rs.map rowKey).toArray.qsort (· < ·)).toList

/-- request `(src (diag…) ((style rows|crashed)…) ((byte line col)…))`:
    diagnostics with byte ranges come from json2 (or, when that style crashed, are absent);
    implementation output: `ok` -/
def handleStyles : Handler := fun input _impl =>
  match input with
  | .list [ssrc, .list sdiags, .list sstyles, .list slocs] =>
    match ssrc.asString?, sdiags.mapM readDiag with
    | some srcS, some diags =>
      let src := srcS.toList
      Id.run do
        let mut agree := true
        let mut spec : Option String := none
        let mut notes : List String := []
        let mut tags : List String := []
        -- locations printed by the json styles vs the model and the specification
        for l in slocs do
          match l with
          | .list [b, ln, col] =>
            match b.asNat?, ln.asNat?, col.asNat? with
            | some b, some ln, some col =>
              match ofByte src b with
              | .ok loc =>
                if loc.line != ln || loc.column != col then
                  agree := false; notes := notes ++ [s!"offset {b}: model {loc.line}:{loc.column}, json {ln}:{col}"]
                let sp := Spec.lineCol src b
                if (sp.line != ln || sp.column != col) && spec.isNone then
                  spec := some s!"json says offset {b} is at {ln}:{col}, the source text puts it at {sp.line}:{sp.column}"
                if ln > 0 then tags := tags ++ ["later-line"]
                if (prefixChars src b).any (fun c => c.val ≥ 0x80) then tags := tags ++ ["after-non-ascii"]
              | .error _ =>
                agree := false; notes := notes ++ [s!"offset {b}: model fails, json printed {ln}:{col}"]
            | _, _, _ => agree := false
          | _ => agree := false
        -- rows per style
        let expected := fun (s : Style) => diags.map (render src s)
        let mut reference : Option (String × List String) := none
        for st in sstyles do
          match st with
          | .list [.atom name, .atom "crashed"] =>
            tags := tags ++ ["crash-" ++ name]
            if spec.isNone then spec := some s!"display style {name} crashed"
            let style := match name with | "json" => Style.json | "json2" => .json2 | "luacheck" => .luacheck | "quiet" => .quiet | _ => .rich
            -- the model predicts a crash iff some diagnostic's range is not well-formed
            if diags.isEmpty then pure () else
              if (expected style).all (fun r => match r with | .ok _ => true | .error _ => false) then
                agree := false; notes := notes ++ [s!"{name} crashed, model renders every diagnostic"]
          | .list [.atom name, .list srows] =>
            match srows.mapM readRow with
            | some rows =>
              let keys := sortRows rows
              match reference with
              | none => reference := some (name, keys)
              | some (rn, rk) =>
                if rk != keys && spec.isNone then
                  spec := some s!"styles {rn} and {name} describe different diagnostics: {rk} vs {keys}"
              let style := match name with | "json" => Style.json | "json2" => .json2 | "luacheck" => .luacheck | "quiet" => .quiet | _ => .rich
              if !diags.isEmpty then
                let exp := (expected style).filterMap fun r => match r with | .ok row => some row | .error _ => none
                if sortRows exp != keys then
                  agree := false; notes := notes ++ [s!"{name}: model rows {sortRows exp}, printed {keys}"]
              if rows.length ≥ 2 then tags := tags ++ ["multi"]
            | none => agree := false; notes := notes ++ [s!"unreadable rows for {name}"]
          | _ => agree := false
        if diags.any (fun d => d.start == d.stop) then tags := tags ++ ["zero-width"]
        if diags.any (fun d => match ofByte src d.start, ofByte src d.stop with | .ok a, .ok b => a.line != b.line | _, _ => false) then
          tags := tags ++ ["multi-line-range"]
        if src.any (· == '\r') then tags := tags ++ ["crlf"]
        if diags.isEmpty then tags := tags ++ ["no-diagnostics"]
        return { agree, spec, model := " | ".intercalate notes, tags := tags.eraseDups }
    | _, _ => .malformed "styles parts"
  | _ => .malformed "styles"

def handlers : List (String × Handler) := [("C20.styles", handleStyles)]
end Driver.C20
