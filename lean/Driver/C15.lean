import Driver.Proto
import Selene.Std.Codec
import Selene.Std.Extend
import Selene.Props.C15
namespace Driver.C15
open Selene Selene.Std Selene.Props.C15

def allKeys (ls : List Lib) : List String :=
  (ls.foldl (fun acc l => acc ++ l.globals.map (·.1)) []).eraseDups

/-- does library `impl` answer every key as the chain specification says? -/
def checkChain (libs : List Lib) (impl : Lib) : Option String :=
  let keys := allKeys (impl :: libs)
  match keys.find? (fun k => impl.globals.get k != Spec.chainLookup libs k) with
  | some k => some s!"key {k}: implementation has {showOptField (impl.globals.get k)}, specification {showOptField (Spec.chainLookup libs k)}"
  | none =>
    if impl.luaVersions != Spec.versions libs then
      some s!"lua_versions: implementation {impl.luaVersions.map showVersion}, specification {(Spec.versions libs).map showVersion}"
    else none

def tagsOf (libs : List Lib) : List String :=
  let ks := allKeys libs
  let t1 := if ks.any (fun k => (libs.filter (fun l => (l.globals.get k).isSome)).length ≥ 2) then ["shared-key"] else []
  let t2 := if libs.any (fun l => l.globals.any (·.2.isRemoved)) then ["removed"] else []
  let t3 := if (libs.filter (fun l => !l.luaVersions.isEmpty)).length ≥ 2 then ["versions-both"] else []
  t1 ++ t2 ++ t3

def handleExtend : Handler := fun input impl =>
  match input, readLib impl with
  | .list [sd, sb], some implLib =>
    match readLib sd, readLib sb with
    | some d, some b =>
      let m := extend d b
      { agree := toString (showLib m) == toString (showLib implLib),
        spec := checkChain [d, b] implLib,
        model := toString (showLib m), tags := tagsOf [d, b] }
    | _, _ => .malformed "libs"
  | _, _ => .malformed "shape"

def readLibs (s : Sexp) : Option (List Lib) :=
  match s with
  | .list xs => xs.mapM readLib
  | _ => none

def handleChain : Handler := fun input impl =>
  match readLibs input, readLib impl with
  | some (d :: rest), some implLib =>
    let m := nest d rest
    { agree := toString (showLib m) == toString (showLib implLib),
      -- a chain of one library is the library itself (nothing is merged, nothing removed)
      spec := if rest.isEmpty then none else checkChain (d :: rest) implLib,
      model := toString (showLib m), tags := s!"len{rest.length + 1}" :: tagsOf (d :: rest) }
  | _, _ => .malformed "chain"

def handlePlus : Handler := fun input impl =>
  match readLibs input, readLib impl with
  | some (d :: rest), some implLib =>
    match plusChain (d :: rest) with
    | some m =>
      { agree := toString (showLib m) == toString (showLib implLib),
        spec := match rest with
          | [b] => checkChain [d, b] implLib
          | _ => none,
        model := toString (showLib m), tags := s!"plus{rest.length + 1}" :: tagsOf (d :: rest) }
    | none => .malformed "empty"
  | _, _ => .malformed "plus"

def handlers : List (String × Handler) :=
  [("C15.extend", handleExtend), ("C15.chain", handleChain), ("C15.plus", handlePlus)]

end Driver.C15
