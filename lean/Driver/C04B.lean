import Driver.Proto
import Selene.Lua.Read
import Selene.Lints.UnbalancedAssignments
import Selene.Lints.EmptyIf
import Selene.Lints.EmptyLoop
import Selene.Lints.IfSameThenElse
import Selene.Lints.IfsSameCond
import Selene.Lints.AlmostSwapped
import Selene.Lints.MismatchedArgCount
import Selene.Lints.MultipleStatements
import Selene.Scope.Spec
/-!
C04, half B (statement-level lints).  One command, `C04B.prog`:
request `(chunk origin source token-texts expectation)`, implementation `(diagnostic…)` or `panic`,
diagnostic = `(code (first last) message (secondary-span…))`.

* correspondence: the eight models' diagnostics = the implementation's (code, range, message, secondary labels);
* specification: every implementation diagnostic is judged by the documented condition of its lint
  (`false-positive`), and every documented canonical pattern that occurs in the program must have been reported
  (`missed-canonical`).  The specification side enumerates statements with the same flattening as the models
  (proved to reach every position, `Selene.LintsB.within_nodes_infix`) but shares none of the lints' logic.
-/
namespace Driver.C04B
open Selene Selene.Lua Selene.LintsB

structure ImplDiag where
  code : String
  primary : Span
  atStart : Bool
  msg : String
  secs : List Span
deriving Repr

def readSpan : Sexp → Option (Span × Bool)
  | .list [a, b] => do some (⟨← a.asNat?, ← b.asNat?⟩, false)
  | _ => none

def readDiag : Sexp → Option ImplDiag
  | .list [c, p, m, .list secs] => do
    let (sp, s) ← readSpan p
    some { code := ← c.asString?, primary := sp, atStart := s, msg := ← m.asString?, secs := secs.filterMap fun x => (readSpan x).map (·.1) }
  | _ => none

def spanSx (s : Span) (atStart : Bool := false) : Sexp :=
  .list ([.atom (toString s.first), .atom (toString s.last)] ++ (if atStart then [.atom "s"] else []))

def diagKey (d : Diag) : String :=
  toString (Sexp.list [.str d.code, spanSx d.primary, .str d.msg, .list (d.secondary.map (spanSx ·))])

def sortStrs (l : List String) : List String := (l.toArray.qsort (· < ·)).toList

def showSp (s : Span) : String := s!"({s.first} {s.last})"

def pairs {α : Type} : List α → List (α × α)
  | a :: b :: rest => (a, b) :: pairs (b :: rest)
  | _ => []

/-- (earlier, later) pairs of a list -/
def orderedPairs {α : Type} : List α → List (α × α)
  | [] => []
  | a :: rest => rest.map (fun b => (a, b)) ++ orderedPairs rest

def stripParens : Expr → Expr
  | .paren _ e => stripParens e
  | e => e

def codes : List String :=
  ["unbalanced_assignments", "empty_if", "empty_loop", "if_same_then_else", "ifs_same_cond", "almost_swapped",
   "mismatched_arg_count", "multiple_statements"]

def noStatements : Block → Bool
  | .mk _ .nil .none => true
  | _ => false

def hasStatements : Block → Bool
  | .mk _ (.cons _ _) _ => true
  | _ => false

/-- what a parenthesised value is inside its parentheses -/
def innermostOfParens : Expr → Expr
  | .paren _ e => innermostOfParens e
  | e => e

/-- a value that is certainly exactly one non-nil value: a plain single-valued expression, or a parenthesised
    expression other than `nil` (parentheses truncate `...` to one value; a parenthesised *call* is left out,
    the lint is deliberately lenient there) -/
def plainSingle : Expr → Bool
  | .num _ | .str _ _ _ | .true_ _ | .false_ _ | .tbl _ _ | .func _ _ _ | .bin _ _ _ _ | .un _ _ _ => true
  | .var _ => true
  | .paren _ e => match innermostOfParens e with
    | .call _ | .nil _ => false
    | _ => true
  | _ => false

structure ValueDef where
  tok : Nat                       -- token of the name being given a value
  value : Option Expr             -- `none`: no expression at that position
  known : Bool := true            -- `false`: the value comes from outside (parameter, loop variable …)

def paramCount : FuncBody → Option Nat
  | .mk _ ps _ => if ps.any (fun p => match p with | .dots _ => true | _ => false) then none else some ps.length

def zipOpt : List Tok → List Expr → List (Tok × Option Expr)
  | [], _ => []
  | t :: ts, [] => (t, none) :: zipOpt ts []
  | t :: ts, e :: es => (t, some e) :: zipOpt ts es

def zipVarsOpt : List Var → List Expr → List (Var × Option Expr)
  | [], _ => []
  | t :: ts, [] => (t, none) :: zipVarsOpt ts []
  | t :: ts, e :: es => (t, some e) :: zipVarsOpt ts es

def handleProg : Handler := fun input impl =>
  match input with
  | .list [schunk, sorigin, _src, .list stoks, sexpect, .list sseps] =>
    match readChunk schunk with
    | none => .malformed "C04B chunk"
    | some chunk =>
      let toks := stoks.filterMap Sexp.asString?
      let seps := sseps.filterMap Sexp.asNat?
      let origin := sorigin.asString?.getD ""
      let expect := sexpect.asString?.getD "any"
      let blk := chunk.block
      let ns := nBlock blk
      let model : List Diag :=
        UnbalancedAssignments.run blk ++ EmptyIf.run blk ++ EmptyLoop.run blk ++ IfSameThenElse.run toks seps blk ++
        IfsSameCond.run toks seps blk ++ AlmostSwapped.run toks blk ++ MismatchedArgCount.run blk ++ MultipleStatements.run chunk.layout blk
      match impl with
      | .atom "panic" => { agree := false, spec := some "[C04] a lint pass panicked", model := "IMPL-PANIC", tags := ["panic"] }
      | .list idiags =>
        let mkeys := sortStrs (model.map diagKey)
        let ikeys := sortStrs (idiags.map toString)
        let agree := mkeys == ikeys
        let ids := idiags.filterMap readDiag
        let of := fun (c : String) => ids.filter (·.code == c)
        -- ------------------------------------------------------------------ enumerations of the tree
        let stmts : List Stmt := ns.filterMap fun n => match n with | .stmt s => some s | _ => none
        let blocks : List Block := ns.filterMap fun n => match n with | .block b => some b | _ => none
        let calls : List FCall := ns.filterMap fun n => match n with | .call c => some c | _ => none
        let endLine := fun (i : Nat) => (chunk.layout[i]?.map (·.stopLine)).getD 0
        -- ------------------------------------------------------------------ unbalanced_assignments
        let assigns : List (Nat × List Expr) := stmts.filterMap fun s => match s with
          | .assign _ vs es => some (vs.toList.length, es.toList)
          | .localAssign _ names es => some (names.length, es.toList)
          | _ => none
        let ubFP := (of "unbalanced_assignments").filterMap fun d =>
          let justified := assigns.any fun (lhs, rhs) =>
            match rhs.getLast?, rhs.head? with
            | some last, some first =>
              d.primary.last == last.span.last &&
              ((rhs.length > lhs && (rhs[lhs]?.map (·.span.first)) == some d.primary.first) ||
               (rhs.length < lhs && d.primary.first == first.span.first &&
                 !UnbalancedAssignments.Doc.multiValued last && !UnbalancedAssignments.Doc.denotesNil last))
            | _, _ => false
          if justified then none
          else
            let why := if assigns.any (fun (lhs, rhs) => match rhs.getLast? with
                | some last => d.primary.last == last.span.last && rhs.length < lhs && UnbalancedAssignments.Doc.denotesNil last
                | none => false)
              then "the last value is a parenthesised `nil`, and the documentation says a trailing nil is not reported"
              else "no assignment there has differing counts with a single-valued non-nil last value"
            some s!"[C04] unbalanced_assignments false-positive: diagnostic at tokens {showSp d.primary}: {why}"
        let ubMiss := assigns.filterMap fun (lhs, rhs) =>
          match rhs.getLast?, rhs.head? with
          | some last, some first =>
            let expectFirst : Option Nat :=
              if rhs.length > lhs then rhs[lhs]?.map (·.span.first)
              else if rhs.length < lhs && plainSingle last then some first.span.first
              else none
            match expectFirst with
            | some f =>
              if (of "unbalanced_assignments").any (fun d => d.primary.first == f && d.primary.last == last.span.last) then none
              else some s!"[C04] unbalanced_assignments missed-canonical: {lhs} targets, {rhs.length} values ending at token {last.span.last}, not reported"
            | none => none
          | _, _ => none
        -- ------------------------------------------------------------------ empty_if
        let ifs : List (Span × Expr × Block × List ElseIf × OptBlock) := stmts.filterMap fun s => match s with
          | .if_ sp c b elifs els => some (sp, c, b, elifs.toList, els)
          | _ => none
        let eiFP := (of "empty_if").filterMap fun d =>
          let ok := ifs.any fun (sp, _, b, elifs, els) =>
            (d.msg == EmptyIf.msgIf && d.primary == sp && noStatements b) ||
            (d.msg == EmptyIf.msgElseIf && sp.first < d.primary.first && d.primary.last ≤ sp.last &&
              elifs.any (fun e => (elifSpan e).first == d.primary.first && noStatements (elifBlock e))) ||
            (d.msg == EmptyIf.msgElse && d.primary.last == sp.last && sp.first < d.primary.first &&
              (match els with | .some eb => noStatements eb | .none => false))
          if ok then none else some s!"[C04] empty_if false-positive: `{d.msg}` at tokens {showSp d.primary}, but no such branch without statements"
        let eiMiss := ifs.flatMap fun (sp, _, b, elifs, els) =>
          (if noStatements b && !(of "empty_if").any (fun d => d.msg == EmptyIf.msgIf && d.primary == sp) then
            [s!"[C04] empty_if missed-canonical: the `if` at tokens {showSp sp} has an empty then-branch that is not reported"] else []) ++
          (elifs.filterMap fun e =>
            if noStatements (elifBlock e) && !(of "empty_if").any (fun d => d.msg == EmptyIf.msgElseIf && d.primary.first == (elifSpan e).first) then
              some s!"[C04] empty_if missed-canonical: empty `elseif` branch at token {(elifSpan e).first} not reported" else none) ++
          (match els with
           | .some eb => if noStatements eb && !(of "empty_if").any (fun d => d.msg == EmptyIf.msgElse && d.primary.last == sp.last) then
              [s!"[C04] empty_if missed-canonical: empty `else` branch of the `if` at tokens {showSp sp} not reported"] else []
           | .none => [])
        -- ------------------------------------------------------------------ empty_loop
        let loops : List (Span × Block) := stmts.filterMap fun s => (EmptyLoop.loopBody s).map fun b => (stmtSpan s, b)
        let elFP := (of "empty_loop").filterMap fun d =>
          if loops.any (fun (sp, b) => sp == d.primary && noStatements b) then none
          else some s!"[C04] empty_loop false-positive: diagnostic at tokens {showSp d.primary} is not a loop without statements"
        let elMiss := loops.filterMap fun (sp, b) =>
          if noStatements b && !(of "empty_loop").any (fun d => d.primary == sp) then
            some s!"[C04] empty_loop missed-canonical: empty loop at tokens {showSp sp} not reported" else none
        -- ------------------------------------------------------------------ if_same_then_else
        let sameB := fun (a b : Block) => blockToks toks seps a == blockToks toks seps b
        let isFP := (of "if_same_then_else").filterMap fun d =>
          let ok := ifs.any fun (_, _, b, elifs, els) =>
            let bl := b :: (elifs.map elifBlock ++ (match els with | .some eb => [eb] | .none => []))
            (orderedPairs bl).any fun (x, y) =>
              blockSpan y == some d.primary && d.secs == (blockSpan x).toList && hasStatements y && sameB x y
          if ok then none else some s!"[C04] if_same_then_else false-positive: the block at tokens {showSp d.primary} does not repeat an earlier branch of its `if` token for token"
        let isMiss := ifs.filterMap fun (sp, _, b, elifs, els) =>
          match elifs, els with
          | [], .some eb =>
            if hasStatements eb && sameB b eb && !(of "if_same_then_else").any (fun d => some d.primary == blockSpan eb) then
              some s!"[C04] if_same_then_else missed-canonical: then- and else-branch of the `if` at tokens {showSp sp} are identical but not reported" else none
          | _, _ => none
        -- ------------------------------------------------------------------ ifs_same_cond
        let sameE := fun (a b : Expr) => simToks toks seps a.span == simToks toks seps b.span
        let icFP := (of "ifs_same_cond").filterMap fun d =>
          let cands : List (Expr × Expr) := ifs.flatMap fun (_, c, _, elifs, _) =>
            (orderedPairs (c :: elifs.map elifCond)).filter fun (x, y) => y.span == d.primary && d.secs == [x.span] && sameE x y
          match cands.head? with
          | none => some s!"[C04] ifs_same_cond false-positive: the condition at tokens {showSp d.primary} does not repeat an earlier condition of its `if`"
          | some (x, y) =>
            if IfsSameCond.Doc.callsE y || IfsSameCond.Doc.callsE x then
              some s!"[C04] ifs_same_cond false-positive: the repeated condition at tokens {showSp d.primary} performs a function call (inside a bracket index), the documentation excludes conditions that could have side effects"
            else none
        -- every later condition of a chain that repeats an earlier side-effect-free one ("branches in if
        -- blocks with equivalent conditions"), not only `if c … elseif c`
        let icMiss := ifs.flatMap fun (sp, c, _, elifs, _) =>
          let conds := c :: elifs.map elifCond
          (conds.drop 1).filterMap fun y =>
            let earlier := (orderedPairs conds).filter fun (x, y') => y'.span == y.span && sameE x y && !IfsSameCond.Doc.callsE x
            if !earlier.isEmpty && !(of "ifs_same_cond").any (fun d => d.primary == y.span) then
              some s!"[C04] ifs_same_cond missed-canonical: the condition at tokens {showSp y.span} of the `if` at tokens {showSp sp} repeats an earlier call-free condition of the chain but is not reported" else none
        -- ------------------------------------------------------------------ almost_swapped
        let single : Stmt → Option (Var × Expr) := fun s => match s with
          | .assign _ (.cons v .nil) (.cons e .nil) => some (v, e)
          | _ => none
        let adj : List (Option Stmt × Stmt × Stmt) := blocks.flatMap fun b =>
          let l := (blockStmts b).toList
          (pairs l).zipIdx.map fun ((s1, s2), i) => ((if i = 0 then none else l[i - 1]?), s1, s2)
        let asFP := (of "almost_swapped").filterMap fun d =>
          let here := adj.filterMap fun (_, s1, s2) => match single s1, single s2 with
            | some (v1, e1), some (v2, e2) =>
              if (stmtSpan s1).first == d.primary.first && e2.span.last == d.primary.last then some (v1, e1, v2, e2) else none
            | _, _ => none
          match here.head? with
          | none => some s!"[C04] almost_swapped false-positive: no two adjacent single assignments at tokens {showSp d.primary}"
          | some (v1, e1, v2, e2) =>
            if nodeToks toks e2.span == nodeToks toks v1.span && nodeToks toks v2.span == nodeToks toks e1.span then none
            else some s!"[C04] almost_swapped false-positive: the assignments at tokens {showSp d.primary} are not `a = b; b = a` — their texts only coincide after gluing the tokens together without separators (`{d.msg}`)"
        let nameOf : Var → Option String := fun v => match v with | .name t => some t.text | _ => none
        let nameOfE : Expr → Option String := fun e => match e with | .var (.name t) => some t.text | _ => none
        let asMiss := adj.filterMap fun (before, s1, s2) => match single s1, single s2 with
          | some (v1, e1), some (v2, e2) =>
            match nameOf v1, nameOfE e1, nameOf v2, nameOfE e2 with
            | some a, some b, some b', some a' =>
              -- reported as this pair, or its first statement already closes a reported swap (`b = a` `a = b` `b = a`)
              if a == a' && b == b' && !(of "almost_swapped").any (fun d =>
                  (d.primary.first == (stmtSpan s1).first && d.primary.last == e2.span.last) || d.primary.last == e1.span.last) then
                some (s!"[C04] almost_swapped missed-canonical: `{a} = {b}` `{b} = {a}` at tokens ({(stmtSpan s1).first} {e2.span.last}) not reported" ++
                  (match before.bind single with | some _ => " (the statement before the pair is another single assignment)" | none => ""))
              else none
            | _, _, _, _ => none
          | _, _ => none
        -- ------------------------------------------------------------------ mismatched_arg_count
        let spec := Selene.Scope.Spec.resolve blk
        let keyOf := fun (tok : Nat) => (spec.occs.find? (·.tok == tok)).map fun o => (o.binding.map (·.1), o.name)
        let declKind := fun (tok : Nat) => (spec.decls.find? (·.tok == tok)).map (·.kind)
        -- every place that gives a value to the binding `key`
        let valueDefs := fun (key : Option Nat × String) =>
          let fromDecl : List ValueDef := match key.1 with
            | none => []
            | some dt =>
              (stmts.flatMap fun s => match s with
                | .localFunc sp name body => if name.idx == dt then [{ tok := dt, value := some (Expr.func sp name body) }] else []
                | .localAssign _ names es => (zipOpt names es.toList).filterMap fun (t, e) => if t.idx == dt then some { tok := dt, value := e } else none
                | _ => []) ++
              (match declKind dt with
               | some .local_ | some .localFunc => []
               | _ => [{ tok := dt, value := none, known := false }])
          let fromAssign : List ValueDef := stmts.flatMap fun s => match s with
            | .assign _ vs es => (zipVarsOpt vs.toList es.toList).filterMap fun (v, e) => match v with
              | .name t => if keyOf t.idx == some key then some { tok := t.idx, value := e, known := e.isSome } else none
              | _ => none
            | .func sp fname body => match fname.names, fname.method with
              | [t], none => if keyOf t.idx == some key then [{ tok := t.idx, value := some (Expr.func sp t body) }] else []
              | _, _ => []
            | _ => []
          fromDecl ++ fromAssign
        let argCount : Args → Nat := fun a => match a with | .parens _ es => es.toList.length | _ => 1
        let calleeOf : FCall → Option (Tok × Args) := fun c => match c with
          | .mk _ (.name t) (.cons (.args _ a) _) => some (t, a)
          | _ => none
        let maFP := (of "mismatched_arg_count").filterMap fun d =>
          match (calls.find? fun c => c.span == d.primary).bind calleeOf with
          | none => some s!"[C04] mismatched_arg_count false-positive: no call `name(...)` at tokens {showSp d.primary}"
          | some (t, a) =>
            match keyOf t.idx with
            | none => some s!"[C04] mismatched_arg_count false-positive: `{t.text}` at token {t.idx} is no identifier occurrence"
            | some key =>
              let defs := valueDefs key
              let n := argCount a
              let bad := defs.find? fun vd => match vd.value with
                | some (.func _ _ body) => vd.known && (match paramCount body with | some r => n ≤ r | none => true)
                | some _ => true
                | none => !vd.known
              match bad with
              | some vd =>
                let why := match vd.value with
                  | some (.func _ _ _) => s!"a definition of `{t.text}` (token {vd.tok}) accepts {n} arguments"
                  | _ => s!"`{t.text}` is also given a value that is not a function literal (token {vd.tok}), so the definition in force at the call is unknown"
                some s!"[C04] mismatched_arg_count false-positive: call at tokens {showSp d.primary}: {why}"
              | none => if defs.isEmpty then some s!"[C04] mismatched_arg_count false-positive: call at tokens {showSp d.primary}: `{t.text}` has no function definition" else none
        let maMiss := calls.filterMap fun c => match calleeOf c with
          | some (t, .parens _ es) =>
            match keyOf t.idx with
            | some (some dt, name) =>
              if declKind dt == some .localFunc then
                match valueDefs (some dt, name) with
                | [vd] => match vd.value with
                  | some (.func _ _ body) => match paramCount body with
                    | some r =>
                      if es.toList.length > r && !(of "mismatched_arg_count").any (fun d => d.primary == c.span) then
                        some s!"[C04] mismatched_arg_count missed-canonical: `{t.text}` is a local function of {r} parameters, never reassigned, called with {es.toList.length} arguments at tokens {showSp c.span}, not reported"
                      else none
                    | none => none
                  | _ => none
                | _ => none
              else none
            | _ => none
          | _ => none
        -- ------------------------------------------------------------------ multiple_statements
        let stmtish : List Span := ns.filterMap fun n => match n with
          | .stmt s => some (stmtSpan s)
          | .last l => some (lastSpan l)
          | _ => none
        let msFP := (of "multiple_statements").filterMap fun d =>
          if !stmtish.contains d.primary then some s!"[C04] multiple_statements false-positive: tokens {showSp d.primary} are not a statement"
          else if ((stmtish.filter fun sp => endLine sp.last == endLine d.primary.last).length) ≥ 2 then none
          else some s!"[C04] multiple_statements false-positive: the statement at tokens {showSp d.primary} is the only one ending on line {endLine d.primary.last}"
        let seqs : List (List Span) := blocks.map fun b =>
          (blockStmts b).toList.map stmtSpan ++ (match blockLast b with | .none => [] | l => [lastSpan l])
        let msMiss := seqs.flatMap fun l => (pairs l).filterMap fun (s1, s2) =>
          if endLine s1.last == endLine s2.last && !(of "multiple_statements").any (fun d => d.primary == s2) then
            some (s!"[C04] multiple_statements missed-canonical: the statements at tokens {showSp s1} and {showSp s2} of one block both end on line {endLine s2.last}, the second is not reported" ++
              (if ifs.any (fun (_, c, _, _, _) => c.span.first ≤ s1.first && s2.last ≤ c.span.last && endLine (c.span.last + 1) == endLine s2.last)
               then " (inside a function in the condition of an `if` whose `then` is on that line)" else ""))
          else none
        let items := ubFP ++ ubMiss ++ eiFP ++ eiMiss ++ elFP ++ elMiss ++ isFP ++ isMiss ++ icFP ++ icMiss ++ asFP ++ asMiss ++ maFP ++ maMiss ++ msFP ++ msMiss
        -- ------------------------------------------------------------------ coverage tags
        let fired := codes.filter fun c => ids.any (·.code == c)
        let kind := (origin.splitOn ":").headD "?"
        let expectParts := expect.splitOn ":"
        let expTags : List String := match expectParts with
          | [lint, family, verdict] =>
            let reported := ids.any (·.code == lint)
            [s!"tmpl:{lint}:{verdict}"] ++
            (if verdict == "pos" && !reported then [s!"unexpected:{lint}:{family}:not-reported"] else []) ++
            (if verdict == "neg" && reported then [s!"unexpected:{lint}:{family}:reported"] else [])
          | _ => []
        let tags := fired.map (fun c => s!"fired:{c}") ++ [s!"origin:{kind}"] ++ expTags ++
          (if ids.any (fun d => d.code == "empty_if" && d.msg == EmptyIf.msgElseIf) then ["empty-elseif"] else []) ++
          (if ids.any (fun d => d.code == "unbalanced_assignments" && !d.secs.isEmpty) then ["unbalanced-call-help"] else []) ++
          (if ids.any (fun d => d.code == "mismatched_arg_count" && d.secs.length > 1) then ["mismatched-multi-def"] else [])
        let perLint := codes.filterMap fun c =>
          let m := sortStrs ((model.filter (·.code == c)).map diagKey)
          let i := sortStrs ((idiags.filter fun x => (readDiag x).map (·.code) == some c).map toString)
          if m == i then none else some s!"{c}: model {m} impl {i}"
        { agree,
          spec := if items.isEmpty then none else some (" ;; ".intercalate items),
          model := if agree then "" else "DIAGS " ++ " | ".intercalate perLint,
          tags }
      | _ => .malformed "C04B impl"
  | _ => .malformed "C04B input"

/-- `comments_count = true`: request `(program)`, implementation `(got expected)` — the `empty_if` / `empty_loop` diagnostics of
a template (message @ line) and what the documentation prescribes for it: a block that holds exclusively comments is not empty,
a block that holds nothing is (harness-side expectation per template) -/
def handleComments : Handler := fun input impl =>
  match input, impl with
  | .list [prog], .list [.list got, .list want] =>
    let g := got.filterMap Sexp.asString?
    let w := want.filterMap Sexp.asString?
    { agree := true,
      spec := if g == w then none
        else some s!"[C04] empty_if / empty_loop with comments_count = true: reported {g}, the documented condition (a block holding only comments is not empty; a block holding nothing is) gives {w} for <LF>{prog.asString?.getD ""}",
      tags := ["comments-count"] ++ (if w.isEmpty then ["cc-silent"] else ["cc-reports"]) }
  | _, _ => .malformed "comments"

def handlers : List (String × Handler) := [("C04B.prog", handleProg), ("C04.comments", handleComments)]
end Driver.C04B
