import Driver.Proto
import Driver.C06
import Selene.Props.C12
namespace Driver.C12
open Selene Selene.Std Selene.Props.C12

/-- request `(origin nDiagnostics src)`, implementation: list of observed differences (empty = deterministic) -/
def handleSame : Handler := fun input impl =>
  match input, impl with
  | .list [_, n, _], .list diffs =>
    let ds := diffs.filterMap Sexp.asString?
    { agree := true,
      spec := match ds with | [] => none | d :: _ => some s!"[C12] {d}",
      tags := if (n.asNat?.getD 0) ≥ 2 then ["several-diagnostics"] else if (n.asNat?.getD 0) = 1 then ["one-diagnostic"] else ["no-diagnostics"] }
  | _, _ => .malformed "same"

/-- request `(lib (query…))`, implementation: the answers of one library instance in that order -/
def handleHistory : Handler := fun input impl =>
  match input, impl with
  | .list [slib, .list sq], .list answers =>
    match readLib slib, sq.mapM Driver.C06.readPath with
    | some lib, some queries =>
      let l := Driver.C06.toSegLib lib
      let m := (runHistory l none queries).2.map Driver.C06.showLookup
      let fresh := queries.map fun q => Driver.C06.showLookup (findGlobal l q)
      let implS := answers.map toString
      { agree := m == implS,
        spec := if implS == fresh then none else some s!"[C12] lookups through one library instance {implS} differ from fresh lookups {fresh}",
        model := toString m, tags := ["history", s!"queries{queries.length}"] ++ (if queries.eraseDups.length < queries.length then ["repeated-query"] else []) }
    | _, _ => .malformed "history parts"
  | _, _ => .malformed "history"

def handlers : List (String × Handler) := [("C12.same", handleSame), ("C12.history", handleHistory)]
end Driver.C12
