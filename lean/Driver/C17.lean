import Driver.Proto
import Selene.Std.Codec
import Selene.Std.Serde
import Selene.Props.C17
/-! C17 driver glue (trusted, exercised by the correspondence run): readers / printers for
`Val`, the full library and v1 libraries; the four commands of harness group `c17`. -/
namespace Driver.C17
open Selene Selene.Std Selene.Std.Serde

/-! ### exchange format -/

partial def readVal : Sexp → Option Val
  | .atom "null" => some .null
  | .atom "true" => some (.bool true)
  | .atom "false" => some (.bool false)
  | .str s => some (.str s)
  | .list [.atom "i", n] => do some (.int (← n.asInt?))
  | .list (.atom "seq" :: xs) => do some (.seq (← xs.mapM readVal))
  | .list (.atom "map" :: kvs) => do
    let es ← kvs.mapM fun
      | .list [.str k, v] => do some (k, ← readVal v)
      | _ => none
    some (.map es)
  | _ => none

partial def showVal : Val → Sexp
  | .null => .atom "null"
  | .bool b => .atom (if b then "true" else "false")
  | .int n => .list [.atom "i", .atom (toString n)]
  | .str s => .str s
  | .seq xs => .list (.atom "seq" :: xs.map showVal)
  | .map kvs => .list (.atom "map" :: kvs.map fun (k, v) => .list [.str k, showVal v])

/-- like `Codec.readVersion`, but a *quoted* name is `LuaVersion::Unknown` even when it spells a
    known version (the excluded point of C17) -/
def readVersionX : Sexp → Option LuaVersion
  | .str s => some (.unknown s)
  | a => readVersion a

def readCoreLib : Sexp → Option Lib
  | .list [.atom "lib", .list [.atom "base", b], .list (.atom "versions" :: vs),
           .list (.atom "globals" :: gs), .list (.atom "structs" :: ss)] => do
    let structs ← ss.mapM fun
      | .list (n :: fs) => do some (← n.asString?, ← readFieldMap fs)
      | _ => none
    some { base := ← readOptStr b, luaVersions := ← vs.mapM readVersionX,
           globals := ← readFieldMap gs, structs }
  | _ => none

def readOptInt : Sexp → Option (Option Int)
  | .atom "none" => some none
  | a => do some (some (← a.asInt?))

def readStrs (xs : List Sexp) : Option (List String) := xs.mapM fun
  | .str s => some s
  | _ => none

def readClass : Sexp → Option (String × RobloxClass)
  | .list [.str n, .str sup, .list es, .list ps] => do
    some (n, { superclass := sup, events := ← readStrs es, properties := ← readStrs ps })
  | _ => none

def readFullLib : Sexp → Option FullLib
  | .list [.atom "flib", core, .list [.atom "name", n], .list [.atom "updated", u],
           .list [.atom "selene-version", sv], .list (.atom "classes" :: cs)] => do
    let c ← readCoreLib core
    some { core := { c with name := ← readOptStr n }, lastUpdated := ← readOptInt u,
           lastSeleneVersion := ← readOptStr sv, robloxClasses := ← cs.mapM readClass }
  | _ => none

def showOptStr : Option String → Sexp
  | none => .atom "none"
  | some s => .str s

/-- printer that keeps the list order (so a difference in `BTreeMap` order is visible) -/
def showFullLib (l : FullLib) : Sexp :=
  .list [.atom "flib",
    .list [.atom "lib",
      .list [.atom "base", showOptStr l.core.base],
      .list (.atom "versions" :: l.core.luaVersions.map showVersion),
      .list (.atom "globals" :: l.core.globals.map fun (k, f) => .list [.str k, showField f]),
      .list (.atom "structs" :: l.core.structs.map fun (n, fs) =>
        .list (.str n :: fs.map fun (k, f) => .list [.str k, showField f]))],
    .list [.atom "name", showOptStr l.core.name],
    .list [.atom "updated", match l.lastUpdated with | none => .atom "none" | some n => .atom (toString n)],
    .list [.atom "selene-version", showOptStr l.lastSeleneVersion],
    .list (.atom "classes" :: l.robloxClasses.map fun (n, c) =>
      .list [.str n, .str c.superclass, .list (c.events.map .str), .list (c.properties.map .str)])]

def readV1Arg : Sexp → Option V1Arg
  | .list [.atom "arg", r, t] => do some { required := ← readRequired r, type := ← readArgType t }
  | _ => none

def readV1Fn : Sexp → Option (Option V1Fn)
  | .atom "none" => some none
  | .list (.atom "fn" :: m :: args) => do
    some (some { method := ← m.asBool?, args := ← args.mapM readV1Arg })
  | _ => none

partial def readV1Field : Sexp → Option V1Field
  | .atom "any" => some .any
  | .atom "removed" => some .removed
  | .list [.atom "struct", .str s] => some (.struct s)
  | .list [.atom "property", .atom "none"] => some (.property none)
  | .list [.atom "property", .atom "new-fields"] => some (.property (some .newFields))
  | .list [.atom "property", .atom "overridden"] => some (.property (some .overridden))
  | .list [.atom "property", .atom "full"] => some (.property (some .full))
  | .list (.atom "complex" :: .list [.atom "fn", f] :: children) => do
    let fn ← readV1Fn f
    let table ← children.mapM fun
      | .list [.str k, c] => do some (k, ← readV1Field c)
      | _ => none
    some (.complex fn table)
  | _ => none

def readV1Table (xs : List Sexp) : Option (List (String × V1Field)) := xs.mapM fun
  | .list [.str k, c] => do some (k, ← readV1Field c)
  | _ => none

def readV1Meta : Sexp → Option (Option V1Meta)
  | .atom "none" => some none
  | .list [.atom "meta", .list [.atom "base", b], .list [.atom "name", n], .list [.atom "structs", s]] => do
    let structs ← match s with
      | .atom "none" => some none
      | .list (.atom "some" :: ss) => do
        let r ← ss.mapM fun
          | .list (.str n :: fs) => do some (n, ← readV1Table fs)
          | _ => none
        some (some r)
      | _ => none
    some (some { base := ← readOptStr b, name := ← readOptStr n, structs })
  | _ => none

def readV1Lib : Sexp → Option V1Lib
  | .list [.atom "v1lib", .list [.atom "selene", m], .list (.atom "globals" :: gs)] => do
    some { selene := ← readV1Meta m, globals := ← readV1Table gs }
  | _ => none

/-! ### verdicts computed by the harness on the real code -/

/-- `ok`, or `(differs "…")` / `(fails "…")` -/
def verdictBad (what : String) : Sexp → Option String
  | .atom "ok" => none
  | .atom "skipped" => none
  | s => some (what ++ ": " ++ toString s)

def firstBad (xs : List (Option String)) : Option String :=
  xs.foldl (fun acc x => match acc with | some a => some a | none => x) none

/-! ### coverage tags -/

def kindTag : FieldKind → String
  | .any => "any" | .function _ => "function" | .property _ => "property"
  | .struct _ => "struct" | .removed => "removed"

def allFields (l : FullLib) : List Field :=
  l.core.globals.map (·.2) ++ (l.core.structs.map fun s => s.2.map (·.2)).flatten

def allArgs (l : FullLib) : List Argument :=
  ((allFields l).map fun f => match f.kind with | .function fb => fb.args | _ => []).flatten

def libTags (l : FullLib) : List String :=
  let fs := allFields l
  let args := allArgs l
  let t (b : Bool) (s : String) := if b then [s] else []
  ((fs.map fun f => kindTag f.kind).eraseDups)
  ++ t (fs.any fun f => f.deprecated.isSome) "field-deprecated"
  ++ t (fs.any fun f => match f.deprecated with | some d => !d.replace.isEmpty | none => false) "replace"
  ++ t (args.any fun a => match a.type with | .constant _ => true | _ => false) "constant"
  ++ t (args.any fun a => match a.type with | .display _ => true | _ => false) "display"
  ++ t (args.any fun a => match a.required with | .required (some _) => true | _ => false) "required-msg"
  ++ t (args.any fun a => a.required == .notRequired) "optional"
  ++ t (args.any fun a => a.observes != .readWrite) "observes"
  ++ t (args.any fun a => a.deprecated.isSome) "arg-deprecated"
  ++ t (!l.core.structs.isEmpty) "structs"
  ++ t (l.core.luaVersions.any fun v => match v with | .unknown _ => true | _ => false) "unknown-version"
  ++ t (!l.robloxClasses.isEmpty) "classes"
  ++ t l.lastUpdated.isSome "last-updated"
  ++ t (l.core.globals.any fun kf => kf.1.contains '*') "wildcard-key"

/-! ### handlers -/

/-- `serde_yaml::to_value(&lib)` vs `ser`; the real value and text round trips judged -/
def handleSer : Handler := fun input impl =>
  match readFullLib input, impl with
  | some l, .list [.atom "out", v, valueRt, textRt] =>
    match readVal v with
    | some implVal =>
      let m := ser l
      { agree := toString (showVal m) == toString (showVal implVal),
        spec := firstBad [verdictBad "from_value(to_value(lib)) is not the library" valueRt,
                          verdictBad "from_str(to_string(lib)) is not the library" textRt,
                          if wfB l then none else some "harness sent a library outside WF to C17.ser"],
        model := toString (showVal m),
        tags := "ser" :: libTags l }
    | none => .malformed "value"
  | _, _ => .malformed "C17.ser shape"

/-- the excluded points, run on the real code: the model must predict *how* the reloaded
    library differs -/
def handleExcluded : Handler := fun input impl =>
  match readFullLib input, impl with
  | some l, .list [.atom "out", v, reloaded] =>
    match readVal v, readFullLib reloaded with
    | some implVal, some r =>
      let m := ser l
      { agree := toString (showVal m) == toString (showVal implVal) && de m == .ok r,
        spec := none,
        model := toString (showVal m),
        tags := ["excluded-point", if r == l then "excluded-same" else "excluded-differs",
                 if wfB l then "excluded-but-wf" else "not-wf"] }
    | _, _ => .malformed "value / reloaded"
  | _, _ => .malformed "C17.excluded shape"

partial def valShapes : Val → List String
  | .seq xs => (xs.map valShapes).flatten
  | .map kvs =>
    let ks := kvs.map (·.1)
    let own :=
      (if (ks.filter fun k => ["any", "args", "removed", "property", "struct"].contains k).length ≥ 2 then ["several-kinds"] else [])
      ++ (if kvs.any (fun kv => match kv with | ("removed", .bool false) => true | ("any", .bool false) => true | _ => false) then ["false-mark"] else [])
      ++ (if kvs.any (fun kv => match kv with
            | ("args", .seq xs) => xs.any (fun x => match x with | .seq _ => true | _ => false)
            | _ => false) then ["arg-as-seq"] else [])
      ++ (if kvs.any (fun kv => match kv with | ("deprecated", .seq _) => true | _ => false) then ["deprecated-as-seq"] else [])
      ++ (if kvs.any (fun kv => match kv with
            | ("observes", .map _) => true | ("property", .map _) => true | _ => false) then ["enum-as-map"] else [])
      ++ (if kvs.any (fun kv => match kv with
            | ("globals", .null) => true | ("structs", .null) => true | ("lua_versions", .null) => true
            | ("replace", .null) => true | ("args", .null) => true | ("events", .null) => true
            | _ => false) then ["null-collection"] else [])
    own ++ (kvs.map fun kv => valShapes kv.2).flatten
  | _ => []

/-- `serde_yaml::from_value::<StandardLibrary>` vs `de` on well-formed and malformed documents -/
def handleDe : Handler := fun input impl =>
  match readVal input with
  | none => .malformed "value"
  | some v =>
    let m := de v
    let shapes := (valShapes v).eraseDups
    match impl with
    | .list [.atom "err", _, textLoader] =>
      { agree := !m.isOk,
        spec := verdictBad "the text loader accepted this document but what it loaded does not survive to_string / from_str" textLoader,
        model := match m with | .ok l => toString (showFullLib l) | .error e => "(err " ++ Sexp.quote e ++ ")",
        tags := "de-err" :: shapes }
    | .list [.atom "ok", sl, reload, textLoader] =>
      match readFullLib sl with
      | some il =>
        { agree := m == .ok il,
          spec := firstBad [verdictBad "a loaded library re-serialises to something that does not load back to it" reload,
                            verdictBad "the text loader accepted this document but what it loaded does not survive to_string / from_str" textLoader,
                            if wfB il then none else some "the loaded library is not well-formed (WF)"],
          model := match m with | .ok l => toString (showFullLib l) | .error e => "(err " ++ Sexp.quote e ++ ")",
          tags := "de-ok" :: shapes ++ (if il == {} then ["empty-lib"] else []) }
      | none => .malformed "loaded library"
    | _ => .malformed "C17.de shape"

/-- `From<v1::StandardLibrary>` vs `upgrade`; YAML reload, `find_global` agreement and
    `selene upgrade-std` judged -/
def handleV1 : Handler := fun input impl =>
  match readV1Lib input, impl with
  | some v1, .list [.atom "out", sl, yamlRt, findRt, binRt, cliRt] =>
    match readFullLib sl with
    | some il =>
      let m := upgrade v1
      let nKeys := m.core.globals.length
      let inserted := (v1.globals.map fun nf => (unpackSeq nf.1 nf.2).length).foldl (· + ·) 0
      { agree := m == il,
        spec := firstBad [verdictBad "the upgraded YAML does not load to the library the TOML gives" yamlRt,
                          verdictBad "find_global differs between the TOML-loaded and the YAML-loaded library" findRt,
                          verdictBad "selene upgrade-std output differs" binRt,
                          verdictBad "the CLI reports different diagnostics with the TOML library and with its upgraded YAML" cliRt,
                          if wfB il then none else some "the upgraded library is not well-formed (WF)"],
        model := toString (showFullLib m),
        tags := ["v1"] ++ libTags m ++ (if inserted > nKeys then ["v1-key-collision"] else [])
                ++ (if v1.selene.isSome then ["v1-meta"] else [])
                ++ (match binRt with | .atom "ok" => ["upgrade-std-binary"] | _ => [])
                ++ (match cliRt with | .atom "ok" => ["cli-diagnostics-compared"] | _ => []) }
    | none => .malformed "upgraded library"
  | _, _ => .malformed "C17.v1 shape"

def handlers : List (String × Handler) :=
  [("C17.ser", handleSer), ("C17.excluded", handleExcluded), ("C17.de", handleDe), ("C17.v1", handleV1)]

end Driver.C17
