import Driver.Proto
import Selene.Filter.Spec
import Selene.Filter.ForestOf
import Selene.Filter.SynOf
import Selene.Generated.Lints
import Selene.Props.C10
namespace Driver.C08
open Selene Selene.Filter

def readSev : Sexp → Option Sev
  | .atom "allow" => some .allow
  | .atom "error" => some .error
  | .atom "warning" => some .warning
  | _ => none

def showSev : Sev → String
  | .allow => "allow" | .error => "error" | .warning => "warning"

def readComment : Sexp → Option Comment
  | .list [a, b, .list ls] => do
    some { start := ← a.asNat?, stop := ← b.asNat?, lines := (← ls.mapM Sexp.asString?).map String.toList }
  | _ => none

def readNode : Sexp → Option NodeInfo
  | .list [blk, a, b, .list cs, _ty] => do
    some { isBlock := ← blk.asBool?, start := ← a.asNat?, stop := ← b.asNat?, leading := ← cs.mapM readComment }
  | _ => none

def readDiag : Sexp → Option Diag
  | .list [c, s, sv, t] => do
    some { code := ← c.asString?, start := ← s.asNat?, sev := ← readSev sv, tag := ← t.asString? }
  | _ => none

def showDiag (d : Diag) : String := s!"({d.code.quote} {d.start} {showSev d.sev} {d.tag.quote})"

def showEntry : RangeEntry → String
  | .ok f => s!"(ok {f.cfg.global} {f.cfg.lint.quote} {showSev f.cfg.sev} {f.commentRange.1} {f.commentRange.2} {f.range.1} {f.range.2})"
  | .rejected r l => s!"(rejected {r.1} {r.2} {l.quote})"

def showFailure : Failure → String
  | .globalLate r => s!"(late {r.1} {r.2})"
  | .conflict r w => s!"(conflict {r.1} {r.2} {w.1} {w.2})"
  | .unknownLint r l => s!"(unknown {r.1} {r.2} {l.quote})"

def lintExists (name : String) : Bool := Selene.Generated.lints.any (·.1 = name)

def sortStrs (l : List String) : List String := (l.toArray.qsort (· < ·)).toList

/-- request `(nodes firstCode unfiltered config invalidSeverity src)`,
    implementation `(entries filteredLintDiags failures failureSeverities)` or `panic` -/
def handleFilter : Handler := fun input impl =>
  match input with
  | .list [.list snodes, sfc, .list sunf, _cfg, sinv, _src, .list sall] =>
    match snodes.mapM readNode, sunf.mapM readDiag, readSev sinv with
    | some nodes, some unf, some invSev =>
      let firstCode := sfc.asNat?
      let entries := claim lintExists nodes []
      let filters := filtersOf entries
      let tags0 : List String :=
        (if filters.isEmpty then ["no-filters"] else ["filters"]) ++
        (if filters.any (·.cfg.global) then ["global"] else []) ++
        (if entries.any (fun e => match e with | .rejected _ _ => true | _ => false) then ["unknown-lint"] else []) ++
        (if filters.length ≥ 2 then ["multi-filter"] else [])
      match impl with
      | .atom "panic" =>
        -- the model panics iff a Pop meets an empty stack
        let m := filterDiagnostics entries firstCode unf
        { agree := m.isNone, spec := some "filter_diagnostics panicked", model := if m.isNone then "panic" else "no panic",
          tags := tags0 ++ ["panic"] }
      | .list [.list sentries, .list sout, .list sfails, .list sfailSevs] =>
        let implEntries := sentries.map toString
        let modelEntries := entries.map showEntry
        let claimAgree := implEntries == modelEntries
        match filterDiagnostics entries firstCode unf with
        | none => { agree := false, spec := none, model := "model panics (Pop on empty stack)", tags := tags0 }
        | some out =>
          let modelOut := out.diags.map showDiag
          let implOut := sout.map toString
          let modelFails := sortStrs (out.failures.map showFailure)
          let implFails := sortStrs (sfails.map toString)
          -- specification on the implementation's output
          let activeFilters := filters.filter fun f => !(f.cfg.global && !Spec.acceptedGlobal firstCode f)
          let expected := sortStrs ((unf.filterMap (Spec.verdict activeFilters firstCode)).map showDiag)
          let specFails := sortStrs ((Spec.failures entries firstCode).map showFailure)
          let sevOk := sfailSevs.all fun s => readSev s == some invSev
          let spec :=
            if sortStrs implOut != expected then
              some s!"filtered diagnostics differ from `innermost covering filter wins`: implementation {sortStrs implOut} expected {expected}"
            else if implFails != specFails then
              some s!"invalid_lint_filter diagnostics: implementation {implFails}, documented {specFails}"
            else if !sevOk then some "an invalid_lint_filter diagnostic does not carry the configured severity of that lint"
            else
              -- C09: every well-formed filter comment placed before *any* token that names a missing lint must be reported
              let claimedStarts := entries.map fun e => match e with | .ok f => f.commentRange.1 | .rejected r _ => r.1
              let ignored := sall.filterMap fun sc => match sc with
                | .list [c, tok] => match readComment c with
                  | some cm =>
                    let bad := cm.lines.any fun line => match parseComment line with
                      | some cfgs => cfgs.any fun cfg => !lintExists cfg.lint
                      | none => false
                    if bad && !claimedStarts.contains cm.start then some s!"comment at {cm.start} before `{tok.asString?.getD ""}`" else none
                  | none => none
                | _ => none
              match ignored with
              | [] => none
              | x :: _ => some s!"ignored: a well-formed filter naming a lint that does not exist is never reported because the token after it starts no syntax node ({x})"
          let changed := unf.filter fun d => Spec.verdict activeFilters firstCode d != some d
          -- hypothesis of `C08_machine`: the accepted inline filters are the pre-order of a well-formed forest
          let forest := forestOf (filters.filter fun f => !f.cfg.global)
          -- hypothesis of `C08_visitor`: the nodes that carry comments are the pre-order of a well-formed syntax tree
          let tree := synOf nodes
          let tags := tags0 ++ (if forest.isSome then ["forest-hypothesis-holds"] else ["forest-hypothesis-fails"]) ++
            (if tree.isSome then ["syntax-tree-hypothesis-holds"] else ["syntax-tree-hypothesis-fails"]) ++ (if !changed.isEmpty then ["changes-something"] else []) ++
            (if out.failures.any (fun f => match f with | .conflict _ _ => true | _ => false) then ["conflict"] else []) ++
            (if out.failures.any (fun f => match f with | .globalLate _ => true | _ => false) then ["global-late"] else []) ++
            (if unf.any (fun d => (activeFilters.filter (fun f => Spec.covers f d)).length ≥ 2) then ["nested-same-lint"] else [])
          { agree := claimAgree && modelOut == implOut && modelFails == implFails && forest.isSome, spec,
            model := (if claimAgree then "" else s!"CLAIM model {modelEntries} impl {implEntries} ") ++
                     (if forest.isSome then "" else s!"FOREST the accepted inline filter ranges are not the pre-order of a well-formed forest: C08_machine does not apply to this input {(filters.filter fun f => !f.cfg.global).map (·.range)} ") ++
                     (if modelOut == implOut then "" else s!"OUT model {modelOut} impl {implOut} ") ++
                     (if modelFails == implFails then "" else s!"FAILS model {modelFails} impl {implFails}"),
            tags }
      | _ => .malformed "filter impl"
    | _, _, _ => .malformed "filter parts"
  | _ => .malformed "filter"

/-- request `((cfg unfiltered filtered)… nodes firstCode src)`: the same program under several severity assignments -/
def handleSame : Handler := fun input _ =>
  match input with
  | .list [.list runs, .list snodes, sfc, _src] =>
    match snodes.mapM readNode with
    | none => .malformed "same nodes"
    | some nodes =>
    let firstCode := sfc.asNat?
    let entries := claim lintExists nodes []
    let filters := filtersOf entries
    let activeFilters := filters.filter fun f => !(f.cfg.global && !Spec.acceptedGlobal firstCode f)
    Id.run do
      let mut agree := true
      let mut spec : Option String := none
      let mut reference : Option (List String) := none
      let mut notes : List String := []
      let mut tags : List String := []
      for r in runs do
        match r with
        | .list [.list scfg, .list sunf, .list sfil] =>
          let cfg := scfg.filterMap fun e => match e with
            | .list [n, s] => match n.asString?, readSev s with | some n, some s => some (n, s) | _, _ => none
            | _ => none
          match sunf.mapM readDiag, sfil.mapM readDiag with
          | some unf, some fil =>
            -- model: severity attached = configured or default
            for d in unf do
              if Selene.Props.C10.severityOf cfg d.code != some d.sev then
                agree := false
                notes := notes ++ [s!"{d.code}: model severity {(Selene.Props.C10.severityOf cfg d.code).map showSev}, implementation {showSev d.sev}"]
                if spec.isNone then
                  spec := some (s!"[C10] severity: a diagnostic of `{d.code}` carries severity {showSev d.sev} under the configuration {scfg}, where " ++
                    (if cfg.any (fun p => p.1 == d.code) then "the configuration sets" else "the lint is absent from the configuration and its built-in default is") ++
                    s!" {(Selene.Props.C10.severityOf cfg d.code).map showSev}")
            let erased := sortStrs (unf.map fun d => s!"{d.code}|{d.start}|{d.tag}")
            match reference with
            | none => reference := some erased
            | some ref =>
              if ref != erased && spec.isNone then
                spec := some s!"the findings differ between two severity assignments: {ref} vs {erased}"
            -- a lint configured `allow` contributes nothing unless an inline/global filter re-enables it
            let expected := sortStrs ((unf.filterMap (Spec.verdict activeFilters firstCode)).map showDiag)
            if sortStrs (fil.map showDiag) != expected && spec.isNone then
              spec := some s!"filtered output under config {scfg} is not `inline filter wins, else configured severity`"
            match filterDiagnostics entries firstCode unf with
            | some out => if out.diags.map showDiag != fil.map showDiag then agree := false; notes := notes ++ ["filtered output differs from the model"]
            | none => agree := false
            if cfg.any (fun p => p.2 == .allow) && unf.any (fun d => d.sev == .allow) then tags := tags ++ ["allow-configured-lint-fires"]
            if unf.any (fun d => d.sev == .allow && (Spec.verdict activeFilters firstCode d).isSome && (Spec.verdict activeFilters firstCode d) != some d) then
              tags := tags ++ ["inline-overrides-allow"]
            if unf.any (fun d => d.sev != .allow && (Spec.verdict activeFilters firstCode d).isNone) then
              tags := tags ++ ["inline-allow-overrides-config"]
          | _, _ => agree := false
        | _ => agree := false
      if !filters.isEmpty then tags := tags ++ ["filters"]
      return { agree, spec, model := " | ".intercalate notes, tags := ("same" :: tags).eraseDups }
  | _ => .malformed "same"

/-- request `(library statement lint variation program)`, implementation `(got expected)`: the diagnostics of the program with a
filter comment directly before one statement, and what the plain program's diagnostics prescribe (harness-side oracle: exactly the
diagnostics of that lint starting inside the statement are removed / re-labelled) -/
def handleDirect : Handler := fun input impl =>
  match input, impl with
  | .list [lib, stmt, lint, variation, _prog], .list [.list got, .list expected] =>
    let g := got.filterMap Sexp.asString?
    let e := expected.filterMap Sexp.asString?
    let missing := e.filter fun x => !g.contains x
    let extra := g.filter fun x => !e.contains x
    let covered := e.length != g.length || g.any (fun x => (x.splitOn "|").head? == lint.asString?) || variation.asString? == some "allow"
    { agree := true,
      spec := if missing.isEmpty && extra.isEmpty && g.length == e.length then none
        else some s!"[C08] a `{variation.asString?.getD ""}({lint.asString?.getD ""})` comment directly before the statement `{stmt.asString?.getD ""}` (library {lib.asString?.getD ""}) does not change exactly the diagnostics it covers: unexpected {extra.take 2}, missing {missing.take 2}",
      tags := [s!"direct-{lib.asString?.getD ""}"] ++ (if covered then ["direct-covers"] else []) }
  | _, _ => .malformed "direct"

def handlers : List (String × Handler) := [("C08.filter", handleFilter), ("C10.same", handleSame), ("C08.direct", handleDirect)]
end Driver.C08
