import Driver.Proto
import Selene.Lua.Read
import Selene.Scope.ManualTableClone
import Selene.Scope.ManualTableCloneStateful
namespace Driver.Clone
open Selene Selene.Lua Selene.Scope Selene.Scope.ManualTableClone

def sortStrs (l : List String) : List String := (l.toArray.qsort (· < ·)).toList

def showMatch (toks : List String) (m : Match) : String :=
  let sec := match m.replacesDefinition with
    | some d => s!"(({d.first} {d.last}) \"remove this definition\")"
    | none => ""
  s!"(({m.range.first} {m.range.last}) \"manual implementation of table.clone\" ({sec}) ({" ".intercalate ((m.notes toks).map String.quote)}))"

/-- request `(chunk origin src ((forTok (comment…))…) (token…))`, implementation `(diags-with-table.clone diags-without)`,
each diagnostic `((first last) message (((first last) message)…) (note…))` -/
def handleProg : Handler := fun input impl =>
  match input with
  | .list [schunk, _origin, _src, .list comments, .list toksx] =>
    match readChunk schunk with
    | some chunk =>
      let σ := analyse chunk.block
      let toks := toksx.filterMap Sexp.asString?
      let lc := fun (i : Nat) => (comments.filterMap fun c => match c with
        | .list [n, .list cs] => if n.asNat? == some i then some (cs.filterMap Sexp.asString?) else none
        | _ => none).flatten
      let ms := run true σ lc chunk.block
      let off := run false σ lc chunk.block
      -- the hook-by-hook visitor (sets kept as state) must say the same as the characterisation by statement spans
      let selfOk := runStateful true σ lc chunk.block == ms
      match impl with
      | .atom "panic" => { agree := false, spec := some "[C11] manual_table_clone panicked", model := "" }
      | .list [.list withClone, .list without] =>
        let md := sortStrs (ms.map (showMatch toks))
        let id := sortStrs (withClone.map toString)
        let mdOff := off.map (showMatch toks)
        let idOff := without.map toString
        let tags := (if ms.isEmpty then ["silent"] else ["reported"]) ++
          (if ms.any (·.replacesDefinition.isSome) then ["loop-only-range"] else []) ++
          (if ms.any (·.replacesDefinition.isNone) then ["definition-to-loop-range"] else []) ++
          (if ms.any (·.loopType == .ipairs) then ["ipairs-note"] else []) ++
          (if !comments.isEmpty then ["comment-before-loop"] else []) ++
          (if σ.panic.isSome then ["model-panic"] else [])
        { agree := md == id && mdOff == idOff && selfOk,
          model := if !selfOk then "the stateful visitor model and the span characterisation disagree on this program" else if md == id && mdOff == idOff then "" else s!"model {md.filter fun x => !id.contains x} impl {id.filter fun x => !md.contains x} without-table.clone model {mdOff} impl {idOff}",
          tags }
      | _ => .malformed "clone impl"
    | none => .malformed "clone chunk"
  | _ => .malformed "clone"

def handlers : List (String × Handler) := [("CLONE.prog", handleProg)]
end Driver.Clone
