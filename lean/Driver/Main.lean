import Driver.Proto
import Driver.C04A
import Driver.C04B
import Driver.C05
import Driver.C06
import Driver.C08
import Driver.C11
import Driver.C12
import Driver.C15
import Driver.C16
import Driver.C17
import Driver.C18
import Driver.C19
import Driver.C20
import Driver.Scope
import Driver.Rel
import Driver.StdProg
import Driver.Clone
import Driver.Roact
open Driver Selene

def allHandlers : List (String × Handler) :=
  Driver.C04A.handlers ++ Driver.C04B.handlers ++ Driver.C05.handlers ++ Driver.C06.handlers ++ Driver.C08.handlers ++ Driver.C11.handlers ++ Driver.C12.handlers ++ Driver.C15.handlers ++ Driver.C16.handlers ++ Driver.C17.handlers ++ Driver.C18.handlers ++ Driver.C19.handlers ++ Driver.C20.handlers ++ Driver.Scope.handlers ++ Driver.Rel.handlers ++ Driver.StdProg.handlers ++ Driver.Clone.handlers ++ Driver.Roact.handlers

def handleLine (line : String) : String :=
  match line.splitOn "\t" with
  | [cmd, input, impl] =>
    match allHandlers.lookup cmd with
    | some h =>
      match Sexp.parse input, Sexp.parse impl with
      | some i, some o => (h i o).render
      | _, _ => (Resp.malformed "sexp").render
    | none => (Resp.malformed ("unknown command " ++ cmd)).render
  | _ => (Resp.malformed "fields").render

partial def loop (h : IO.FS.Stream) (out : IO.FS.Stream) : IO Unit := do
  let line ← h.getLine
  if line.isEmpty then return ()
  let line := if line.endsWith "\n" then (line.dropEnd 1).toString else line
  out.putStrLn (handleLine line)
  loop h out

def main : IO Unit := do
  let stdin ← IO.getStdin
  let stdout ← IO.getStdout
  loop stdin stdout
