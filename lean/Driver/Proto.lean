import Selene.Sexp
/-! Line protocol of the model driver.
request  (one per line):  `CMD \t input-sexp \t impl-output-sexp`
response (one per line):  `agree|DIFF \t ok|BAD:<why> \t model-output \t tag,tag,…`
* agree/DIFF — does the model's output equal the implementation's (correspondence)
* ok/BAD     — does the *implementation's* output satisfy the specification on this input
* tags       — which model branches this case reached (coverage, printed into the evidence) -/
namespace Driver
open Selene

structure Resp where
  agree : Bool
  spec : Option String := none      -- `none` = ok, `some why` = the implementation violates the spec
  model : String := ""
  tags : List String := []

/-- one response = one line, fields separated by tabs: whatever source text a handler quotes must not break that -/
def oneLine (s : String) : String :=
  ((s.replace "\r\n" "<CRLF>").replace "\n" "<LF>").replace "\r" "<CR>" |>.replace "\t" "<TAB>"

def Resp.render (r : Resp) : String :=
  (if r.agree then "agree" else "DIFF") ++ "\t" ++
  (match r.spec with | none => "ok" | some w => "BAD:" ++ oneLine w) ++ "\t" ++
  oneLine r.model ++ "\t" ++ ",".intercalate r.tags

def Resp.malformed (why : String) : Resp :=
  { agree := false, spec := none, model := "MALFORMED-REQUEST " ++ why }

abbrev Handler := Sexp → Sexp → Resp

end Driver
