import Driver.Proto
import Selene.Props.C18
namespace Driver.C18
open Selene Selene.Cli

def readCtr : Sexp → Option Ctr
  | .atom "parse" => some .parse
  | .atom "errors" => some .errors
  | .atom "warnings" => some .warnings
  | _ => none

def readEv : Sexp → Option Ev
  | .list [.atom "job_start", t, f] => do some (.jobStart (← t.asString?) (← f.asString?))
  | .list [.atom "job_end", t] => do some (.jobEnd (← t.asString?))
  | .list [.atom "add", t, c, n] => do some (.add (← t.asString?) (← readCtr c) (← n.asNat?))
  | .list [.atom "lock", t] => do some (.lock (← t.asString?))
  | .list [.atom "unlock", t] => do some (.unlock (← t.asString?))
  | .list [.atom "emit", t, c, p] => do some (.emit (← t.asString?) (← c.asString?) (← p.asNat?))
  | .list [.atom "totals", p, e, w] => do some (.totals (← p.asNat?) (← e.asNat?) (← w.asNat?))
  | _ => none

/-- request: the observed event trace; implementation output: `(exit panics allowWarnings)` -/
def handleTrace : Handler := fun input impl =>
  match input, impl with
  | .list sevs, .list [sexit, spanics, saw] =>
    match sevs.mapM readEv, sexit.asNat?, spanics.asNat?, saw.asBool? with
    | some evs, some iexit, some panics, some aw =>
      match run {} evs with
      | .error why => { agree := false, spec := some s!"trace rejected by the pool model: {why}", model := "rejected" }
      | .ok st =>
        let bo := blocksOk st.blocks
        let expectedExit := exitCode (sumAdds (addsOf evs)) 0 panics aw
        let spec :=
          if !bo then some "a file's lint diagnostics span more than one stdout lock acquisition (or a lock span mixes parse errors and lint diagnostics)"
          else if !st.totalsSeen then some "no summary totals event in the trace"
          else if expectedExit != iexit then some s!"exit status {iexit}, the sum of all counter additions gives {expectedExit}"
          else none
        let nthreads := (evs.filterMap fun e => match e with | .jobStart t _ => some t | _ => none).eraseDups.length
        { agree := bo && st.totalsSeen && expectedExit == iexit, spec,
          model := s!"accepted blocks={st.blocks.length} exit={expectedExit}",
          tags := ["trace", s!"workers{nthreads}"] ++ (if st.blocks.length ≥ 2 then ["multi-block"] else []) ++
                  (if st.counts.parse > 0 then ["parse-errors"] else []) }
    | _, _, _, _ => .malformed "trace parts"
  | _, _ => .malformed "trace"

def handlers : List (String × Handler) := [("C18.trace", handleTrace)]
end Driver.C18
