import Driver.Proto
import Selene.Std.Codec
import Selene.Std.Call
import Selene.Std.CallSpec
namespace Driver.C05
open Selene Selene.Std

def readQuote : Sexp → Option Quote
  | .atom "sq" => some .single
  | .atom "dq" => some .double
  | .list [.atom "long", n] => do some (.long (← n.asNat?))
  | _ => none

def readUnOp : Sexp → Option UnOp
  | .atom "hash" => some .hash
  | .atom "minus" => some .minus
  | .atom "not" => some .not
  | _ => none

def readBinOp : Sexp → Option BinOp
  | .atom "caret" => some .caret | .atom "gt" => some .gt | .atom "ge" => some .ge
  | .atom "lt" => some .lt | .atom "le" => some .le | .atom "eq" => some .eq | .atom "ne" => some .ne
  | .atom "plus" => some .plus | .atom "minus" => some .minus | .atom "star" => some .star
  | .atom "slash" => some .slash | .atom "percent" => some .percent | .atom "concat" => some .concat
  | .atom "and" => some .and | .atom "or" => some .or
  | _ => none

/-- `(str q content raw)`: `raw` is what the real token printed; it must be the text the model
    computes from quote kind and content (this ties `tokenText` to full_moon's `Display`) -/
def readStr (q c raw : Sexp) : Option (Quote × String) := do
  let q ← readQuote q
  let c ← c.asString?
  let raw ← raw.asString?
  if tokenText q c == raw then some (q, c) else none

partial def readExpr : Sexp → Option Expr
  | .atom "nil" => some .nilLit
  | .atom "true" => some .trueLit
  | .atom "false" => some .falseLit
  | .atom "vararg" => some .vararg
  | .atom "call" => some .call
  | .atom "table" => some .table
  | .atom "function" => some .function
  | .list [.atom "number", t] => do some (.number (← t.asString?))
  | .list [.atom "name", t] => do some (.name (← t.asString?))
  | .list [.atom "str", q, c, raw] => do
    let (q, c) ← readStr q c raw
    some (.str q c)
  | .list [.atom "paren", e] => do some (.paren (← readExpr e))
  | .list [.atom "unop", op, e] => do some (.unop (← readUnOp op) (← readExpr e))
  | .list [.atom "binop", op, l, r] => do some (.binop (← readBinOp op) (← readExpr l) (← readExpr r))
  | _ => none

def readCall : Sexp → Option Call
  | .list [.atom "call", m, a] => do
    let m ← m.asBool?
    let args ← match a with
      | .atom "table" => some CallArgs.table
      | .list [.atom "string", q, c, raw] => do
        let (q, c) ← readStr q c raw
        some (CallArgs.string q c)
      | .list (.atom "parens" :: es) => do some (CallArgs.parens (← es.mapM readExpr))
      | _ => none
    some { isMethod := m, args }
  | _ => none

def showProblem : Problem → Sexp
  | .notFunction => .list [.atom "not-function"]
  | .style m => .list [.atom "style", showBool m]
  | .needsVararg notes => .list (.atom "needs-vararg" :: notes.map .str)
  | .count e n notes => .list (.atom "count" :: .atom (toString e) :: .atom (toString n) :: notes.map .str)
  | .type i t p => .list [.atom "type", .atom (toString i),
      .str ("expected `" ++ t.render ++ "`, received `" ++ p.typeName ++ "`")]

/-- what the implementation reported, read back from its canonical output -/
structure Seen where
  style : Bool := false
  count : Bool := false
  types : List Nat := []
  other : Bool := false

def seenOf (impl : Sexp) : Seen :=
  match impl with
  | .list ps => ps.foldl (fun s p =>
      match p with
      | .list (.atom "style" :: _) => { s with style := true }
      | .list (.atom "needs-vararg" :: _) => { s with count := true }
      | .list (.atom "count" :: _) => { s with count := true }
      | .list (.atom "type" :: i :: _) => { s with types := s.types ++ [(i.asNat?).getD 999] }
      | _ => { s with other := true }) {}
  | _ => { other := true }

def argExpr (c : Call) (i : Nat) : Option Expr :=
  match c.args with
  | .parens as => as[i]?
  | .string q s => if i = 0 then some (.str q s) else none
  | .table => if i = 0 then some .table else none

partial def hasLong : Expr → Bool
  | .str q _ => q.isLong
  | .paren e => hasLong e
  | .unop _ e => hasLong e
  | .binop _ l r => hasLong l || hasLong r
  | _ => false

/-- `Doc.tame` without the long-bracket clause: no arithmetic on a string-typed operand -/
def noStringArith : Expr → Bool
  | .paren e => noStringArith e
  | .unop .minus e => noStringArith e && !Doc.stringy e
  | .binop op l r => if op.isArith then noStringArith l && noStringArith r && !(Doc.stringy l && Doc.stringy r) else true
  | _ => true

/-- judge the implementation's report by the specification (`CallSpec.lean`); the first word of
    the verdict is its category -/
def specVerdict (f : FunctionBehavior) (c : Call) (impl : Sexp) : Option String :=
  let seen := seenOf impl
  let range := s!"[{Doc.minArgs f}, {if Doc.variadic f then "unbounded" else toString f.args.length}]"
  if seen.style != Doc.styleWrong f c then
    some (if seen.style then "style/unexpected: reported although the call style matches the definition"
          else "style/missing: call style differs from the definition but is not reported")
  else if Doc.styleWrong f c then none
  else if seen.count != Doc.countOutside f c then
    some (if seen.count then
            (if Doc.overfullOpen f c then
              s!"count/open-call: a count problem is reported although the last argument is a call or `...` (never a count problem per the property): {Doc.nArgs c.args} syntactic arguments for {f.args.length} parameters"
             else s!"count/unexpected: reported although {Doc.nArgs c.args} arguments lie within {range}")
          else s!"count/missing: {Doc.nArgs c.args} arguments lie outside {range} but nothing is reported")
  else
    match seen.types.find? (fun i => !Doc.definitelyWrong f c i) with
    | some i =>
      let why := match argExpr c i with
        | some e =>
          if !noStringArith e then "type/string-arith: arithmetic on a string-typed operand is given the operand's type (`-\"1\"` is called a string)"
          else if hasLong e then "type/long-bracket: a long-bracket string literal is reported (from_string strips one character per side, so `[[count]]` is read as `[count]`)"
          else if !Doc.tame e then "type/string-arith: arithmetic on a string-typed operand is given the operand's type (`-\"1\"` is called a string)"
          else "type/unexplained: reported"
        | none => "type/no-such-argument: reported"
      some s!"{why}; argument {i} is not definitely wrong for the declared type"
    | none => none

def tagsOf (f : FunctionBehavior) (c : Call) (m : List Problem) : List String :=
  let form := match c.args with
    | .parens _ => "parens" | .string _ _ => "string-call" | .table => "table-call"
  let t0 := [form, s!"params{min f.args.length 4}", s!"args{min (Doc.nArgs c.args) 6}"]
  let t1 := m.map fun
    | .notFunction => "not-function" | .style _ => "style" | .needsVararg _ => "needs-vararg"
    | .count e n _ => if n < e then "count-few" else "count-many"
    | .type _ t p => match t, p with
      | .constant _, .str _ => "const-mismatch"
      | _, .str _ => "type-mismatch-string"
      | _, _ => "type-mismatch"
  let t2 := if Doc.isOpen c.args then ["open"] else []
  let t3 := if Doc.variadic f then (if Doc.requiresVararg f then ["required-vararg"] else ["optional-vararg"]) else []
  let es := match c.args with | .parens as => as | .string q s => [.str q s] | .table => []
  let t4 := if es.any hasLong then ["long-bracket"] else []
  let t5 := if es.any (fun e => !Doc.tame e && !hasLong e) then ["string-arith"] else []
  let t6 := if m.isEmpty then ["clean"] else []
  let t7 := if (c.args.types.zip f.args).any (fun (p, a) => a.required = .notRequired && p == some (.prim .nil)) then ["nil-for-optional"] else []
  let t8 := if es.any (fun e => match e with | .binop op _ r => op.isComparison && r.isAndOr | _ => false) then ["cmp-andor"] else []
  let t9 := if Doc.overfullOpen f c then ["overfull-open"] else []
  (t0 ++ t1 ++ t2 ++ t3 ++ t4 ++ t5 ++ t6 ++ t7 ++ t8 ++ t9).eraseDups

def handleCall : Handler := fun input impl =>
  match input with
  | .list [skind, scall, _src] =>
    match readKind skind, readCall scall with
    | some kind, some call =>
      let m := checkField kind call
      let mS := toString (Sexp.list (m.map showProblem))
      match kind with
      | .function f =>
        { agree := mS == toString impl, spec := specVerdict f call impl, model := mS, tags := tagsOf f call m }
      | _ =>
        { agree := mS == toString impl, spec := none, model := mS,
          tags := [match kind with | .any => "kind-any" | _ => "kind-not-function"] }
    | _, _ => .malformed "kind or call (token text of a string literal must equal quote+content+quote)"
  | _ => .malformed "shape"

def handlers : List (String × Handler) := [("C05.call", handleCall)]

end Driver.C05
