import Driver.Proto
import Selene.Lua.Read
import Selene.Lints.DocA
import Selene.Lints.DivideByZero
import Selene.Lints.CompareNan
import Selene.Lints.SuspiciousReverseLoop
import Selene.Lints.DuplicateKeys
import Selene.Lints.MixedTable
import Selene.Lints.ConstantTableComparison
import Selene.Lints.TypeCheckInsideCall
import Selene.Lints.BadStringEscape
import Selene.Lints.ParentheseConditions
/-! C04 (half A): the nine expression-level lints.  Request `(chunk origin src)`, implementation
`(diags-lua51 diags-roblox)` with each diagnostic `(code span message (secondary…))`, span =
`(first last)` in tokens or `(sub token a b)` for a label inside a token. -/
namespace Driver.C04A
open Selene Selene.Lua Selene.Lints

def showSpan (s : Span) : String := s!"({s.first} {s.last})"

def showDiag (d : Diag) : String :=
  let p := match d.sub with
    | some (a, b) => s!"(sub {d.primary.first} {a} {b})"
    | none => showSpan d.primary
  s!"({d.code.quote} {p} {d.msg.quote} ({" ".intercalate (d.secondary.map showSpan)}))"

def readSpan : Sexp → Option Span
  | .list [a, b] => do some ⟨← a.asNat?, ← b.asNat?⟩
  | _ => none

/-- `none` = a label that is not aligned with tokens (reported as a correspondence difference) -/
def readDiag : Sexp → Option Diag
  | .list [c, p, m, .list sec] => do
    let code ← c.asString?
    let msg ← m.asString?
    let secondary ← sec.mapM readSpan
    match p with
    | .list [.atom "sub", i, a, b] => do
      let i ← i.asNat?
      some { code, primary := ⟨i, i⟩, msg, secondary, sub := some (← a.asNat?, ← b.asNat?) }
    | p => do some { code, primary := ← readSpan p, msg, secondary }
  | _ => none

def sortStrs (l : List String) : List String := (l.toArray.qsort (· < ·)).toList

def modelDiags (roblox : Bool) (b : Block) : List Diag :=
  DivideByZero.lint b ++ CompareNan.lint b ++ SuspiciousReverseLoop.lint b ++ DuplicateKeys.lint b ++
  MixedTable.lint b ++ ConstantTableComparison.lint b ++ TypeCheckInsideCall.lint roblox b ++
  BadStringEscape.lint roblox b ++ ParentheseConditions.lint b

structure LintSpec where
  code : String
  doc : Bool → Node → Diag → Bool
  canon : Bool → Node → List Expect
  byValue : Bool → Node → List Expect

def specs : List LintSpec := [
  ⟨"divide_by_zero", fun _ => Doc.divideByZero, fun _ => Canon.divideByZero, fun _ => ByValue.divideByZero⟩,
  ⟨"compare_nan", fun _ => Doc.compareNan, fun _ => Canon.compareNan, fun _ => ByValue.compareNan⟩,
  ⟨"suspicious_reverse_loop", fun _ => Doc.suspiciousReverseLoop, fun _ => Canon.suspiciousReverseLoop, fun _ => ByValue.suspiciousReverseLoop⟩,
  ⟨"duplicate_keys", fun _ => Doc.duplicateKeys, fun _ => Canon.duplicateKeys, fun _ => ByValue.duplicateKeys⟩,
  ⟨"mixed_table", fun _ => Doc.mixedTable, fun _ => Canon.mixedTable, fun _ => ByValue.mixedTable⟩,
  ⟨"constant_table_comparison", fun _ => Doc.constantTableComparison, fun _ => Canon.constantTableComparison, fun _ => ByValue.constantTableComparison⟩,
  ⟨"type_check_inside_call", Doc.typeCheckInsideCall, Canon.typeCheckInsideCall, ByValue.typeCheckInsideCall⟩,
  ⟨"bad_string_escape", Doc.badStringEscape, Canon.badStringEscape, ByValue.badStringEscape⟩,
  ⟨"parenthese_conditions", fun _ => Doc.parentheseConditions, fun _ => Canon.parentheseConditions, fun _ => ByValue.parentheseConditions⟩]

/-- source text of a token span -/
def excerpt (src : String) (layout : Layout) (sp : Span) : String :=
  match layout[sp.first]?, layout[sp.last]? with
  | some a, some b =>
    let s := (String.fromUTF8? (src.toUTF8.extract a.start b.stop)).getD "?"
    let s := (s.replace "\n" " ").replace "\r" " "
    if s.length > 70 then (s.take 70).toString ++ "…" else s
  | _, _ => "?"

def subExcerpt (src : String) (layout : Layout) (tok a b : Nat) : String :=
  match layout[tok]? with
  | some t => ((String.fromUTF8? (src.toUTF8.extract (t.start + a) (t.start + b))).getD "?").replace "\r" "<CR>" |>.replace "\n" "<LF>"
  | none => "?"

def tokText (src : String) (layout : Layout) (i : Nat) : String := excerpt src layout ⟨i, i⟩

/-- why a diagnostic that no node justifies is wrong, in the vocabulary of the lint -/
def explainFalsePositive (src : String) (layout : Layout) (nodes : List Node) (g : Diag) : String :=
  if g.code == "suspicious_reverse_loop" then
    let bound := tokText src layout g.primary.last
    match numValue bound with
    | some v =>
      if (decimalValue bound.toList).isNone then
        s!"the loop bound `{bound}` denotes {v.num}/{v.den}, which is not <= 1; the spelling is not read by the float parser and an unread bound counts as <= 1"
      else s!"the loop bound `{bound}` denotes {v.num}/{v.den} > 1; it is rounded to single precision before the comparison with 1"
    | none => s!"loop bound `{bound}`"
  else if g.code == "divide_by_zero" then
    let hit := nodes.findSome? fun n => match n with
      | .expr (.bin sp l _ _) => if sp == g.primary then some l else none
      | _ => none
    match hit with
    | some l => if zeroLit l then s!"the dividend `{excerpt src layout l.span}` denotes zero, and 0/0 is documented as allowed; only the spelling `0` is recognised" else "the divisor does not denote zero"
    | none => "no division at this range"
  else if g.code == "duplicate_keys" then
    match g.secondary with
    | [o] =>
      -- which kind of key: a quoted / long-bracket string (the recorded raw-text finding), or anything else (numbers, names)
      -- (decided on the tree, not on the text: blanks and comments may sit between the bracket and the literal)
      let isStrKey := fun (sp : Span) => nodes.any fun n => match n with
        | .table _ fs => fs.toList.any fun f =>
            DuplicateKeys.fieldRange f == sp && ((DuplicateKeys.fieldKey f 0).1.map (·.ty)) == some DuplicateKeys.KeyType.string
        | _ => false
      if isStrKey o && isStrKey g.primary then
        s!"the keys of `{excerpt src layout o}` and `{excerpt src layout g.primary}` denote different values; the raw text between the delimiters is compared, whatever the quote kind"
      else
        s!"the keys of `{excerpt src layout o}` and `{excerpt src layout g.primary}` denote different values (they are not both string literals: no raw-text comparison explains this)"
    | _ => "no original declaration"
  else if g.code == "bad_string_escape" then
    match g.sub with
    | some (a, b) =>
      let what := subExcerpt src layout g.primary.first a b
      if g.msg == BadStringEscape.msgDecimal then
        s!"`{what}` in {tokText src layout g.primary.first}: a decimal escape takes at most three DECIMAL digits and this one is <= 255; the check reads hexadecimal digits after the first digit and adds the hundreds to the third character"
      else if g.msg == BadStringEscape.msgMalformed then
        s!"`{what}` in {tokText src layout g.primary.first}: `\\x` takes exactly two hexadecimal digits and they are there; the check counts every hexadecimal digit that follows"
      else if g.msg == BadStringEscape.msgInvalid then
        s!"`{what}` in {tokText src layout g.primary.first}: this is a valid escape (a backslash before a line break continues the string)"
      else s!"`{what}` in {tokText src layout g.primary.first}"
    | none => "label not inside a token"
  else "no node of the program satisfies the documented condition for this diagnostic"

def handleProg : Handler := fun input impl =>
  match input with
  | .list [schunk, _origin, ssrc] =>
    match readChunk schunk, ssrc.asString? with
    | some chunk, some src =>
      let nodes := nodesB chunk.block
      match impl with
      | .atom "panic" => { agree := false, spec := some "[C11] lint pass panicked", model := "impl panic", tags := ["panic"] }
      | .list [.list i51, .list irbx] =>
        let run := fun (roblox : Bool) (idiags : List Sexp) =>
          let md := modelDiags roblox chunk.block
          let ms := sortStrs (md.map showDiag)
          let is_ := sortStrs (idiags.map fun s => match readDiag s with | some d => showDiag d | none => "UNALIGNED " ++ toString s)
          let parsed := idiags.filterMap readDiag
          let mode := if roblox then " (roblox)" else ""
          let clauses := specs.flatMap fun sp =>
            let mine := parsed.filter (·.code == sp.code)
            let fp := mine.filter fun g => !(nodes.any fun n => sp.doc roblox n g)
            let c1 := fp.head?.map fun g =>
              s!"[C04] {sp.code} false-positive{mode}: `{excerpt src chunk.layout g.primary}` reported (\"{g.msg}\") — {explainFalsePositive src chunk.layout nodes g}"
            let missing := fun (xs : List Expect) => xs.filter fun x => !(mine.any fun g => x.matches g)
            let canonMissing := missing (nodes.flatMap (sp.canon roblox))
            let c2 := canonMissing.head?.map fun x =>
              s!"[C04] {sp.code} missed-canonical{mode}: the documented pattern at `{excerpt src chunk.layout x.primary}`" ++
                (match x.subStart with | some o => s!" (escape at byte {o} of the literal)" | none => "") ++ " is not reported"
            let valueMissing := (missing (nodes.flatMap (sp.byValue roblox))).filter fun x => !canonMissing.contains x
            let c3 := valueMissing.head?.map fun x =>
              s!"[C04] {sp.code} missed-by-value{mode}: `{excerpt src chunk.layout x.primary}`" ++
                (match x.subStart with | some o => s!" (escape at byte {o} of the literal)" | none => "") ++
                " is the documented pattern with a literal spelled differently (same value) and is not reported"
            [c1, c2, c3].filterMap id
          let tags := specs.filterMap fun sp => if md.any (·.code == sp.code) then some (sp.code ++ (if roblox then ":roblox" else "")) else none
          (ms == is_, clauses, tags, if ms == is_ then "" else s!"DIAGS{mode} model {ms} impl {is_} ")
        let (ok1, cl1, tg1, m1) := run false i51
        let (ok2, cl2, tg2, m2) := run true irbx
        -- the roblox run repeats the lua51 clauses for the seven dialect-independent lints; keep new ones only
        let strip := fun (s : String) => s.replace " (roblox)" ""
        let cl2 := cl2.filter fun c => !(cl1.contains (strip c))
        let items := cl1 ++ cl2
        let extra :=
          (if nodes.any (fun n => match n with | .stmt (.numFor ..) => true | _ => false) then ["numeric-for"] else []) ++
          (if nodes.any (fun n => match n with | .table .. => true | _ => false) then ["table"] else []) ++
          (if nodes.any (fun n => match n with | .expr (.str ..) => true | _ => false) then ["string"] else [])
        { agree := ok1 && ok2,
          spec := if items.isEmpty then none else some (" ;; ".intercalate items),
          model := m1 ++ m2,
          tags := tg1 ++ tg2 ++ extra }
      | _ => .malformed "C04A impl"
    | _, _ => .malformed "C04A chunk"
  | _ => .malformed "C04A"

def handlers : List (String × Handler) := [("C04A.prog", handleProg)]
end Driver.C04A
