import Driver.Proto
import Selene.Lua.Read
import Selene.Scope.Lints
import Selene.Scope.MoreLints
import Selene.Lints.Cyclomatic
import Selene.Lints.TraverseA
import Selene.Scope.Spec
import Selene.Scope.Core
import Selene.Scope.TopProof
import Selene.Scope.SpecProof
namespace Driver.Scope
open Selene Selene.Lua Selene.Scope

def optNat (o : Option Nat) : String := match o with | some n => toString n | none => "none"

def showRef (σ : St) (r : Ref) : String :=
  let res := match r.resolved with
    | some v => match σ.vars[v]? with | some x => toString x.ident | none => "?"
    | none => "none"
  let w := match r.write with | none => "none" | some .assign => "assign" | some .extend => "extend"
  let wi := match r.within with | some (_, i) => toString i | none => "none"
  let ix := match r.indexing with
    | some l => "(" ++ " ".intercalate (l.map fun (e : IndexEntry) => if e.staticName.isSome then "true" else "false") ++ ")"
    | none => "none"
  s!"({r.ident} {r.name.quote} {res} {r.read} {w} {wi} {ix})"

def showVar (σ : St) (v : Variable) : String :=
  let sh := match v.shadowed with
    | some s => match σ.vars[s]? with | some x => toString x.ident | none => "?"
    | none => "none"
  s!"({v.name.quote} {v.ident} {sh} {v.isSelf} {v.references.length} {v.hoisted})"

def showCall (σ : St) (c : CallStmt) : String :=
  let ir := match σ.refs[c.initialRef]? with | some r => toString r.ident | none => "?"
  "((" ++ " ".intercalate (c.namePath.map String.quote) ++ ") " ++ ir ++ ")"

def showSpan (s : Span) : String := s!"({s.first} {s.last})"

def showDiag (d : Diag) : String :=
  s!"({d.code.quote} {showSpan d.primary} ({" ".intercalate (d.secondary.map showSpan)}))"

/-- implementation diagnostics arrive as `(code (first last) message (secondary…))` -/
def implDiagKey (s : Sexp) : Option String :=
  match s with
  | .list [c, p, _m, .list sec] => some s!"({(c.asString?.getD "").quote} {toString p} ({" ".intercalate (sec.map toString)}))"
  | _ => none

def sortStrs (l : List String) : List String := (l.toArray.qsort (· < ·)).toList

structure Oracle where
  hasFields : List String            -- names for which `global_has_fields` holds
  writeOnlyArgs : List (List String × Nat)   -- (call path, argument index) that are `observes: write`
  mustUsePaths : List (List String) := []    -- call paths that are `must_use` library functions

def readOracle : Sexp → Option Oracle
  | .list [.list hf, .list wo, .list mu] => do
    let hasFields ← hf.mapM Sexp.asString?
    let writeOnlyArgs ← wo.mapM fun e => match e with
      | .list [.list p, i] => do some (← p.mapM Sexp.asString?, ← i.asNat?)
      | _ => none
    let mustUsePaths ← mu.mapM fun e => match e with
      | .list p => p.mapM Sexp.asString?
      | _ => none
    some { hasFields, writeOnlyArgs, mustUsePaths }
  | .list [.list hf, .list wo] => do
    let hasFields ← hf.mapM Sexp.asString?
    let writeOnlyArgs ← wo.mapM fun e => match e with
      | .list [.list p, i] => do some (← p.mapM Sexp.asString?, ← i.asNat?)
      | _ => none
    some { hasFields, writeOnlyArgs }
  | _ => none

def defaultIgnore (n : String) : Bool := n.startsWith "_"

/-- token ranges of the `until` conditions that contain a function literal (a coverage tag only: there the implementation
interleaves reads and closure entries, which `Core.topE` / `Core.restE` follow) -/
def untilClosureSpans (b : Block) : List Span :=
  (Selene.Lints.nodesB b).filterMap fun n => match n with
    | .stmt (.repeat_ _ _ c) =>
      if (Selene.Lints.nodesE c).any (fun m => match m with | .expr (.func _ _ _) => true | _ => false) then some c.span else none
    | _ => none

/-- request `(chunk origin src oracle)`, implementation `((refs vars calls) diags)` or `panic` -/
def handleTables : Handler := fun input impl =>
  match input with
  | .list [schunk, _origin, _src, sor] =>
    match readChunk schunk, readOracle sor with
    | some chunk, some oracle =>
      let σ := analyse chunk.block
      let hasFields := fun n => oracle.hasFields.contains n
      let argObs := fun (p : List String) (i : Nat) => if oracle.writeOnlyArgs.contains (p, i) then some true else some false
      let isMustUse := fun (p : List String) => oracle.mustUsePaths.contains p
      let more := globalUsage false none σ ++ unscopedVariables defaultIgnore hasFields σ
      let mdiags := undefinedVariable hasFields σ ++ unusedVariable hasFields argObs defaultIgnore true σ ++ shadowing defaultIgnore σ ++ mustUse isMustUse σ ++ more
      let spec := Spec.resolve chunk.block
      match impl with
      | .atom "panic" =>
        { agree := σ.panic.isSome, spec := some "[C11] scope analysis / lint pass panicked", model := toString (repr σ.panic), tags := ["panic"] }
      | .list [.list [.list irefs, .list ivars, .list icalls], .list [.list idiags, .list idiagsV1, .list idiagsV2, .list idiagsV3, .list idiagsV4, .list idiagsHcc, .list idiagsV5]] =>
        let mrefs := σ.refs.toList.map (showRef σ)
        let mvars := σ.vars.toList.map (showVar σ)
        let mcalls := σ.calls.toList.map (showCall σ)
        let refsOk := mrefs == irefs.map toString
        let varsOk := mvars == ivars.map toString
        let callsOk := mcalls == icalls.map toString
        let md := sortStrs (mdiags.map showDiag)
        let idk := sortStrs (idiags.filterMap implDiagKey)
        -- the two non-default settings: v1 = ignore_pattern "^x", allow_unused_self = false; v2 = pattern "$^" (matches no name)
        let ignoreV1 := fun (n : String) => n.startsWith "x"
        let ignoreV2 := fun (_ : String) => false
        let mdV1 := sortStrs ((undefinedVariable hasFields σ ++ unusedVariable hasFields argObs ignoreV1 false σ ++ shadowing ignoreV1 σ ++ mustUse isMustUse σ ++ more).map showDiag)
        let mdV2 := sortStrs ((undefinedVariable hasFields σ ++ unusedVariable hasFields argObs ignoreV2 true σ ++ shadowing ignoreV2 σ ++ mustUse isMustUse σ ++ more).map showDiag)
        -- v3 / v4: a `[config.unused_variable]` section that sets only one option; the other keeps its documented default
        let mdV3 := sortStrs ((undefinedVariable hasFields σ ++ unusedVariable hasFields argObs defaultIgnore false σ ++ shadowing defaultIgnore σ ++ mustUse isMustUse σ ++ more).map showDiag)
        let mdV4 := sortStrs ((undefinedVariable hasFields σ ++ unusedVariable hasFields argObs ignoreV1 true σ ++ shadowing defaultIgnore σ ++ mustUse isMustUse σ ++ more).map showDiag)
        -- v5: the end-anchored pattern `^_$` for unused_variable and shadowing: only the bare `_` is ignored
        let ignoreV5 := fun (n : String) => n == "_"
        let mdV5 := sortStrs ((undefinedVariable hasFields σ ++ unusedVariable hasFields argObs ignoreV5 true σ ++ shadowing ignoreV5 σ ++ mustUse isMustUse σ ++ more).map showDiag)
        -- high_cyclomatic_complexity with maximum_complexity = 2: range and message of every report
        let mdHcc := sortStrs ((Selene.Lints.Cyclomatic.lint 2 chunk.block).map fun g => s!"({showSpan g.primary} {g.msg.quote})")
        let idHcc := sortStrs (idiagsHcc.filterMap fun d => match d with
          | .list [_, p, m, _] => some s!"({toString p} {(m.asString?.getD "").quote})"
          | _ => none)
        let hccOk := mdHcc == idHcc
        let diagsOk := hccOk && md == idk && mdV1 == sortStrs (idiagsV1.filterMap implDiagKey) && mdV2 == sortStrs (idiagsV2.filterMap implDiagKey) &&
          mdV3 == sortStrs (idiagsV3.filterMap implDiagKey) && mdV4 == sortStrs (idiagsV4.filterMap implDiagKey) &&
          mdV5 == sortStrs (idiagsV5.filterMap implDiagKey)
        let panicOk := σ.panic.isNone
        -- the resolution core (`Scope/Core.lean`, the machine `Props/C01.lean` proves equal to Lua's resolver):
        -- every read it records, with the local declaration it denotes, against the implementation's read references
        let coreSt := Core.analyse chunk.block
        let coreRefs : List (Nat × Option Nat) := (coreSt.refs.filter fun r => !r.decl && !r.write).map fun r => (r.tok, Core.localBinding r)
        -- … and every declaration it records, with the local declaration it shadows (`Props/C03.lean`), against
        -- `ScopeManager.variables[*].shadowed` (globals the file assigns are no declarations, `...` is of no interest)
        let coreDecls : List (Nat × Option Nat) := @Core.St.shadows Core.NameFilter.all coreSt
        let globalVars : List Nat := ivars.filterMap fun v => match v with
          | .list [_, id, _, _, _, g] => if g.asBool? == some true then id.asNat? else none
          | _ => none
        let implReads : List (Nat × Option Nat) := irefs.filterMap fun r => match r with
          | .list (t :: _n :: res :: rd :: _) => match t.asNat?, rd.asBool? with
            | some t, some true => some (t, match res.asNat? with
                | some d => if globalVars.contains d then none else some d
                | none => none)
            | _, _ => none
          | _ => none
        let implDecls : List (Nat × Option Nat) := ivars.filterMap fun v => match v with
          | .list [n, id, sh, _, _, g] =>
            if g.asBool? == some true || n.asString? == some "..." then none
            else id.asNat?.map fun i => (i, match sh.asNat? with
              | some d => if globalVars.contains d then none else some d
              | none => none)
          | _ => none
        let showAns := fun (l : List (Nat × Option Nat)) => sortStrs (l.map fun (t, b) => s!"{t}->{optNat b}")
        -- … and the lint over the machine's log (`Props/C01.lean`: C01_sound / C01_complete) against the
        -- implementation's `undefined_variable` diagnostics
        let coreUndef := sortStrs (((Core.undefinedReports hasFields coreSt).eraseDups).map toString)
        let implUndef := sortStrs (((idiags.filterMap fun d => match d with
          | .list [.str "undefined_variable", .list [a, _], _, _] => a.asNat?
          | _ => none).eraseDups).map toString)
        -- … and which reads are of the table indexed in an assignment target (`Props/C02.lean`: value uses) against
        -- the implementation's references that are both read and written by extension
        let coreRoots := sortStrs ((coreSt.refs.filter fun r => !r.decl && !r.write && r.root).map fun r => toString r.tok)
        let implRoots := sortStrs (irefs.filterMap fun r => match r with
          | .list (t :: _n :: _res :: rd :: w :: _) =>
            if rd.asBool? == some true && toString w != "none" then t.asNat?.map toString else none
          | _ => none)
        let coreOk := showAns coreRefs == showAns implReads && showAns coreDecls == showAns implDecls && coreUndef == implUndef &&
          coreRoots == implRoots
        -- ---------- specification checks on the implementation's tables / diagnostics ----------
        let declToks := spec.decls.map (·.tok)
        -- implementation's view: token ↦ resolved declaration token (only script declarations count as local bindings)
        let implRes : List (Nat × Option Nat × Bool) := irefs.filterMap fun r => match r with
          | .list (t :: _n :: res :: rd :: _) => match t.asNat?, rd.asBool? with
            | some t, some rd => some (t, res.asNat?, rd)
            | _, _ => none
          | _ => none
        let implBinding := fun (t : Nat) => match implRes.find? (·.1 = t) with
          | some (_, some d, _) => if declToks.contains d then some d else none
          | _ => none
        let implHasRead := fun (t : Nat) => implRes.any fun x => x.1 = t && x.2.2
        let readOccs := spec.occs.filter fun o => o.kind != .target && !(o.name == "..." && !o.inFunction)
        let isStdRoot := fun n => oracle.hasFields.contains n
        -- C01 resolution
        let resBad := readOccs.filter fun o => implBinding o.tok != o.binding.map (·.1)
        let inOwnLoopHeader := fun (o : Spec.Occ) => spec.loopHeaders.any fun (hs, vars) =>
          hs.first ≤ o.tok && o.tok ≤ hs.last && (match implBinding o.tok with | some d => vars.contains d | none => false)
        let c01a := resBad.head?.map fun o =>
          s!"[C01] resolution: `{o.name}` at token {o.tok} denotes {optNat (o.binding.map (·.1))} by Lua's scoping rules, the scope analysis says {optNat (implBinding o.tok)}" ++
          (if inOwnLoopHeader o then " (closure inside the header expressions of the for loop that declares it)" else "")
        let unread := readOccs.filter fun o => !implHasRead o.tok
        let c01r := unread.head?.map fun o => s!"[C01] never-read: the identifier `{o.name}` at token {o.tok} is in an expression position but the scope analysis records no read of it"
        let undefToks : List Nat := idiags.filterMap fun d => match d with
          | .list [.str "undefined_variable", .list [a, _], _, _] => a.asNat?
          | _ => none
        -- the two notions the theorems `C01_sound` / `C01_complete` are stated with: globals assigned in the outermost
        -- block (on the syntax tree) and names some plain-name target assigns as a global (among the resolver's occurrences)
        let topGlobals := TopProof.topGlobals chunk.block
        let assignedGlobals := (spec.occs.filter SpecProof.assignsGlobal).map (·.name)
        let mustNot := fun (o : Spec.Occ) => o.binding.isSome || isStdRoot o.name || topGlobals.contains o.name || (o.name == "..." && !o.inFunction)
        let must := fun (o : Spec.Occ) => o.binding.isNone && !isStdRoot o.name && !assignedGlobals.contains o.name && !(o.name == "..." && !o.inFunction)
        let fp := readOccs.filter fun o => mustNot o && undefToks.contains o.tok
        let c01b := fp.head?.map fun o =>
          s!"[C01] false-positive: undefined_variable reported on `{o.name}` at token {o.tok} ({if o.binding.isSome then "locally bound" else if isStdRoot o.name then "library name" else if o.name == "..." then "main-chunk vararg" else "assigned in the outermost block"})"
        let fn := readOccs.filter fun o => must o && implBinding o.tok == o.binding.map (·.1) && (undefToks.filter (· == o.tok)).length != 1
        let c01c := fn.head?.map fun o =>
          s!"[C01] missed: `{o.name}` at token {o.tok} has no binding, is no library name and is never assigned, but is reported {(undefToks.filter (· == o.tok)).length} times"
        let stray := undefToks.filter fun t => !(spec.occs.any fun o => o.tok == t)
        let c01d := stray.head?.map fun t => s!"[C01] stray: undefined_variable at token {t}, which is not an identifier occurrence"
        -- C02
        let unusedToks : List Nat := idiags.filterMap fun d => match d with
          | .list [.str "unused_variable", .list [a, _], _, _] => a.asNat?
          | _ => none
        let usedDecls := (spec.occs.filter fun o => o.kind == .value).filterMap fun o => o.binding.map (·.1)
        let mentioned := spec.occs.filterMap fun o => o.binding.map (·.1)
        let headerVictims : List Nat := ((spec.occs.filter fun o => implBinding o.tok != o.binding.map (·.1)).filter inOwnLoopHeader).flatMap fun o =>
          (implBinding o.tok).toList ++ (o.binding.map (·.1)).toList
        let victimNote := fun (t : Nat) => if headerVictims.contains t then " (consequence of a closure inside the header of the for loop that declares it)" else ""
        let c02a := (unusedToks.filter fun t => usedDecls.contains t).head?.map fun t =>
          s!"[C02] used-but-reported: the variable declared at token {t} is reported unused although an expression uses its value" ++ victimNote t ++
          (match σ.vars.toList.find? (·.ident = t) with
           | some v =>
             let an := v.references.filterMap fun id => (σ.refs[id]?).map (analyzeRef σ argObs v)
             if v.staticTable.isSome && an.any (fun a => match a with | .observedWrite _ => true | _ => false) && !an.any (· == .read)
             then " (documented `observes: write` analysis: a static-table local whose value uses are all write-only library arguments or single static-key writes)" else ""
           | none => "")
        let countable := spec.decls.filter fun d => d.kind != .self_ && d.kind != .varargParam && !defaultIgnore d.name
        let c02b := (countable.filter fun d => !mentioned.contains d.tok && !unusedToks.contains d.tok).head?.map fun d =>
          s!"[C02] unmentioned-not-reported: `{d.name}` declared at token {d.tok} is never mentioned again but is not reported" ++ victimNote d.tok ++
          (if isStdRoot d.name then " (the name is also a standard-library global)" else "")
        -- C03
        let shadowDiags : List (Nat × Option Nat) := idiags.filterMap fun d => match d with
          | .list [.str "shadowing", .list [a, _], _, .list secs] =>
            a.asNat?.map fun a => (a, match secs with | [.list [s, _]] => s.asNat? | _ => none)
          | _ => none
        let c03a := (shadowDiags.filter fun (t, sec) =>
            match spec.decls.find? (·.tok = t) with
            | some d => match d.visibleSameName with
              | some (v, _) => !d.sameStatement && sec != some v
              | none => true
            | none => true).head?.map fun (t, sec) =>
          s!"[C03] unsound: shadowing reported at token {t} pointing at {optNat sec}, but the visible same-name local binding there is {optNat ((spec.decls.find? (·.tok = t)).bind fun d => d.visibleSameName.map (·.1))}" ++
          (if spec.loopHeaders.any (fun (hs, vars) => hs.first ≤ t && t ≤ hs.last && (match sec with | some x => vars.contains x | none => false))
           then " (declaration inside a closure in the header of the for loop whose variable it is said to shadow)" else "")
        let c03b := (spec.decls.filter fun d => d.visibleSameName.isSome && !d.sameStatement && !defaultIgnore d.name
            && d.name != "..." && d.kind != .self_ && !(shadowDiags.any fun x => x.1 == d.tok)).head?.map fun d =>
          s!"[C03] missed: `{d.name}` declared at token {d.tok} re-uses the name of the visible binding at {optNat (d.visibleSameName.map (·.1))} but is not reported"
        let shadowV2 : List Nat := idiagsV2.filterMap fun d => match d with
          | .list [.str "shadowing", .list [a, _], _, _] => a.asNat?
          | _ => none
        let c03c := (spec.decls.filter fun d => d.visibleSameName.isSome && !d.sameStatement
            && d.name != "..." && d.kind != .self_ && !(shadowV2.contains d.tok)
            && !(spec.loopHeaders.any fun (hs, _) => hs.first ≤ d.tok && d.tok ≤ hs.last)).head?.map fun d =>
          s!"[C03] missed: with an ignore pattern that matches no name, `{d.name}` declared at token {d.tok} re-uses the name of the visible binding at {optNat (d.visibleSameName.map (·.1))} but is not reported"
        let unusedV1 : List Nat := idiagsV1.filterMap fun d => match d with
          | .list [.str "unused_variable", .list [a, _], _, _] => a.asNat?
          | _ => none
        let c02c := ((spec.decls.filter fun d => d.kind != .varargParam && !ignoreV1 d.name).filter fun d =>
            !mentioned.contains d.tok && !unusedV1.contains d.tok && !headerVictims.contains d.tok).head?.map fun d =>
          s!"[C02] unmentioned-not-reported: with ignore_pattern `^x` and allow_unused_self = false, `{d.name}` declared at token {d.tok} is never mentioned again but is not reported"
        let unusedOf := fun (ds : List Sexp) => ds.filterMap fun d => match d with
          | .list [.str "unused_variable", .list [a, _], _, _] => a.asNat?
          | _ => none
        let unusedV3 := unusedOf idiagsV3
        let unusedV4 := unusedOf idiagsV4
        let c02d := ((spec.decls.filter fun d => d.kind != .varargParam && !defaultIgnore d.name).filter fun d =>
            !mentioned.contains d.tok && !unusedV3.contains d.tok && !headerVictims.contains d.tok).head?.map fun d =>
          s!"[C02] unmentioned-not-reported: with only allow_unused_self = false configured (ignore_pattern keeps its default `^_`), `{d.name}` declared at token {d.tok} is never mentioned again but is not reported"
        let c02e := ((spec.decls.filter fun d => d.kind != .varargParam && d.kind != .self_ && !ignoreV1 d.name).filter fun d =>
            !mentioned.contains d.tok && !unusedV4.contains d.tok && !headerVictims.contains d.tok).head?.map fun d =>
          s!"[C02] unmentioned-not-reported: with only ignore_pattern = `^x` configured, `{d.name}` declared at token {d.tok} is never mentioned again but is not reported"
        let unusedV5 := unusedOf idiagsV5
        let c02g := ((spec.decls.filter fun d => d.kind != .varargParam && d.kind != .self_ && d.name != "_").filter fun d =>
            !mentioned.contains d.tok && !unusedV5.contains d.tok && !headerVictims.contains d.tok).head?.map fun d =>
          s!"[C02] unmentioned-not-reported: with ignore_pattern = `^_$` (only the bare `_` may go unused), `{d.name}` declared at token {d.tok} is never mentioned again but is not reported"
        -- the documented `observes: write` analysis (recorded finding of the default configuration) is the same under every section
        let observedOnly := fun (t : Nat) => match σ.vars.toList.find? (·.ident = t) with
          | some v =>
            let an := v.references.filterMap fun id => (σ.refs[id]?).map (analyzeRef σ argObs v)
            v.staticTable.isSome && an.any (fun a => match a with | .observedWrite _ => true | _ => false) && !an.any (· == .read)
          | none => false
        let c02f := ((unusedV3 ++ unusedV4).filter fun t => usedDecls.contains t && !unusedToks.contains t && !observedOnly t).head?.map fun t =>
          s!"[C02] used-but-reported: under a partial unused_variable section the variable declared at token {t} is reported unused although an expression uses its value"
        let items := [c01a, c01r, c01b, c01c, c01d, c02a, c02b, c02c, c02d, c02e, c02f, c02g, c03a, c03b, c03c].filterMap id
        let tags :=
          (if spec.decls.any (fun d => d.visibleSameName.isSome) then ["shadowing-decl"] else []) ++
          (if spec.occs.any (fun o => o.binding.isSome) then ["local-read"] else []) ++
          (if spec.occs.any (fun o => o.binding.isNone && o.kind == .value) then ["global-read"] else []) ++
          (if σ.vars.any (·.hoisted) then ["hoisted-global"] else []) ++
          (if spec.decls.any (fun d => d.kind == .param) then ["params"] else []) ++
          (if spec.decls.any (fun d => d.kind == .self_) then ["method-self"] else []) ++
          (if spec.occs.any (fun o => o.name == "...") then ["vararg"] else []) ++
          (if spec.decls.any (fun d => d.kind == .loopVar) then ["loop-var"] else []) ++
          (if !undefToks.isEmpty then ["undefined-reported"] else []) ++
          (if !unusedToks.isEmpty then ["unused-reported"] else []) ++
          (if !shadowDiags.isEmpty then ["shadowing-reported"] else []) ++
          (if !mdHcc.isEmpty then ["cyclomatic-reported"] else []) ++
          (if !(untilClosureSpans chunk.block).isEmpty then ["until-closure"] else [])
        { agree := refsOk && varsOk && callsOk && diagsOk && panicOk && coreOk,
          spec := if items.isEmpty then none else some (" ;; ".intercalate items),
          model := (if md == idk then "" else "DEFAULT-CONFIG-DIAGS ") ++ (if panicOk then "" else s!"MODEL-PANIC {repr σ.panic} ") ++
                   (if refsOk then "" else s!"REFS model {mrefs} ") ++ (if varsOk then "" else s!"VARS model {mvars} ") ++
                   (if callsOk then "" else s!"CALLS model {mcalls} ") ++
                   (if coreOk then "" else s!"CORE model reads {showAns coreRefs} impl {showAns implReads} decls {showAns coreDecls} impl {showAns implDecls} undefined {coreUndef} impl {implUndef} roots {coreRoots} impl {implRoots} ") ++ (if hccOk then "" else s!"CYCLOMATIC model {mdHcc} impl {idHcc} ") ++ (if diagsOk then "" else s!"DIAGS model {md} impl {idk}"),
          tags }
      | _ => .malformed "tables impl"
    | _, _ => .malformed "tables chunk"
  | _ => .malformed "tables"

def handleStd : Handler := fun _ _ => { agree := true }

def handlers : List (String × Handler) := [("SCOPE.tables", handleTables), ("SCOPE.std", handleStd)]
end Driver.Scope
