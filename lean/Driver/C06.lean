import Driver.Proto
import Selene.Std.Codec
import Selene.Props.C06
namespace Driver.C06
open Selene Selene.Std Selene.Props.C06

def splitKey (k : String) : Path := k.splitOn "."

def toSegMap (m : FieldMap) : SegMap := m.map fun (k, f) => (splitKey k, f)

def toSegLib (l : Lib) : SegLib :=
  { globals := toSegMap l.globals, structs := l.structs.map fun (n, m) => (n, toSegMap m) }

def showLookup : Lookup → String
  | .found f => s!"(found {showField f})"
  | .absent => "absent"
  | .panic _ => "panic"

def readPath (s : Sexp) : Option Path :=
  match s with
  | .list xs => xs.mapM Sexp.asString?
  | _ => none

def lookupTags (l : SegLib) (p : Path) (r : Lookup) : List String :=
  let t0 := match r with | .found _ => "found" | .absent => "absent" | .panic _ => "panic"
  let explicit := (l.globals.get p).isSome
  let t1 := if explicit then ["explicit"] else if r != .absent then ["walked"] else []
  [t0] ++ t1

/-- which walk features a query exercised (coverage tags) -/
partial def walkTags (l : SegLib) (m : SegMap) (p : Path) : Path → List String
  | [] => []
  | s :: rest =>
    match Doc.choose m p s with
    | none => []
    | some s' =>
      let t := if s' == "*" && s != "*" then ["star-fallback"] else []
      let f := Doc.fieldAtPath m (p ++ [s'])
      let t2 := if (m.get (p ++ [s'])).isNone then ["implicit-prefix"] else []
      if rest.isEmpty then t ++ t2 else
      match f.kind with
      | .any => t ++ t2 ++ ["any-shortcut"]
      | .struct n => match getKV l.structs n with
        | some st => t ++ t2 ++ ["struct-switch"] ++ walkTags l st [] rest
        | none => t ++ ["struct-missing"]
      | _ => t ++ t2 ++ walkTags l m (p ++ [s']) rest

def handleFind : Handler := fun input impl =>
  match readLib input, impl with
  | some lib, .list [.list results, .list has] =>
    let l := toSegLib lib
    Id.run do
      let mut agree := true
      let mut spec : Option String := none
      let mut tags : List String := []
      let mut modelOut : List String := []
      for r in results do
        match r with
        | .list [sp, res] =>
          match readPath sp with
          | some p =>
            let m := findGlobal l p
            let d := Doc.lookup l p
            let implS := toString res
            if showLookup m != implS then
              agree := false
              modelOut := modelOut ++ [s!"{sp} model {showLookup m} impl {implS}"]
            if showLookup d != implS && spec.isNone then
              spec := some s!"find_global {sp}: implementation {implS}, documented resolution {showLookup d}"
            tags := tags ++ lookupTags l p m ++ (if (l.globals.get p).isNone then walkTags l l.globals [] p else [])
          | none => agree := false
        | _ => agree := false
      for h in has do
        match h with
        | .list [n, b] =>
          match n.asString?, b.asBool? with
          | some name, some bv =>
            if globalHasFields l name != bv then
              agree := false
              modelOut := modelOut ++ [s!"has_fields {name} model {globalHasFields l name} impl {bv}"]
            if hasPrefix l.globals [name] != bv && spec.isNone then
              spec := some s!"global_has_fields {name}: implementation {bv}, some key starts with it: {hasPrefix l.globals [name]}"
          | _, _ => agree := false
        | _ => agree := false
      return { agree, spec, model := " | ".intercalate modelOut, tags := tags.eraseDups }
  | _, _ => .malformed "find"

def readTarget : Sexp → Option Target
  | .atom "other" => some .other
  | .list [.atom "name", n, r] => do some (.name (← n.asString?) (← r.asBool?))
  | .list [.atom "path", p, r] => do some (.path (← readPath p) (← r.asBool?))
  | _ => none

def showProblem : AccessProblem → String
  | .noField => "noField" | .notWritable => "notWritable" | .notOverridable => "notOverridable"

/-- documentation-level verdict for one target (uses `Doc.lookup`, not the tree) -/
def docTarget (l : SegLib) : Target → List AccessProblem
  | .other => []
  | .name n resolved =>
    if resolved then [] else
    match Doc.lookup l [n] with
    | .found f => if Doc.canOverride f then [] else [.notOverridable]
    | _ => []
  | .path p resolved =>
    if resolved then [] else
    match Doc.lookup l p with
    | .found f => if Doc.canOverride f then [] else [.notWritable]
    | _ => docUndefined l p
where
  docUndefined (l : SegLib) (p : Path) : List AccessProblem :=
    match p with
    | [] => []
    | root :: _ =>
      if !hasPrefix l.globals [root] then [] else
      -- ancestors from the root outward, up to the first undefined one
      let ancestors := (List.range (p.length - 1)).map fun i => p.take (i + 1)
      let defined := ancestors.takeWhile fun a => (Doc.lookup l a).isFound
      if defined.any (fun a => match Doc.lookup l a with | .found f => Doc.acceptsNewFields f | _ => false)
      then [] else [.noField]

def handleAccess : Handler := fun input impl =>
  match input with
  | .list [slib, .list stargets, .list [.atom "read", srp, srr], _src] =>
    match readLib slib, stargets.mapM readTarget, readPath srp, srr.asBool? with
    | some lib, some targets, some rp, some rres =>
      let l := toSegLib lib
      let m := assignmentProblems l targets
      let mread := if rres then [] else invalidFieldAccess l rp
      let mS := "((" ++ " ".intercalate (m.map fun (i, pr) => s!"({i} {showProblem pr})") ++ ") (" ++
                " ".intercalate (mread.map showProblem) ++ "))"
      let d := (targets.zipIdx).flatMap fun (t, i) => (docTarget l t).map fun pr => (i, pr)
      let dread := if rres || (Doc.lookup l rp).isFound then [] else docTarget.docUndefined l rp
      let dS := "((" ++ " ".intercalate (d.map fun (i, pr) => s!"({i} {showProblem pr})") ++ ") (" ++
                " ".intercalate (dread.map showProblem) ++ "))"
      let implS := toString impl
      let tags := (if targets.length ≥ 2 then ["multi-target"] else []) ++
        (if targets.any (fun t => match t with | .name _ true | .path _ true => true | _ => false) then ["resolved-target"] else []) ++
        (m.map fun (_, pr) => showProblem pr) ++ (mread.map fun pr => "read-" ++ showProblem pr) ++
        (if m.isEmpty && mread.isEmpty then ["clean"] else [])
      { agree := mS == implS, spec := if dS == implS then none else some s!"implementation {implS}, documented {dS}",
        model := mS, tags := tags.eraseDups }
    | _, _, _, _ => .malformed "access parts"
  | _ => .malformed "access"

def handlers : List (String × Handler) := [("C06.find", handleFind), ("C06.access", handleAccess)]

end Driver.C06
