import Driver.Proto
import Selene.Std.Codec
import Selene.Props.C16
namespace Driver.C16
open Selene Selene.Std Selene.Props.C16

def allFeatures : List Feature := [.luau, .lua52, .lua53, .lua54, .luajit]

def readDialects : Sexp → Option Dialects
  | .list [.atom "dialects", a, b, c, d, e] => do
    some { luau := ← a.asBool?, lua52 := ← b.asBool?, lua53 := ← c.asBool?, lua54 := ← d.asBool?, luajit := ← e.asBool? }
  | _ => none

def showDialects (d : Dialects) : String :=
  s!"(dialects {d.luau} {d.lua52} {d.lua53} {d.lua54} {d.luajit})"

def readResult : Sexp → Option (Dialects × List String)
  | .list [d, .list errs] => do some (← readDialects d, ← errs.mapM Sexp.asString?)
  | _ => none

def specEnabled (vs : List LuaVersion) (φ : Feature) : Bool :=
  vs.any fun v => match v.dialects with | some d => d.has φ | none => false

def checkUnion (vs : List LuaVersion) (impl : Dialects) : Option String :=
  match allFeatures.find? (fun φ => impl.has φ != specEnabled vs φ) with
  | some φ => some s!"dialect {repr φ}: implementation {impl.has φ}, union of declared versions {specEnabled vs φ}"
  | none => none

def readVersions (s : Sexp) : Option (List LuaVersion) :=
  match s with
  | .list xs => xs.mapM readVersion
  | _ => none

def tagsOf (vs : List LuaVersion) : List String :=
  (if vs.isEmpty then ["none-declared"] else []) ++
  (if vs.length ≥ 2 then ["multi"] else []) ++
  (if vs.any (fun v => v.dialects.isNone) then ["unknown-version"] else [])

def handleVersion : Handler := fun input impl =>
  match readVersions input, readResult impl with
  | some vs, some (d, errs) =>
    let m := luaVersion vs
    { agree := m.1 == d && m.2 == errs, spec := checkUnion vs d,
      model := showDialects m.1 ++ s!" {m.2}", tags := "version" :: tagsOf vs }
  | _, _ => .malformed "version"

def handleBuiltin : Handler := fun input impl =>
  match input.asString?, readResult impl with
  | some name, some (d, errs) =>
    let m := luaVersion (effectiveVersions name)
    let anc := ancestry Selene.Generated.stdFiles.length name
    let bad := anc.find? fun a => !Dialects.subset (namedAfter a) d
    { agree := m.1 == d && m.2 == errs,
      spec := match bad with
        | some a => some s!"built-in {name} does not accept the syntax of {a} (dialects {showDialects d})"
        | none => none,
      model := showDialects m.1, tags := ["builtin", s!"ancestors{anc.length}"] }
  | _, _ => .malformed "builtin"

def handleChain : Handler := fun input impl =>
  match input, readResult impl with
  | .list vss, some (d, errs) =>
    match vss.mapM readVersions with
    | some lists =>
      let libs : List Lib := lists.map fun vs => { luaVersions := vs }
      let eff := Selene.Props.C15.Spec.versions libs
      let m := luaVersion eff
      { agree := m.1 == d && m.2 == errs, spec := checkUnion eff d,
        model := showDialects m.1, tags := ["chain", s!"len{lists.length}"] ++ tagsOf eff }
    | none => .malformed "chain versions"
  | _, _ => .malformed "chain"

def readConstruct : String → Option Construct
  | "goto_" => some .goto_ | "label" => some .label | "intDiv" => some .intDiv
  | "bitwise" => some .bitwise | "attrib" => some .attrib | "luauType" => some .luauType
  | "compoundAssign" => some .compoundAssign | "interpString" => some .interpString
  | "continue_" => some .continue_ | "luajitLiteral" => some .luajitLiteral
  | "plain51" => some .plain51 | "luauIfExpr" => some .luauIfExpr
  | "floorDivAssign" => some .floorDivAssign
  | _ => none

def handleAccept : Handler := fun input impl =>
  match input, impl.asString? with
  | .list [svs, .atom kind, .str src], some outcome =>
    match readVersions svs, readConstruct kind with
    | some vs, some c =>
      let m := accepts (luaVersion vs).1 c
      let declared := c.enabledBy.isEmpty || c.enabledBy.any (specEnabled vs)
      { agree := (outcome == "accepted") == m,
        spec :=
          if outcome == "panic" then some s!"parser panicked (neither accepted nor reported as a parse error) on {kind} under {svs}: {src.quote}"
          else if outcome == "accepted" && !declared then some s!"{kind} accepted although no declared dialect enables it ({svs})"
          else if outcome == "rejected" && declared then some s!"{kind} rejected although a declared dialect enables it ({svs})"
          else none,
        model := toString m, tags := ["accept", kind, if m then "on" else "off"] }
    | _, _ => .malformed "accept parts"
  | _, _ => .malformed "accept"

def handlers : List (String × Handler) :=
  [("C16.version", handleVersion), ("C16.builtin", handleBuiltin), ("C16.chain", handleChain),
   ("C16.accept", handleAccept)]

end Driver.C16
