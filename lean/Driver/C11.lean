import Driver.Proto
import Selene.Props.C11
namespace Driver.C11
open Selene Selene.Std

/-- request `(origin library kind src)`, implementation: the list of totality / well-formedness problems observed -/
def handleTotal : Handler := fun input impl =>
  match input, impl with
  | .list [_, _, kind, _], .list problems =>
    let ps := problems.filterMap Sexp.asString?
    { agree := true, spec := match ps with | [] => none | p :: _ => some s!"[C11] {p}",
      tags := [kind.asString?.getD ""] }
  | _, _ => .malformed "total"

def handleTry : Handler := fun input impl =>
  match input with
  | .list [.list fs, .list ps] =>
    match fs.mapM Sexp.asString?, ps.mapM Sexp.asString? with
    | some formats, some params =>
      let m := tryInstead formats params.toArray
      let mS := match m with | some s => s!"(some {s.quote})" | none => "none"
      let implS := toString impl
      { agree := mS == implS,
        spec := if implS == "panic" then some s!"[C11] Deprecated::try_instead panicked on formats {formats} with {params.length} parameters" else none,
        model := mS,
        tags := ["try_instead"] ++ (if formats.any (fun f => (f.splitOn "%0").length > 1) then ["percent-zero"] else []) ++
                (if m.isSome then ["applies"] else ["no-format-applies"]) }
    | _, _ => .malformed "try parts"
  | _ => .malformed "try"

def handlers : List (String × Handler) := [("C11.total", handleTotal), ("C11.try_instead", handleTry)]
end Driver.C11
