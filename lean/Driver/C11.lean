import Driver.Proto
import Selene.Props.C11
namespace Driver.C11
open Selene Selene.Std

/-- request `(origin library kind src)`, implementation: the list of totality / well-formedness problems observed -/
def handleTotal : Handler := fun input impl =>
  match input, impl with
  | .list [_, _, kind, _], .list problems =>
    let ps := problems.filterMap Sexp.asString?
    { agree := true, spec := match ps with | [] => none | p :: _ => some s!"[C11] {p}",
      tags := [kind.asString?.getD ""] }
  | _, _ => .malformed "total"

def handleTry : Handler := fun input impl =>
  match input with
  | .list [.list fs, .list ps] =>
    match fs.mapM Sexp.asString?, ps.mapM Sexp.asString? with
    | some formats, some params =>
      let m := tryInstead formats params.toArray
      let mS := match m with | some s => s!"(some {s.quote})" | none => "none"
      let implS := toString impl
      { agree := mS == implS,
        spec := if implS == "panic" then some s!"[C11] Deprecated::try_instead panicked on formats {formats} with {params.length} parameters" else none,
        model := mS,
        tags := ["try_instead"] ++ (if formats.any (fun f => (f.splitOn "%0").length > 1) then ["percent-zero"] else []) ++
                (if m.isSome then ["applies"] else ["no-format-applies"]) }
    | _, _ => .malformed "try parts"
  | _ => .malformed "try"

/-- request `((name superclass (events…) (properties…))… ) start (queries…)`, implementation `(bool…)` — `has_property`
    for queries tagged `p`, `has_event` for `e` -/
def handleClass : Handler := fun input impl =>
  match input with
  | .list [.list scs, sstart, .list sqs] =>
    let cs : Option Roblox.Classes := scs.mapM fun c => match c with
      | .list [n, sup, .list evs, .list props] => do
        some (← n.asString?, { superclass := ← sup.asString?, events := ← evs.mapM Sexp.asString?, properties := ← props.mapM Sexp.asString? })
      | _ => none
    let qs : Option (List (Bool × String)) := sqs.mapM fun q => match q with
      | .list [.atom "p", x] => do some (true, ← x.asString?)
      | .list [.atom "e", x] => do some (false, ← x.asString?)
      | _ => none
    match cs, sstart.asString?, qs with
    | some cs, some start, some qs =>
      match Roblox.get cs start with
      | none => .malformed "class start"
      | some c =>
        let m := qs.map fun (isProp, x) => if isProp then Roblox.hasProperty cs c x else Roblox.hasEvent cs c x
        let mS := "(" ++ " ".intercalate (m.map fun b => if b then "true" else "false") ++ ")"
        let cyclic := (Roblox.ancestry cs (cs.length + 1) c).length == cs.length + 1
        { agree := mS == toString impl,
          spec := if toString impl == "panic" then some "[C11] RobloxClass::has_property / has_event panicked" else none,
          model := mS, tags := ["class-walk"] ++ (if cyclic then ["cyclic"] else ["acyclic"]) }
    | _, _, _ => .malformed "class parts"
  | _ => .malformed "class"

def handlers : List (String × Handler) :=
  [("C11.total", handleTotal), ("C11.try_instead", handleTry), ("C11.class", handleClass)]
end Driver.C11
