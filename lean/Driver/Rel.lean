import Driver.Proto
namespace Driver.Rel
open Selene

/-- twin runs: request `(origin src twin)`, implementation `(sameTokenCount diagsBase diagsTwin)`;
    diagnostics are canonical strings in token space (renamed names mapped back) -/
def handleTwin (what : String) : Handler := fun _input impl =>
  match impl with
  | .atom "twin-panicked" =>
    { agree := false, spec := some s!"[{what}] linting the twin panicked while the original did not", model := "" }
  | .list [same, .list a, .list b] =>
    let la := a.filterMap Sexp.asString?
    let lb := b.filterMap Sexp.asString?
    let onlyA := la.filter fun x => !lb.contains x
    let onlyB := lb.filter fun x => !la.contains x
    let sameTok := same.asBool?.getD false
    let tags := (if la.isEmpty then ["no-diagnostics"] else ["diagnostics"]) ++
      (la.filterMap fun s => (s.splitOn "|").head?).eraseDups
    if !sameTok then { agree := false, spec := none, model := "twin generator changed the token sequence", tags }
    else if la.length == lb.length && onlyA.isEmpty && onlyB.isEmpty then { agree := true, tags }
    else
      { agree := true,
        spec := some (s!"[{what}] diagnostics differ between the program and its twin: only in the original {onlyA.take 2}, only in the twin {onlyB.take 2}"),
        tags }
  | _ => .malformed "twin"

def handlers : List (String × Handler) :=
  [("REL.c13", handleTwin "C13"), ("REL.c14", handleTwin "C14")]
end Driver.Rel
