import Driver.Proto
namespace Driver.Rel
open Selene

/-- twin runs: request `(origin src twin)`, implementation `(sameTokenCount diagsBase diagsTwin)`;
    diagnostics are canonical strings in token space (renamed names mapped back) -/
def handleTwin (what : String) : Handler := fun _input impl =>
  match impl with
  | .atom "twin-panicked" =>
    { agree := false, spec := some s!"[{what}] linting the twin panicked while the original did not", model := "" }
  | .list [same, .list a, .list b] =>
    let la := a.filterMap Sexp.asString?
    let lb := b.filterMap Sexp.asString?
    let onlyA := la.filter fun x => !lb.contains x
    let onlyB := lb.filter fun x => !la.contains x
    let sameTok := same.asBool?.getD false
    let tags := (if la.isEmpty then ["no-diagnostics"] else ["diagnostics"]) ++
      (la.filterMap fun s => (s.splitOn "|").head?).eraseDups
    if !sameTok then { agree := false, spec := none, model := "twin generator changed the token sequence", tags }
    else if la.length == lb.length && onlyA.isEmpty && onlyB.isEmpty then { agree := true, tags }
    else
      { agree := true,
        spec := some (s!"[{what}] diagnostics differ between the program and its twin: only in the original {onlyA.take 2}, only in the twin {onlyB.take 2}"),
        tags }
  | _ => .malformed "twin"

/-- C07: request `(root use what binding insideProgram outsideProgram)`,
    implementation `(control inside outside outsideTwin before beforeTwin)` — lists of library-lint diagnostics in token space -/
def handleGate : Handler := fun input impl =>
  match input, impl with
  | .list [root, use_, what, binding, _, _], .list [control, inside, outside, outsideTwin, before, beforeTwin] =>
    let strs := fun (s : Sexp) => match s with | .list xs => some (xs.filterMap Sexp.asString?) | _ => none
    match strs control, strs inside, strs outside, strs outsideTwin, strs before, strs beforeTwin with
    | some c, some i, some o, some ot, some b, some bt =>
      let r := root.asString?.getD ""
      let u := use_.asString?.getD ""
      let bn := binding.asString?.getD ""
      let spec :=
        if !i.isEmpty then some s!"[C07] inside: `{u}` inside the scope of a `{bn}` binding of `{r}` is linted as the library's: {i.take 2}"
        else if o != ot then some s!"[C07] outside-after: `{u}` after the scope of a `{bn}` binding of `{r}` is linted differently from the twin whose binding has a fresh name: {o.take 2} vs {ot.take 2}"
        else if b != bt then some s!"[C07] outside-before: `{u}` before a `{bn}` binding of `{r}` is linted differently from the twin whose binding has a fresh name: {b.take 2} vs {bt.take 2}"
        else none
      { agree := true, spec,
        tags := [bn, what.asString?.getD ""] ++ (if c.isEmpty then ["control-silent"] else ["control-fires"]) ++
                (c.filterMap fun s => (s.splitOn "|").head?).eraseDups }
    | _, _, _, _, _, _ => { agree := false, spec := some "[C07] linting one of the gate programs panicked or did not parse", model := "" }
  | _, _ => .malformed "gate"

def handlers : List (String × Handler) :=
  [("REL.c13", handleTwin "C13"), ("REL.c14", handleTwin "C14"), ("C07.gate", handleGate)]
end Driver.Rel
