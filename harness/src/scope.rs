//! C01 / C02 / C03 / C07 / C14: scope tables and the lints built on them.
use crate::astdump;
use crate::luagen;
use crate::rng::Rng;
use crate::sx::*;
use crate::{Args, Out};
use selene_lib::lints::AstContext;
use selene_lib::standard_library::StandardLibrary;
use selene_lib::{Checker, CheckerConfig};

pub fn tables_sx(ast: &full_moon::ast::Ast, d: &astdump::Dumper) -> Sx {
    let ctx = AstContext::from_ast(ast);
    let sm = &ctx.scope_manager;
    let tokidx = |range: (usize, usize)| -> Sx {
        match d.idx_of_start(range.0) {
            Some(i) => num(i),
            None => atom("none"),
        }
    };
    let refs: Vec<Sx> = sm
        .references
        .iter()
        .map(|(_, r)| {
            let resolved = match r.resolved {
                Some(v) => {
                    let var = &sm.variables[v];
                    tokidx(var.identifiers[0])
                }
                None => atom("none"),
            };
            list(vec![
                tokidx(r.identifier),
                st(&r.name),
                resolved,
                boolean(r.read),
                atom(match format!("{:?}", r.write).as_str() {
                    "None" => "none",
                    "Some(Assign)" => "assign",
                    "Some(Extend)" => "extend",
                    _ => "other",
                }),
                match &r.within_function_stmt {
                    Some(w) => num(w.argument_index),
                    None => atom("none"),
                },
                match &r.indexing {
                    Some(ix) => list(ix.iter().map(|e| boolean(e.static_name.is_some())).collect()),
                    None => atom("none"),
                },
            ])
        })
        .collect();
    let vars: Vec<Sx> = sm
        .variables
        .iter()
        .map(|(_, v)| {
            list(vec![
                st(&v.name),
                tokidx(v.identifiers[0]),
                match v.shadowed {
                    Some(s) => tokidx(sm.variables[s].identifiers[0]),
                    None => atom("none"),
                },
                boolean(v.is_self),
                num(v.references.len()),
                boolean(v.is_global),
            ])
        })
        .collect();
    let calls: Vec<Sx> = sm
        .function_calls
        .iter()
        .map(|(_, c)| list(vec![list(c.call_name_path.iter().map(st).collect()), tokidx(sm.references[c.initial_reference].identifier)]))
        .collect();
    list(vec![list(refs), list(vars), list(calls)])
}

fn span_sx(d: &astdump::Dumper, range: (u32, u32)) -> Sx {
    match (d.by_start.get(&(range.0 as usize)), d.by_end.get(&(range.1 as usize))) {
        (Some(a), Some(b)) => list(vec![num(*a), num(*b)]),
        _ => list(vec![atom("byte"), num(range.0), num(range.1)]),
    }
}

pub fn lint_diags_sx(checker: &Checker<toml::value::Value>, ast: &full_moon::ast::Ast, d: &astdump::Dumper, codes: &[&str]) -> Sx {
    let diags = checker.verif_test_on_unfiltered(ast);
    let mut v: Vec<(u32, u32, String, Sx)> = Vec::new();
    for x in diags.iter().filter(|x| codes.contains(&x.diagnostic.code)) {
        let secondary: Vec<Sx> = x.diagnostic.secondary_labels.iter().map(|l| span_sx(d, l.range)).collect();
        v.push((
            x.diagnostic.primary_label.range.0,
            x.diagnostic.primary_label.range.1,
            x.diagnostic.code.to_owned(),
            list(vec![st(x.diagnostic.code), span_sx(d, x.diagnostic.primary_label.range), st(&x.diagnostic.message), list(secondary)]),
        ));
    }
    v.sort_by(|a, b| (a.0, a.1, &a.2).cmp(&(b.0, b.1, &b.2)));
    list(v.into_iter().map(|x| x.3).collect())
}

/// what the lints ask the standard library, precomputed for every name / call path of the program
pub fn oracle_sx(ast: &full_moon::ast::Ast, std: &StandardLibrary) -> Sx {
    let ctx = AstContext::from_ast(ast);
    let sm = &ctx.scope_manager;
    let mut names: Vec<String> = sm.references.iter().map(|(_, r)| r.name.clone()).collect();
    names.extend(sm.variables.iter().map(|(_, v)| v.name.clone()));
    names.sort();
    names.dedup();
    let has: Vec<Sx> = names.iter().filter(|n| std.global_has_fields(n)).map(st).collect();
    let mut wo: Vec<Sx> = Vec::new();
    let mut mu: Vec<Sx> = Vec::new();
    for (_, c) in sm.function_calls.iter() {
        if let Some(selene_lib::standard_library::Field {
            field_kind: selene_lib::standard_library::FieldKind::Function(f),
            ..
        }) = std.find_global(&c.call_name_path)
        {
            for (i, a) in f.arguments.iter().enumerate() {
                if a.observes == selene_lib::standard_library::Observes::Write {
                    wo.push(list(vec![list(c.call_name_path.iter().map(st).collect()), num(i)]));
                }
            }
            if f.must_use {
                mu.push(list(c.call_name_path.iter().map(st).collect()));
            }
        }
    }
    list(vec![list(has), list(wo), list(mu)])
}

pub fn programs(args: &Args, out: &mut Out, rng: &mut Rng, corpus_dir: &str) -> Vec<(String, String)> {
    let mut programs: Vec<(String, String)> = Vec::new();
    // one-program mode (the check's shrinker): only the given file
    if let Ok(path) = std::env::var("VERIF_ONLY_PROGRAM") {
        if let Ok(s) = std::fs::read_to_string(&path) {
            return vec![("shrink:candidate".to_owned(), s)];
        }
    }
    if let Ok(rd) = std::fs::read_dir(corpus_dir) {
        let mut paths: Vec<_> = rd.filter_map(|e| e.ok()).map(|e| e.path()).collect();
        paths.sort();
        for p in paths {
            if let Ok(s) = std::fs::read_to_string(&p) {
                programs.push((format!("corpus:{}", p.display()), s));
                out.bump("corpus");
            }
        }
    }
    for p in luagen::fixture_files() {
        if let Ok(s) = std::fs::read_to_string(&p) {
            programs.push((format!("fixture:{}", p.display()), s));
            out.bump("fixture");
        }
    }
    for i in 0..args.n {
        let (budget, depth) = [(8, 2), (20, 3), (40, 5)][i % 3];
        let (src, stats) = luagen::gen_program(rng, budget, depth);
        for (k, v) in stats {
            out.add(&format!("stmt_{k}"), v);
        }
        programs.push((format!("gen:{i}"), src));
    }
    programs
}

pub fn run(args: &Args, out: &mut Out) {
    let mut rng = Rng::new(args.seed);
    let std51 = StandardLibrary::from_name("lua51").unwrap();
    let checker: Checker<toml::value::Value> = Checker::new(CheckerConfig::default(), std51.clone()).unwrap();
    // non-default `ignore_pattern` / `allow_unused_self` settings (the protocol names them v1, v2)
    let variant = |pattern: &str, aus: bool| -> Checker<toml::value::Value> {
        let mut config: std::collections::HashMap<String, toml::value::Value> = std::collections::HashMap::new();
        let mut t = toml::value::Table::new();
        t.insert("ignore_pattern".to_owned(), toml::value::Value::String(pattern.to_owned()));
        config.insert("shadowing".to_owned(), toml::value::Value::Table(t.clone()));
        t.insert("allow_unused_self".to_owned(), toml::value::Value::Boolean(aus));
        config.insert("unused_variable".to_owned(), toml::value::Value::Table(t));
        Checker::new(CheckerConfig { config, ..CheckerConfig::default() }, std51.clone()).unwrap()
    };
    let checker_v1 = variant("^x", false);
    let checker_v2 = variant("$^", true);
    // sections that set only ONE of the two options of unused_variable: the other keeps its documented default
    // (`ignore_pattern = "^_"`, `allow_unused_self = true`)
    let partial = |pattern: Option<&str>, aus: Option<bool>| -> Checker<toml::value::Value> {
        let mut config: std::collections::HashMap<String, toml::value::Value> = std::collections::HashMap::new();
        let mut t = toml::value::Table::new();
        if let Some(p) = pattern {
            t.insert("ignore_pattern".to_owned(), toml::value::Value::String(p.to_owned()));
        }
        if let Some(a) = aus {
            t.insert("allow_unused_self".to_owned(), toml::value::Value::Boolean(a));
        }
        config.insert("unused_variable".to_owned(), toml::value::Value::Table(t));
        Checker::new(CheckerConfig { config, ..CheckerConfig::default() }, std51.clone()).unwrap()
    };
    // high_cyclomatic_complexity with a low threshold (the lint is off by default; unfiltered diagnostics include it)
    let checker_hcc: Checker<toml::value::Value> = {
        let mut config: std::collections::HashMap<String, toml::value::Value> = std::collections::HashMap::new();
        let mut t = toml::value::Table::new();
        t.insert("maximum_complexity".to_owned(), toml::value::Value::Integer(2));
        config.insert("high_cyclomatic_complexity".to_owned(), toml::value::Value::Table(t));
        Checker::new(CheckerConfig { config, ..CheckerConfig::default() }, std51.clone()).unwrap()
    };
    // an end-anchored pattern: only the bare `_` may go unused / shadow; `_x`, `__`, `_1` are ordinary names (v5)
    let checker_v5 = variant("^_$", true);
    let checker_v3 = partial(None, Some(false));
    let checker_v4 = partial(Some("^x"), None);
    let std_sx = crate::libgen::lib_sx(&std51);
    out.case("SCOPE.std", &std_sx, &atom("ok"));
    for (origin, src) in programs(args, out, &mut rng, "/verif/corpus/scope") {
        let ast = match full_moon::parse(&src) {
            Ok(a) => a,
            Err(_) => {
                out.bump("does_not_parse_as_lua51");
                continue;
            }
        };
        let (chunk, supported, d) = astdump::dump(&ast);
        if !supported {
            out.bump("unsupported_syntax");
            continue;
        }
        let result = std::panic::catch_unwind(std::panic::AssertUnwindSafe(|| {
            let codes = ["undefined_variable", "unused_variable", "shadowing", "must_use", "global_usage", "unscoped_variables"];
            (
                tables_sx(&ast, &d),
                list(vec![
                    lint_diags_sx(&checker, &ast, &d, &codes),
                    lint_diags_sx(&checker_v1, &ast, &d, &codes),
                    lint_diags_sx(&checker_v2, &ast, &d, &codes),
                    lint_diags_sx(&checker_v3, &ast, &d, &codes),
                    lint_diags_sx(&checker_v4, &ast, &d, &codes),
                    lint_diags_sx(&checker_hcc, &ast, &d, &["high_cyclomatic_complexity"]),
                    lint_diags_sx(&checker_v5, &ast, &d, &codes),
                ]),
            )
        }));
        match result {
            Ok((tables, diags)) => {
                let oracle = oracle_sx(&ast, &std51);
                out.case("SCOPE.tables", &list(vec![chunk, st(&origin), st(&src), oracle]), &list(vec![tables, diags]))
            }
            Err(_) => out.case("SCOPE.tables", &list(vec![chunk, st(&origin), st(&src), list(vec![list(vec![]), list(vec![]), list(vec![])])]), &atom("panic")),
        }
    }
}
