//! Grammar-directed generator of Lua 5.1 programs over a small reused name pool (so that
//! shadowing, re-declaration and capture are frequent).
use crate::rng::Rng;

pub struct LuaGen<'a> {
    pub r: &'a mut Rng,
    pub names: Vec<&'static str>,
    pub globals: Vec<&'static str>,
    pub max_depth: usize,
    pub budget: usize,
    pub in_function: usize,
    pub vararg_ok: Vec<bool>,
    pub stats: std::collections::BTreeMap<String, u64>,
}

impl<'a> LuaGen<'a> {
    pub fn new(r: &'a mut Rng) -> Self {
        LuaGen {
            r,
            names: vec!["a", "b", "c", "d", "x"],
            globals: vec!["print", "math", "string", "G"],
            max_depth: 5,
            budget: 30,
            in_function: 0,
            vararg_ok: vec![true],
            stats: Default::default(),
        }
    }
    fn bump(&mut self, k: &str) {
        *self.stats.entry(k.to_owned()).or_insert(0) += 1;
    }
    fn name(&mut self) -> String {
        if self.r.chance(1, 6) {
            (*self.r.pick(&self.globals)).to_owned()
        } else {
            (*self.r.pick(&self.names)).to_owned()
        }
    }
    fn local_name(&mut self) -> String {
        (*self.r.pick(&self.names)).to_owned()
    }
    pub fn expr(&mut self, depth: usize) -> String {
        let k = if depth == 0 { self.r.below(7) } else { self.r.below(16) };
        match k {
            0 | 1 | 2 => self.name(),
            3 => self.r.below(100).to_string(),
            4 => (*self.r.pick(&["nil", "true", "false", "\"s\"", "'t'", "[[u]]", "0x10", "1.5", "1e2"])).to_owned(),
            5 => {
                if *self.vararg_ok.last().unwrap() || self.r.chance(1, 5) {
                    "...".to_owned()
                } else {
                    self.name()
                }
            }
            6 => format!("{}.{}", self.name(), self.r.pick(&["f", "g", "x"])),
            7 | 8 => {
                let op = *self.r.pick(&["+", "-", "*", "/", "..", "==", "~=", "<", "and", "or", "%", "^"]);
                format!("{} {} {}", self.expr(depth - 1), op, self.expr(depth - 1))
            }
            9 => format!("{}{}", self.r.pick(&["-", "not ", "#"]), self.expr(depth - 1)),
            10 => format!("({})", self.expr(depth - 1)),
            11 => {
                let n = self.r.below(3);
                let args: Vec<String> = (0..n).map(|_| self.expr(depth - 1)).collect();
                let callee = if self.r.chance(1, 4) {
                    format!("{}.{}", self.name(), self.r.pick(&["f", "g"]))
                } else if self.r.chance(1, 5) {
                    format!("{}:{}", self.name(), self.r.pick(&["m", "n"]))
                } else {
                    self.name()
                };
                format!("{}({})", callee, args.join(", "))
            }
            12 => format!("{}[{}]", self.name(), self.expr(depth - 1)),
            13 => {
                let n = self.r.below(3);
                let fields: Vec<String> = (0..n)
                    .map(|_| match self.r.below(3) {
                        0 => self.expr(depth - 1),
                        1 => format!("{} = {}", self.r.pick(&["k", "v", "x"]), self.expr(depth - 1)),
                        _ => format!("[{}] = {}", self.expr(depth - 1), self.expr(depth - 1)),
                    })
                    .collect();
                format!("{{{}}}", fields.join(", "))
            }
            14 => self.function_expr(depth),
            _ => self.name(),
        }
    }
    fn params(&mut self) -> (String, bool) {
        let n = self.r.below(3);
        let mut ps: Vec<String> = (0..n).map(|_| self.local_name()).collect();
        let va = self.r.chance(1, 4);
        if va {
            ps.push("...".to_owned());
        }
        // one list in five is laid out so that the parameter tokens carry trivia of their own: padding inside the parentheses,
        // a comment after a name, one parameter per line (a name is its token, never the blanks and comments around it)
        if !ps.is_empty() && self.r.chance(1, 5) {
            self.bump("params_with_trivia");
            return match self.r.below(4) {
                0 => (format!(" {} ", ps.join(" , ")), va),
                1 => (ps.iter().map(|p| format!("{p} --[[ p ]]")).collect::<Vec<_>>().join(", "), va),
                2 => (format!("\n    {}\n", ps.join(",\n    ")), va),
                _ => (format!("--[[ first ]] {}", ps.join(", --[[ next ]] ")), va),
            };
        }
        (ps.join(", "), va)
    }
    fn function_expr(&mut self, depth: usize) -> String {
        self.bump("function_expr");
        let (ps, va) = self.params();
        self.vararg_ok.push(va);
        self.in_function += 1;
        let body = self.block(depth.saturating_sub(1), 1);
        self.in_function -= 1;
        self.vararg_ok.pop();
        format!("function({})\n{}end", ps, body)
    }
    fn indent(n: usize) -> String {
        "  ".repeat(n)
    }
    pub fn block(&mut self, depth: usize, ind: usize) -> String {
        let mut out = String::new();
        let n = self.r.below(4);
        for _ in 0..n {
            if self.budget == 0 {
                break;
            }
            self.budget -= 1;
            out.push_str(&self.stmt(depth, ind));
        }
        if self.r.chance(1, 6) {
            out.push_str(&Self::indent(ind));
            if self.r.chance(1, 4) && self.in_function == 0 {
                out.push_str("return\n");
            } else {
                let n = self.r.below(3);
                let es: Vec<String> = (0..n).map(|_| self.expr(2)).collect();
                out.push_str(&format!("return {}\n", es.join(", ")));
            }
        }
        out
    }
    /// a static-table local handed to library calls at varying argument positions (the `observes: write`
    /// analysis of unused_variable / `process_function_call_finish` looks at the position of each argument; the last three
    /// callees declare no parameter at all, so every position is past the end of the declared list)
    fn static_table_stmts(&mut self, i: &str) -> String {
        self.bump("static_table_call");
        let n = self.local_name();
        let ctor = *self.r.pick(&["{}", "{ 1, 2 }", "{ x = 1 }"]);
        let mut out = format!("{i}local {n} = {ctor}\n");
        let calls = 1 + self.r.below(2);
        for _ in 0..calls {
            let callee = *self.r.pick(&["table.insert", "table.insert", "table.remove", "table.sort", "rawset", "print", "G.f", "os.clock", "io.flush", "coroutine.running"]);
            let argc = 1 + self.r.below(3);
            let pos = self.r.below(argc);
            let args: Vec<String> = (0..argc)
                .map(|k| {
                    if k == pos {
                        n.clone()
                    } else {
                        match self.r.below(5) {
                            0 => self.name(),
                            1 => format!("{}.{}", self.name(), self.r.pick(&["f", "items"])),
                            2 => "1".to_owned(),
                            3 => format!("{}()", self.name()),
                            _ => "\"s\"".to_owned(),
                        }
                    }
                })
                .collect();
            out.push_str(&format!("{i}{callee}({})\n", args.join(", ")));
        }
        if self.r.chance(1, 4) {
            out.push_str(&format!("{i}print({n})\n"));
        }
        out
    }
    pub fn stmt(&mut self, depth: usize, ind: usize) -> String {
        let i = Self::indent(ind);
        if self.r.chance(1, 14) {
            return self.static_table_stmts(&i);
        }
        if depth > 0 && self.r.chance(1, 22) {
            // a control header that holds a function literal with a statement of its own, followed IN THE SAME HEADER by a
            // call / index / argument naming a global that nothing defines: it is read while the header is walked, once
            self.bump("header_closure_then_undefined");
            let u = format!("undefined_h{}", self.r.below(4));
            let lam = format!("(function({}) local {} = {} end)", self.local_name(), self.local_name(), self.expr(1));
            let tail = match self.r.below(4) {
                0 => format!("{u}(1)"),
                1 => format!("{}[{u}]", self.name()),
                2 => format!("{}({u})", self.name()),
                _ => format!("{u}.f({u})"),
            };
            let body = self.block(depth - 1, ind + 1);
            return match self.r.below(5) {
                0 => format!("{i}if {lam} and {tail} then\n{body}{i}end\n"),
                1 => format!("{i}while {lam} == {tail} do\n{body}{i}  break\n{i}end\n"),
                2 => format!("{i}for {} = 1, {lam}, {tail} do\n{body}{i}end\n", self.local_name()),
                3 => format!("{i}for {} in {lam}, {tail} do\n{body}{i}end\n", self.local_name()),
                _ => format!("{i}if {} then\n{i}elseif {lam} or {tail} then\n{body}{i}end\n", self.name()),
            };
        }
        let k = if depth == 0 { self.r.below(8) } else { self.r.below(20) };
        match k {
            0 | 1 | 2 => {
                self.bump("local");
                let n = 1 + self.r.below(2) + if self.r.chance(1, 5) { 1 } else { 0 };
                let names: Vec<String> = (0..n).map(|_| self.local_name()).collect();
                let m = if self.r.chance(1, 6) { 0 } else { 1 + self.r.below(n + 1) };
                if m == 0 {
                    format!("{i}local {}\n", names.join(", "))
                } else {
                    let es: Vec<String> = (0..m).map(|_| self.expr(2)).collect();
                    format!("{i}local {} = {}\n", names.join(", "), es.join(", "))
                }
            }
            3 | 4 => {
                self.bump("assign");
                let n = 1 + self.r.below(2);
                let vars: Vec<String> = (0..n)
                    .map(|_| match self.r.below(5) {
                        0 => format!("{}.{}", self.name(), self.r.pick(&["f", "x"])),
                        1 => format!("{}[{}]", self.name(), self.expr(1)),
                        2 => format!("{}.{}.{}", self.name(), self.r.pick(&["f", "x"]), self.r.pick(&["g", "y"])),
                        _ => self.name(),
                    })
                    .collect();
                let m = 1 + self.r.below(n + 1);
                let es: Vec<String> = (0..m).map(|_| self.expr(2)).collect();
                format!("{i}{} = {}\n", vars.join(", "), es.join(", "))
            }
            5 | 6 => {
                self.bump("call");
                let n = self.r.below(3);
                let args: Vec<String> = (0..n).map(|_| self.expr(2)).collect();
                let callee = match self.r.below(7) {
                    0 => format!("{}.{}", self.name(), self.r.pick(&["f", "insert"])),
                    1 => format!("{}:{}", self.name(), self.r.pick(&["m", "n"])),
                    // a parenthesised prefix: `(f)(x)`, `(t.f)(x)`, `(t):m(x)`, `(f or g)(x)`
                    2 => match self.r.below(4) {
                        0 => format!("({})", self.name()),
                        1 => format!("({}.{})", self.name(), self.r.pick(&["f", "g"])),
                        2 => format!("({}):{}", self.name(), self.r.pick(&["m", "n"])),
                        _ => format!("({} or {})", self.name(), self.name()),
                    },
                    _ => self.name(),
                };
                // a statement that begins with `(` would continue the previous line (`a = b` / `(f)(x)`): it gets a block of its own
                let (open, close) = if callee.starts_with('(') { ("do ", " end") } else { ("", "") };
                match self.r.below(8) {
                    0 => format!("{i}{open}{callee} \"str\"{close}\n"),
                    1 => format!("{i}{open}{callee} {{ {} }}{close}\n", args.join(", ")),
                    _ => format!("{i}{open}{callee}({}){close}\n", args.join(", ")),
                }
            }
            7 => format!("{i}local {}\n", self.local_name()),
            8 => {
                self.bump("do");
                format!("{i}do\n{}{i}end\n", self.block(depth - 1, ind + 1))
            }
            9 => {
                self.bump("while");
                format!("{i}while {} do\n{}{i}end\n", self.expr(2), self.block(depth - 1, ind + 1))
            }
            10 => {
                self.bump("repeat");
                let b = self.block(depth - 1, ind + 1);
                // a `return` inside repeat must be last before `until`: block() guarantees that
                // the condition is evaluated inside the body's scope: one time in four it is (or contains) a function literal
                // called on the spot, whose parameters and locals come from the same small name pool as the body's
                let cond = if self.r.chance(1, 4) {
                    self.bump("until_closure");
                    format!("({})({})", self.function_expr(depth.min(2)), self.name())
                } else {
                    self.expr(2)
                };
                format!("{i}repeat\n{}{i}until {}\n", b, cond)
            }
            11 | 12 => {
                self.bump("if");
                let first = self.block(depth - 1, ind + 1);
                let mut s = format!("{i}if {} then\n{}", self.expr(2), first);
                let ne = self.r.below(3);
                for _ in 0..ne {
                    self.bump("elseif");
                    s.push_str(&format!("{i}elseif {} then\n{}", self.expr(2), self.block(depth - 1, ind + 1)));
                }
                if self.r.chance(1, 7) {
                    // a later branch that repeats the first one token for token — however many statements and lines it has
                    // (if_same_then_else compares the branches' tokens, not their layout)
                    self.bump("if_branch_repeated");
                    if self.r.chance(1, 2) {
                        s.push_str(&format!("{i}elseif {} then\n{}", self.expr(2), first));
                    } else {
                        s.push_str(&format!("{i}else\n{}", first));
                        s.push_str(&format!("{i}end\n"));
                        return s;
                    }
                }
                if self.r.chance(1, 8) {
                    // an else block that consists of nothing but a `return` (the block's last statement is no `Stmt`), whose
                    // values mention — and, inside a function literal, re-declare — names of the branches before it
                    self.bump("else_only_return");
                    let v = if self.r.chance(1, 2) { self.function_expr(depth.min(2)) } else { self.expr(2) };
                    let i2 = Self::indent(ind + 1);
                    s.push_str(&format!("{i}else\n{i2}return {}, {v}\n", self.name()));
                } else if self.r.chance(1, 2) {
                    self.bump("else");
                    s.push_str(&format!("{i}else\n{}", self.block(depth - 1, ind + 1)));
                }
                s.push_str(&format!("{i}end\n"));
                s
            }
            13 => {
                self.bump("numeric_for");
                if self.r.chance(1, 6) {
                    // loops whose bodies are empty (or hold a comment only), one inside a function literal in the header of
                    // the other: the scope bookkeeping of both is pending at the same time
                    self.bump("empty_loops_nested_through_header");
                    let v = self.local_name();
                    let w = self.local_name();
                    let inner = match self.r.below(3) {
                        0 => format!("for {w} in pairs({{}}) do end"),
                        1 => format!("for {w} = 1, 2 do end"),
                        _ => format!("for {w} = 1, 2 do\n{i}    -- nothing\n{i}  end"),
                    };
                    let lam = format!("(function()\n{i}  {inner}\n{i}  return {}\n{i}end)()", self.expr(1));
                    let body = if self.r.chance(1, 2) { String::new() } else { format!("{i}  -- nothing\n") };
                    return match self.r.below(4) {
                        0 => format!("{i}for {v} = {lam}, 3 do\n{body}{i}end\n"),
                        1 => format!("{i}for {v} = 1, {lam} do\n{body}{i}end\n"),
                        2 => format!("{i}for {v} = 1, 3, {lam} do\n{body}{i}end\n"),
                        _ => format!("{i}for {v} in {lam} do\n{body}{i}end\n"),
                    };
                }
                let v = self.local_name();
                let step = if self.r.chance(1, 3) { format!(", {}", self.expr(1)) } else { String::new() };
                format!("{i}for {v} = {}, {}{step} do\n{}{i}end\n", self.expr(2), self.expr(2), self.block(depth - 1, ind + 1))
            }
            14 => {
                self.bump("generic_for");
                if self.r.chance(1, 5) {
                    // the shape manual_table_clone looks for: a fresh empty table filled key by key from an iterator call —
                    // `pairs` / `ipairs` themselves or a function of the script's, with 0..2 arguments
                    self.bump("clone_shaped_loop");
                    let (c, k, v) = (self.local_name(), self.local_name(), self.local_name());
                    let f = match self.r.below(4) {
                        0 => "pairs".to_owned(),
                        1 => "ipairs".to_owned(),
                        _ => self.name(),
                    };
                    let argc = *self.r.pick(&[1usize, 1, 1, 0, 2]);
                    let args: Vec<String> = (0..argc).map(|_| self.name()).collect();
                    return format!("{i}local {c} = {{}}\n{i}for {k}, {v} in {f}({}) do\n{i}    {c}[{k}] = {v}\n{i}end\n", args.join(", "));
                }
                let n = 1 + self.r.below(2);
                let names: Vec<String> = (0..n).map(|_| self.local_name()).collect();
                format!("{i}for {} in {} do\n{}{i}end\n", names.join(", "), self.expr(2), self.block(depth - 1, ind + 1))
            }
            15 | 16 => {
                self.bump("function_decl");
                let (ps, va) = self.params();
                let fname = match self.r.below(5) {
                    0 => format!("{}.{}", self.name(), self.r.pick(&["f", "g"])),
                    1 => {
                        self.bump("method_decl");
                        format!("{}:{}", self.name(), self.r.pick(&["m", "n"]))
                    }
                    2 => format!("{}.{}.{}", self.name(), "f", "g"),
                    _ => self.name(),
                };
                self.vararg_ok.push(va);
                self.in_function += 1;
                let b = self.block(depth - 1, ind + 1);
                self.in_function -= 1;
                self.vararg_ok.pop();
                // a method that also declares a parameter called `self` (it shadows the implicit one) and reads it
                if fname.contains(':') && self.r.chance(1, 3) {
                    self.bump("method_with_explicit_self_parameter");
                    let ps2 = if ps.is_empty() { "self".to_owned() } else { format!("self, {ps}") };
                    let i2 = Self::indent(ind + 1);
                    let tail = if b.trim_end().lines().last().map(|l| l.trim_start().starts_with("return")).unwrap_or(false) { String::new() } else { format!("{i2}return self\n") };
                    return format!("{i}function {fname}({ps2})\n{i2}local _s = self\n{b}{tail}{i}end\n");
                }
                format!("{i}function {fname}({ps})\n{b}{i}end\n")
            }
            17 => {
                self.bump("local_function");
                let (ps, va) = self.params();
                let n = self.local_name();
                self.vararg_ok.push(va);
                self.in_function += 1;
                let b = self.block(depth - 1, ind + 1);
                self.in_function -= 1;
                self.vararg_ok.pop();
                format!("{i}local function {n}({ps})\n{b}{i}end\n")
            }
            18 => {
                let n = self.local_name();
                format!("{i}local {n} = {}\n", self.function_expr(depth))
            }
            _ => {
                if self.r.chance(1, 2) {
                    format!("{i}while true do break end\n")
                } else {
                    format!("{i}local {} = {}\n", self.local_name(), self.expr(2))
                }
            }
        }
    }
    pub fn program(&mut self) -> String {
        let mut out = String::new();
        // uses of a name before the outermost-block statement that makes it a global of the file: every kind
        // of early use (function-name statements included) must be resolved by the later hoist
        let late_global = if self.r.chance(1, 5) { Some(self.name()) } else { None };
        if let Some(g) = &late_global {
            self.bump("late_global");
            let early = match self.r.below(6) {
                0 => format!("function {g}.early() end\n"),
                1 => format!("function {g}:early() end\n"),
                2 => format!("local function _e()\n  function {g}.early(x) return x end\nend\n"),
                3 => format!("local function _e()\n  function {g}:early() return self end\n  return {g}\nend\n"),
                4 => format!("local function _e()\n  {g}.field = 1\n  {g}[1] = {g}\nend\n"),
                _ => format!("local _e = function() return {g}, {g}.x, {g}() end\n"),
            };
            out.push_str(&early);
        }
        let top = 1 + self.r.below(6);
        for _ in 0..top {
            if self.budget == 0 {
                break;
            }
            self.budget -= 1;
            out.push_str(&self.stmt(self.max_depth, 0));
        }
        if let Some(g) = &late_global {
            if self.r.chance(1, 2) {
                out.push_str(&format!("{g} = {{}}\n"));
            } else {
                out.push_str(&format!("function {g}() end\n"));
            }
        }
        if self.r.chance(1, 5) {
            out.push_str(&format!("return {}\n", self.expr(2)));
        }
        out
    }
}

pub fn gen_program(r: &mut Rng, budget: usize, depth: usize) -> (String, std::collections::BTreeMap<String, u64>) {
    let mut g = LuaGen::new(r);
    g.budget = budget;
    g.max_depth = depth;
    // one program in eight draws its names from a pool of distinct spellings that common cheap comparisons
    // confuse: equal length and equal polynomial / additive / xor hash, case variants, one a prefix of the other
    if g.r.chance(1, 8) {
        g.names = (*g.r.pick(&[
            &["dt", "f2", "as", "c1", "e1", "gs"][..],
            &["aa", "bB", "ab", "ba", "bC", "cb"][..],
            &["a1", "bP", "ar", "bA", "af", "ac"][..],
            &["v", "V", "va", "val", "v_", "_v"][..],
            // spellings that merely end in / extend a name some lint treats specially
            &["spairs", "xipairs", "nexts", "types", "selfs", "requires"][..],
            // the bare `_` and names that merely start with it (ignore patterns: `^_`, `^_$`)
            &["_", "_a", "__", "_1", "a_", "_x"][..],
        ]))
        .to_vec();
        g.bump("confusable_name_pool");
    }
    // `_G` as a global the program uses (global_usage) and, sometimes, binds itself
    if g.r.chance(1, 6) {
        g.globals.push("_G");
        if g.r.chance(1, 3) {
            g.names.push("_G");
        }
        g.bump("uses_G");
    }
    let p = g.program();
    (p, g.stats)
}

/// every `.lua` fixture of the repo's own test-suite
pub fn fixture_files() -> Vec<std::path::PathBuf> {
    fn walk(dir: &std::path::Path, out: &mut Vec<std::path::PathBuf>) {
        if let Ok(rd) = std::fs::read_dir(dir) {
            let mut es: Vec<_> = rd.filter_map(|e| e.ok()).map(|e| e.path()).collect();
            es.sort();
            for p in es {
                if p.is_dir() {
                    walk(&p, out);
                } else if p.extension().map(|e| e == "lua").unwrap_or(false) {
                    out.push(p);
                }
            }
        }
    }
    let mut v = Vec::new();
    walk(std::path::Path::new("/repo/selene-lib/tests"), &mut v);
    v
}
