//! Whole programs through the two library lints that walk the tree themselves
//! (`incorrect_standard_library_use`, `deprecated`): the real diagnostics of every program, in token
//! space and with their messages, against the tree-level model `Selene/Std/Prog.lean` (gate, name path,
//! which suffix is the call, ranges, messages) — under generated libraries over the root names the
//! program generator uses (which it also re-binds as locals, parameters and loop variables), under
//! lua51 extended with deprecated entries, on generated programs, the C07 snippets and the repo's fixtures.
use crate::astdump;
use crate::libgen::{gen_deprecated, gen_function_full, lib_sx, LibGen};
use crate::luagen::LuaGen;
use crate::rng::Rng;
use crate::sx::*;
use crate::{Args, Out};
use selene_lib::standard_library::{Field, FieldKind, PropertyWritability, StandardLibrary};
use selene_lib::{Checker, CheckerConfig};

const CODES: &[&str] = &["incorrect_standard_library_use", "deprecated", "must_use"];
const ROOTS: &[&str] = &["print", "math", "string", "G"];

fn checker_for(lib: &StandardLibrary, allow: &[String]) -> Checker<toml::value::Value> {
    let mut config: std::collections::HashMap<String, toml::value::Value> = std::collections::HashMap::new();
    if !allow.is_empty() {
        let mut t = toml::value::Table::new();
        t.insert("allow".to_owned(), toml::value::Value::Array(allow.iter().map(|a| toml::value::Value::String(a.clone())).collect()));
        config.insert("deprecated".to_owned(), toml::value::Value::Table(t));
    }
    Checker::new(CheckerConfig { config, ..CheckerConfig::default() }, lib.clone()).unwrap()
}

fn span_sx(d: &astdump::Dumper, range: (u32, u32)) -> Sx {
    match (d.by_start.get(&(range.0 as usize)), d.by_end.get(&(range.1 as usize))) {
        (Some(a), Some(b)) => list(vec![num(*a), num(*b)]),
        _ => list(vec![atom("byte"), num(range.0), num(range.1)]),
    }
}

fn diags_sx(checker: &Checker<toml::value::Value>, ast: &full_moon::ast::Ast, d: &astdump::Dumper) -> Sx {
    let diags = checker.verif_test_on_unfiltered(ast);
    list(
        diags
            .iter()
            .filter(|x| CODES.contains(&x.diagnostic.code))
            .map(|x| {
                list(vec![
                    st(x.diagnostic.code),
                    span_sx(d, x.diagnostic.primary_label.range),
                    st(&x.diagnostic.message),
                    st(x.diagnostic.primary_label.message.clone().unwrap_or_default()),
                ])
            })
            .collect(),
    )
}

/// a library over the roots the program generator uses; fields f g x y m n insert + `*`
fn gen_lib(r: &mut Rng) -> StandardLibrary {
    let gen = LibGen { segments: vec!["f", "g", "x", "m", "n", "*"], max_depth: 2, max_keys: 4, struct_names: vec!["S"], allow_removed: true, allow_dangling_struct: false };
    let mut lib = StandardLibrary::default();
    let kind = |r: &mut Rng| -> FieldKind {
        match r.below(10) {
            0 => FieldKind::Any,
            1 | 2 | 3 | 4 => FieldKind::Function(gen_function_full(r)),
            5 | 6 | 7 => FieldKind::Property(*r.pick(&[
                PropertyWritability::ReadOnly,
                PropertyWritability::NewFields,
                PropertyWritability::OverrideFields,
                PropertyWritability::FullWrite,
            ])),
            8 => FieldKind::Struct("S".to_owned()),
            _ => FieldKind::Removed,
        }
    };
    for root in ROOTS {
        match r.below(6) {
            0 => continue, // the root is not a library name at all
            1 | 2 => {
                // a plain global
                lib.globals.insert((*root).to_owned(), Field { field_kind: kind(r), deprecated: gen_deprecated(r) });
            }
            _ => {}
        }
        let n = r.below(5);
        for _ in 0..n {
            let k = format!("{root}.{}", gen.gen_key(r));
            lib.globals.insert(k, Field { field_kind: kind(r), deprecated: if r.chance(1, 3) { gen_deprecated(r) } else { None } });
        }
    }
    if r.chance(3, 4) {
        let mut m = std::collections::BTreeMap::new();
        for _ in 0..r.below(4) {
            m.insert(gen.gen_key(r), Field { field_kind: kind(r), deprecated: gen_deprecated(r) });
        }
        lib.structs.insert("S".to_owned(), m);
    } else {
        lib.structs.insert("S".to_owned(), Default::default());
    }
    lib
}

fn gen_program(r: &mut Rng, budget: usize, depth: usize) -> String {
    let mut g = LuaGen::new(r);
    g.budget = budget;
    g.max_depth = depth;
    // library roots are also drawn as local names: re-bound library names are frequent
    g.names = vec!["a", "b", "math", "print", "string", "x"];
    g.program()
}

/// statements that exercise the hooks densely: calls with every argument form, chains through calls,
/// method calls, indexed and parenthesised roots, assignment targets
fn dense_stmts(r: &mut Rng) -> String {
    let root = |r: &mut Rng| (*r.pick(&["print", "math", "string", "G", "a"])).to_owned();
    let field = |r: &mut Rng| (*r.pick(&["f", "g", "x", "m", "n", "y"])).to_owned();
    let arg = |r: &mut Rng| (*r.pick(&["1", "nil", "\"s\"", "'t'", "[[u]]", "{}", "function() end", "a", "...", "f()", "(nil)", "-1", "not a", "#a", "1 + 1", "a .. b", "a == b", "true", "(f())", "a and b", "1 < (a or b)", "-\"1\""])).to_owned();
    let mut out = String::new();
    for _ in 0..(1 + r.below(5)) {
        let ro = root(r);
        let path = match r.below(6) {
            0 => ro.clone(),
            1 | 2 => format!("{ro}.{}", field(r)),
            3 => format!("{ro}.{}.{}", field(r), field(r)),
            4 => format!("({ro}).{}", field(r)),
            _ => format!("{ro}[{}]", arg(r)),
        };
        let nargs = r.below(4);
        let args: Vec<String> = (0..nargs).map(|_| arg(r)).collect();
        let call = match r.below(8) {
            0 => format!("{path} \"lit\""),
            1 => format!("{path} {{ 1 }}"),
            2 => format!("{path}:{}({})", field(r), args.join(", ")),
            3 => format!("{path}({}).{}", args.join(", "), field(r)),
            4 => format!("{path}({}):{}()", args.join(", "), field(r)),
            _ => format!("{path}({})", args.join(", ")),
        };
        match r.below(7) {
            0 => out.push_str(&format!("local _v = {path}\n")),
            1 => out.push_str(&format!("{path} = {}\n", arg(r))),
            2 => {
                // several targets, each judged on its own: a target that goes through one or two calls first (never linted
                // itself) must not change what is made of the others
                let through_calls = *r.pick(&["g()().x", "G.f(1)(2).y", "a(1).x", "print()().n.f", "f():m().z", "(g)().x"]);
                match r.below(3) {
                    0 => out.push_str(&format!("{path}, {} = {}, 2\n", root(r), arg(r))),
                    1 => out.push_str(&format!("{through_calls}, {path} = 1, {}\n", arg(r))),
                    _ => out.push_str(&format!("{through_calls}, {}, {path} = 1, 2, {}\n", root(r), arg(r))),
                }
            }
            3 if !call.ends_with(|c: char| c.is_alphanumeric()) => out.push_str(&format!("{call}\n")),
            4 => out.push_str(&format!("local _w = {call}\n")),
            5 => out.push_str(&format!("{call}.z = 1\n")),
            _ => out.push_str(&format!("local _u = {{ {call}, k = {path} }}\n")),
        }
    }
    out
}

fn one(out: &mut Out, lib: &StandardLibrary, lsx: &Sx, allow: &[String], checker: &Checker<toml::value::Value>, origin: &str, src: &str) {
    let ast = match full_moon::parse(src) {
        Ok(a) => a,
        Err(_) => {
            out.bump("does_not_parse_as_lua51");
            return;
        }
    };
    let (chunk, supported, d) = astdump::dump(&ast);
    if !supported {
        out.bump("unsupported_syntax");
        return;
    }
    let _ = lib;
    let imp = match std::panic::catch_unwind(std::panic::AssertUnwindSafe(|| diags_sx(checker, &ast, &d))) {
        Ok(v) => v,
        Err(_) => atom("panic"),
    };
    if let Sx::List(v) = &imp {
        out.add("impl_diagnostics", v.len() as u64);
        if !v.is_empty() {
            out.bump("programs_with_diagnostics");
        }
    }
    out.case("STD.prog", &list(vec![lsx.clone(), list(allow.iter().map(st).collect()), chunk, st(origin), st(src)]), &imp);
}

pub fn run(args: &Args, out: &mut Out) {
    let mut rng = Rng::new(args.seed ^ 0x57D9);
    // one-program mode (shrinker)
    let only = std::env::var("VERIF_ONLY_PROGRAM").ok().and_then(|p| std::fs::read_to_string(p).ok());

    // ---- A: lua51 extended with deprecated entries ------------------------------------------
    let std51 = StandardLibrary::from_name("lua51").unwrap();
    let mut custom: StandardLibrary = serde_yaml::from_str(
        "globals:\n  oldfn:\n    args:\n      - type: any\n        required: false\n    deprecated:\n      message: old\n      replace:\n        - newfn(%1)\n  oldvalue:\n    property: read-only\n    deprecated:\n      message: gone\n  depr_param:\n    args:\n      - type: any\n        required: false\n        deprecated:\n          message: no more\n      - type: number\n        required: false\n  lib.oldfield:\n    property: read-only\n    deprecated:\n      message: gone\n  lib.sub.fn:\n    args: []\n    deprecated:\n      message: sub gone\n  lib.sub:\n    property: read-only\n    deprecated:\n      message: whole sub gone\n",
    )
    .unwrap();
    custom.extend(std51);
    let lsx51 = lib_sx(&custom);
    let allow_none: Vec<String> = vec![];
    let allow_some: Vec<String> = vec!["lib.*".to_owned(), "oldfn".to_owned(), "table.getn".to_owned()];
    let ck51 = checker_for(&custom, &allow_none);
    let ck51a = checker_for(&custom, &allow_some);
    if let Some(src) = &only {
        one(out, &custom, &lsx51, &allow_none, &ck51, "shrink:candidate", src);
        return;
    }
    if let Ok(rd) = std::fs::read_dir("/verif/corpus/stdprog") {
        let mut paths: Vec<_> = rd.filter_map(|e| e.ok()).map(|e| e.path()).collect();
        paths.sort();
        for p in paths {
            if let Ok(s) = std::fs::read_to_string(&p) {
                one(out, &custom, &lsx51, &allow_none, &ck51, &format!("corpus:{}", p.display()), &s);
                one(out, &custom, &lsx51, &allow_some, &ck51a, &format!("corpus-allow:{}", p.display()), &s);
                out.bump("corpus");
            }
        }
    }
    for p in crate::luagen::fixture_files() {
        if let Ok(s) = std::fs::read_to_string(&p) {
            one(out, &custom, &lsx51, &allow_none, &ck51, &format!("fixture:{}", p.display()), &s);
            out.bump("fixture");
        }
    }
    // the C07 snippets, inside and outside every binding construct
    for (root, use_stmt, _what) in crate::c07::USES.iter() {
        for (bname, before, after) in crate::c07::BINDINGS.iter() {
            let src = format!("local t, f = {{}}, nil\n{}{}{}{}\n{}\n", before.replace("{R}", root), use_stmt, after, use_stmt, use_stmt);
            one(out, &custom, &lsx51, &allow_none, &ck51, &format!("c07:{bname}"), &src);
            if rng.chance(1, 4) {
                one(out, &custom, &lsx51, &allow_some, &ck51a, &format!("c07-allow:{bname}"), &src);
            }
        }
    }
    // ---- B: generated libraries over the generator's root names -------------------------------
    for i in 0..args.n {
        let lib = gen_lib(&mut rng);
        let lsx = lib_sx(&lib);
        let allow: Vec<String> = match rng.below(4) {
            0 => vec![format!("{}.*", rng.pick(ROOTS))],
            1 => vec![format!("{}.{}", rng.pick(ROOTS), rng.pick(&["f", "g", "x"])), (*rng.pick(ROOTS)).to_owned()],
            _ => vec![],
        };
        let checker = checker_for(&lib, &allow);
        for j in 0..4 {
            let (budget, depth) = [(8, 2), (20, 3), (40, 5)][(i + j) % 3];
            let src = if j == 0 {
                dense_stmts(&mut rng)
            } else if j == 1 {
                // the dense statements inside a scope that re-binds one of the roots, and again after it
                let r = *rng.pick(ROOTS);
                let d = dense_stmts(&mut rng);
                let (bname, before, after) = *rng.pick(crate::c07::BINDINGS);
                out.bump(&format!("dense_inside_{bname}"));
                format!("local t = {{}}\n{}{}{}{}", before.replace("{R}", r), d.replace('\n', "\n  "), after, d)
            } else {
                gen_program(&mut rng, budget, depth)
            };
            one(out, &lib, &lsx, &allow, &checker, &format!("gen:{i}:{j}"), &src);
        }
    }
}
