//! C17: serialisation round trip of `StandardLibrary` and the v1 (TOML) -> v2 upgrade.
//!
//! Streams (all randomness from `Rng`):
//!  * `C17.ser`      generated / shipped / fixture libraries: `serde_yaml::to_value(&lib)` (for the model's
//!                   `ser`), plus the verdicts of the real value round trip and the real *text* round trip;
//!  * `C17.excluded` the points excluded by the theorem's hypothesis (`LuaVersion::Unknown("lua51")` ...),
//!                   run on the real code;
//!  * `C17.de`       well-formed and malformed documents through `serde_yaml::from_value::<StandardLibrary>`
//!                   (for the model's `de`), plus "what loaded re-serialises to something that loads back";
//!  * `C17.v1`       generated / fixture v1 TOML text -> `toml::from_str::<v1::StandardLibrary>` -> `.into()`
//!                   (for the model's `upgrade`), plus YAML reload, `find_global` agreement and the real
//!                   `selene upgrade-std` binary on scratch files.
use crate::libgen::*;
use crate::rng::Rng;
use crate::sx::*;
use crate::{Args, Out};
use selene_lib::standard_library::v1;
use selene_lib::standard_library::*;
use std::collections::BTreeMap;

// ------------------------------------------------------------------------------------------------
// serde data-model values

#[derive(Clone, Debug, PartialEq)]
pub enum V {
    Null,
    Bool(bool),
    Int(i128),
    Str(String),
    Seq(Vec<V>),
    Map(Vec<(String, V)>),
}

fn v_from_yaml(v: &serde_yaml::Value) -> V {
    use serde_yaml::Value as Y;
    match v {
        Y::Null => V::Null,
        Y::Bool(b) => V::Bool(*b),
        Y::Number(n) => {
            if let Some(i) = n.as_i64() {
                V::Int(i as i128)
            } else if let Some(u) = n.as_u64() {
                V::Int(u as i128)
            } else {
                V::Str(format!("<float {n}>"))
            }
        }
        Y::String(s) => V::Str(s.clone()),
        Y::Sequence(xs) => V::Seq(xs.iter().map(v_from_yaml).collect()),
        Y::Mapping(m) => V::Map(
            m.iter()
                .map(|(k, v)| {
                    let key = match k {
                        Y::String(s) => s.clone(),
                        other => format!("<non-string key {other:?}>"),
                    };
                    (key, v_from_yaml(v))
                })
                .collect(),
        ),
        Y::Tagged(t) => V::Str(format!("<tagged {:?}>", t.tag)),
    }
}

/// does the document stay inside what `V` represents faithfully (no floats, tags, non-string keys)?
fn yaml_in_fragment(v: &serde_yaml::Value) -> bool {
    use serde_yaml::Value as Y;
    match v {
        Y::Null | Y::Bool(_) | Y::String(_) => true,
        Y::Number(n) => n.as_i64().is_some() || n.as_u64().is_some(),
        Y::Sequence(xs) => xs.iter().all(yaml_in_fragment),
        Y::Mapping(m) => m.iter().all(|(k, v)| matches!(k, Y::String(_)) && yaml_in_fragment(v)),
        Y::Tagged(_) => false,
    }
}

fn v_to_yaml(v: &V) -> serde_yaml::Value {
    use serde_yaml::Value as Y;
    match v {
        V::Null => Y::Null,
        V::Bool(b) => Y::Bool(*b),
        V::Int(i) => {
            if let Ok(x) = i64::try_from(*i) {
                Y::Number(x.into())
            } else {
                Y::Number((u64::try_from(*i).expect("generated integers fit u64")).into())
            }
        }
        V::Str(s) => Y::String(s.clone()),
        V::Seq(xs) => Y::Sequence(xs.iter().map(v_to_yaml).collect()),
        V::Map(kvs) => {
            let mut m = serde_yaml::Mapping::new();
            for (k, v) in kvs {
                m.insert(Y::String(k.clone()), v_to_yaml(v));
            }
            Y::Mapping(m)
        }
    }
}

fn v_sx(v: &V) -> Sx {
    match v {
        V::Null => atom("null"),
        V::Bool(b) => boolean(*b),
        V::Int(i) => tagged("i", vec![num(i)]),
        V::Str(s) => st(s),
        V::Seq(xs) => tagged("seq", xs.iter().map(v_sx).collect()),
        V::Map(kvs) => tagged("map", kvs.iter().map(|(k, v)| list(vec![st(k), v_sx(v)])).collect()),
    }
}

// ------------------------------------------------------------------------------------------------
// exchange format of the full library and of v1 libraries

fn opt_str_sx(o: &Option<String>) -> Sx {
    match o {
        None => atom("none"),
        Some(s) => st(s),
    }
}

pub fn flib_sx(l: &StandardLibrary) -> Sx {
    tagged(
        "flib",
        vec![
            lib_sx(l),
            tagged("name", vec![opt_str_sx(&l.name)]),
            tagged("updated", vec![match l.last_updated {
                None => atom("none"),
                Some(n) => num(n),
            }]),
            tagged("selene-version", vec![opt_str_sx(&l.last_selene_version)]),
            tagged(
                "classes",
                l.roblox_classes
                    .iter()
                    .map(|(n, c)| {
                        list(vec![
                            st(n),
                            st(&c.superclass),
                            list(c.events.iter().map(st).collect()),
                            list(c.properties.iter().map(st).collect()),
                        ])
                    })
                    .collect(),
            ),
        ],
    )
}

fn v1_argtype_sx(t: &v1::ArgumentType) -> Sx {
    use v1::ArgumentType as T;
    match t {
        T::Any => atom("any"),
        T::Bool => atom("bool"),
        T::Constant(c) => tagged("constant", c.iter().map(st).collect()),
        T::Display(d) => tagged("display", vec![st(d)]),
        T::Function => atom("function"),
        T::Nil => atom("nil"),
        T::Number => atom("number"),
        T::String => atom("string"),
        T::Table => atom("table"),
        T::Vararg => atom("vararg"),
    }
}

fn v1_field_sx(f: &v1::Field) -> Sx {
    match f {
        v1::Field::Any => atom("any"),
        v1::Field::Removed => atom("removed"),
        v1::Field::Struct(s) => tagged("struct", vec![st(s)]),
        v1::Field::Property { writable } => tagged(
            "property",
            vec![atom(match writable {
                None => "none",
                Some(v1::Writable::NewFields) => "new-fields",
                Some(v1::Writable::Overridden) => "overridden",
                Some(v1::Writable::Full) => "full",
            })],
        ),
        v1::Field::Complex { function, table } => {
            let f = match function {
                None => atom("none"),
                Some(fb) => {
                    let mut v = vec![boolean(fb.method)];
                    for a in &fb.arguments {
                        v.push(tagged(
                            "arg",
                            vec![
                                match &a.required {
                                    v1::Required::NotRequired => atom("not-required"),
                                    v1::Required::Required(None) => atom("required"),
                                    v1::Required::Required(Some(m)) => tagged("required", vec![st(m)]),
                                },
                                v1_argtype_sx(&a.argument_type),
                            ],
                        ));
                    }
                    tagged("fn", v)
                }
            };
            let mut v = vec![tagged("fn", vec![f])];
            v.extend(v1_table_sx(table));
            tagged("complex", v)
        }
    }
}

fn v1_table_sx(t: &BTreeMap<String, v1::Field>) -> Vec<Sx> {
    t.iter().map(|(k, f)| list(vec![st(k), v1_field_sx(f)])).collect()
}

fn v1_lib_sx(l: &v1::StandardLibrary) -> Sx {
    let meta = match &l.meta {
        None => atom("none"),
        Some(m) => tagged(
            "meta",
            vec![
                tagged("base", vec![opt_str_sx(&m.base)]),
                tagged("name", vec![opt_str_sx(&m.name)]),
                tagged("structs", vec![match &m.structs {
                    None => atom("none"),
                    Some(ss) => tagged(
                        "some",
                        ss.iter()
                            .map(|(n, fs)| {
                                let mut v = vec![st(n)];
                                v.extend(v1_table_sx(fs));
                                list(v)
                            })
                            .collect(),
                    ),
                }]),
            ],
        ),
    };
    tagged("v1lib", vec![tagged("selene", vec![meta]), tagged("globals", v1_table_sx(&l.globals))])
}

// ------------------------------------------------------------------------------------------------
// generators

/// strings a YAML / TOML emitter has to quote or escape to get back unchanged
const HOSTILE: &[&str] = &[
    "true", "false", "True", "yes", "no", "on", "off", "y", "n", "null", "Null", "NULL", "~", "", " ", "1", "0",
    "-1", "+1", "1e3", "1.5", ".5", "1.", "0x1f", "0o17", "1_000", ".inf", "-.inf", ".nan", "2001-01-01",
    "12:30:45", "a: b", "a:b", "a #b", "#c", "- x", "-", "? x", "?", ": x", ":", "[x", "]", "{x", "}", ",",
    "&a", "*", "*a", "!t", "!!str x", "|", ">", "|-", "%d", "@x", "`x", "'", "\"", "''", "\\", "\\n", "a\\",
    "it's", "say \"hi\"", " lead", "trail ", "  two  ", "a\nb", "a\n", "\na", "a\n\nb\n", "\n", "a\r\nb", "\r",
    "a\tb", "\t", "a\u{7}b", "\u{1b}[0m", "\u{0}", "é", "日本語", "🌙", "\u{85}", "\u{2028}x", "\u{feff}bom",
    "\u{a0}", "\u{ffff}", "\u{10000}", "<<", "=", "---", "...", "--- a", "... a", "key: [a, b]", "{a: 1}",
    "a, b", "a  # not comment", "%YAML 1.2", "0123", "1__0", "0b11", "1e", "e3", "+.inf", "NaN", "nan", "Infinity",
];

const SEGMENTS: &[&str] = &["a", "b", "c", "math", "x y", "*", "0", "true", "é", "a-b", "#", "!", "\u{10000}", "\u{ffff}"];

fn hostile(r: &mut Rng) -> String {
    if r.chance(1, 12) {
        // concatenation of two
        format!("{}{}", r.pick(HOSTILE), r.pick(HOSTILE))
    } else {
        (*r.pick(HOSTILE)).to_owned()
    }
}

const TRICKY: &[char] = &[
    ' ', ' ', '\n', '\n', '\t', '\r', ':', '#', '-', '?', '\'', '"', '\\', '|', '>', '&', '*', '!', '%', '@', '`', '[', ']', '{',
    '}', ',', '~', '0', '1', 'e', '.', '+', '_', 'x', 'a', 'n', 'é', '\u{85}', '\u{a0}', '\u{2028}', '\u{2029}', '\u{feff}',
    '\u{7f}', '\u{1}', '\u{0}', '\u{fffe}', '\u{d7ff}', '\u{e000}', '🌙', '\u{b}', '\u{c}', '\u{1b}', '=', '<', '/',
];

/// a short random string over characters YAML treats specially
fn tricky(r: &mut Rng) -> String {
    let n = r.below(7);
    (0..n).map(|_| *r.pick(TRICKY)).collect()
}

fn text(r: &mut Rng, plain: &[&str]) -> String {
    if r.chance(1, 4) {
        tricky(r)
    } else if r.chance(1, 3) {
        hostile(r)
    } else {
        (*r.pick(plain)).to_owned()
    }
}

fn gen_deprecated17(r: &mut Rng) -> Deprecated {
    let n = if r.chance(1, 2) { 0 } else { 1 + r.below(3) };
    Deprecated {
        message: text(r, &["old", "use new", "x"]),
        replace: (0..n).map(|_| text(r, &["new(%1)", "n(%1, %2)", "m(%...)", "%%", "eleven(%11)"])).collect(),
    }
}

fn gen_argtype17(r: &mut Rng) -> ArgumentType {
    match r.below(13) {
        0 => ArgumentType::Any,
        1 => ArgumentType::Bool,
        2 | 3 => {
            let n = r.below(4);
            ArgumentType::Constant((0..n).map(|_| text(r, &["count", "step", "collect"])).collect())
        }
        4 | 5 => ArgumentType::Display(text(r, &["Instance", "Foo", "any", "..."])),
        6 => ArgumentType::Function,
        7 => ArgumentType::Nil,
        8 => ArgumentType::Number,
        9 => ArgumentType::String,
        10 => ArgumentType::Table,
        _ => ArgumentType::Vararg,
    }
}

fn gen_arg17(r: &mut Rng) -> Argument {
    Argument {
        required: match r.below(4) {
            0 => Required::NotRequired,
            1 => Required::Required(Some(text(r, &["needs this", "msg"]))),
            _ => Required::Required(None),
        },
        argument_type: gen_argtype17(r),
        observes: *r.pick(&[Observes::ReadWrite, Observes::ReadWrite, Observes::Read, Observes::Write]),
        deprecated: if r.chance(1, 5) { Some(gen_deprecated17(r)) } else { None },
    }
}

fn gen_kind17(r: &mut Rng) -> FieldKind {
    match r.below(12) {
        0 | 1 => FieldKind::Any,
        2 | 3 | 4 | 5 => {
            let n = r.below(4);
            FieldKind::Function(FunctionBehavior {
                arguments: (0..n).map(|_| gen_arg17(r)).collect(),
                method: r.chance(1, 3),
                must_use: r.chance(1, 3),
            })
        }
        6 | 7 => FieldKind::Property(*r.pick(&[
            PropertyWritability::ReadOnly,
            PropertyWritability::NewFields,
            PropertyWritability::OverrideFields,
            PropertyWritability::FullWrite,
        ])),
        8 | 9 => FieldKind::Struct(text(r, &["S", "T", "Missing"])),
        _ => FieldKind::Removed,
    }
}

fn gen_key17(r: &mut Rng) -> String {
    if r.chance(1, 6) {
        return hostile(r);
    }
    if r.chance(1, 8) {
        return tricky(r);
    }
    let depth = 1 + r.below(3);
    (0..depth).map(|_| *r.pick(SEGMENTS)).collect::<Vec<_>>().join(".")
}

fn gen_fieldmap17(r: &mut Rng, max: usize) -> BTreeMap<String, Field> {
    let n = r.below(max + 1);
    let mut m = BTreeMap::new();
    for _ in 0..n {
        m.insert(
            gen_key17(r),
            Field { field_kind: gen_kind17(r), deprecated: if r.chance(1, 4) { Some(gen_deprecated17(r)) } else { None } },
        );
    }
    m
}

fn gen_versions17(r: &mut Rng) -> Vec<LuaVersion> {
    let n = if r.chance(1, 2) { 0 } else { 1 + r.below(3) };
    (0..n)
        .map(|_| match r.below(8) {
            0 => LuaVersion::Lua51,
            1 => LuaVersion::Lua52,
            2 => LuaVersion::Lua53,
            3 => LuaVersion::Lua54,
            4 => LuaVersion::Luau,
            5 => LuaVersion::LuaJIT,
            // never a known name: that is the excluded point, sent separately
            _ => {
                let s = text(r, &["lua55", "Lua51", "lua5.1", "LUAU"]);
                if s.parse::<LuaVersion>().is_ok() {
                    LuaVersion::Unknown("lua55".to_owned())
                } else {
                    LuaVersion::Unknown(s)
                }
            }
        })
        .collect()
}

fn gen_lib17(r: &mut Rng) -> StandardLibrary {
    let mut lib = StandardLibrary::default();
    if r.chance(1, 3) {
        lib.base = Some(text(r, &["lua51", "roblox", "luau"]));
    }
    if r.chance(1, 4) {
        lib.name = Some(text(r, &["mylib", "roblox"]));
    }
    lib.globals = gen_fieldmap17(r, 6);
    let ns = if r.chance(1, 2) { 0 } else { 1 + r.below(3) };
    for _ in 0..ns {
        lib.structs.insert(text(r, &["S", "T", "Missing"]), gen_fieldmap17(r, 3));
    }
    lib.lua_versions = gen_versions17(r);
    if r.chance(1, 5) {
        lib.last_updated = Some(*r.pick(&[0i64, 1, -1, 1_700_000_000, i64::MAX, i64::MIN, 42]));
    }
    if r.chance(1, 6) {
        lib.last_selene_version = Some(text(r, &["0.27.1", "0.28.0"]));
    }
    if r.chance(1, 6) {
        for _ in 0..1 + r.below(3) {
            lib.roblox_classes.insert(
                text(r, &["Part", "Instance", "BasePart"]),
                RobloxClass {
                    superclass: text(r, &["Instance", "<<<ROOT>>>"]),
                    events: (0..r.below(3)).map(|_| text(r, &["Touched", "Changed"])).collect(),
                    properties: (0..r.below(3)).map(|_| text(r, &["Name", "Parent"])).collect(),
                },
            );
        }
    }
    lib
}

// ------------------------------------------------------------------------------------------------
// verdicts on the real code

fn short(s: &str) -> String {
    let mut t: String = s.chars().take(400).collect();
    if t.len() < s.len() {
        t.push('…');
    }
    t
}

/// `from_value(to_value(lib)) == lib`
fn value_roundtrip(lib: &StandardLibrary) -> Sx {
    let val = match serde_yaml::to_value(lib) {
        Ok(v) => v,
        Err(e) => return tagged("fails", vec![st(format!("to_value: {e}"))]),
    };
    match serde_yaml::from_value::<StandardLibrary>(val) {
        Ok(back) if &back == lib => atom("ok"),
        Ok(back) => tagged("differs", vec![flib_sx(&back)]),
        Err(e) => tagged("fails", vec![st(format!("from_value: {e}"))]),
    }
}

/// `from_str(to_string(lib)) == lib`
fn text_roundtrip(lib: &StandardLibrary) -> Sx {
    let text = match serde_yaml::to_string(lib) {
        Ok(t) => t,
        Err(e) => return tagged("fails", vec![st(format!("to_string: {e}"))]),
    };
    match serde_yaml::from_str::<StandardLibrary>(&text) {
        Ok(back) if &back == lib => atom("ok"),
        Ok(back) => tagged("differs", vec![flib_sx(&back), st(short(&text))]),
        Err(e) => tagged("fails", vec![st(format!("from_str: {e}")), st(short(&text))]),
    }
}

fn ser_case(out: &mut Out, lib: &StandardLibrary) {
    let val = serde_yaml::to_value(lib).expect("to_value");
    let imp = tagged("out", vec![v_sx(&v_from_yaml(&val)), value_roundtrip(lib), text_roundtrip(lib)]);
    out.case("C17.ser", &flib_sx(lib), &imp);
}

/// the same document through the loader selene really uses (`serde_yaml::from_str`): whatever it
/// accepts must be written back (`to_string`) to something that loads to the same library
fn text_loader_verdict(out: &mut Out, yaml: &serde_yaml::Value, value_accepted: bool) -> Sx {
    let Ok(text) = serde_yaml::to_string(yaml) else { return atom("skipped") };
    match std::panic::catch_unwind(|| serde_yaml::from_str::<StandardLibrary>(&text)) {
        Err(_) => tagged("fails", vec![st("PANIC in from_str"), st(short(&text))]),
        Ok(Err(_)) => {
            if value_accepted {
                out.bump("de_text_loader_stricter_than_value_loader");
            }
            atom("ok")
        }
        Ok(Ok(lib)) => {
            out.bump("de_text_loader_accepted");
            if !value_accepted {
                // e.g. `base: 123`: a YAML scalar read *as a string* is accepted whatever it looks like
                out.bump("de_text_loader_more_lenient_than_value_loader");
            }
            text_roundtrip(&lib)
        }
    }
}

fn de_case(out: &mut Out, doc: &V) {
    let yaml = v_to_yaml(doc);
    let res = std::panic::catch_unwind(|| serde_yaml::from_value::<StandardLibrary>(yaml.clone()));
    let imp = match res {
        Err(_) => tagged("err", vec![st("PANIC in from_value"), atom("skipped")]),
        Ok(Err(e)) => {
            out.bump("de_rejected");
            let t = text_loader_verdict(out, &yaml, false);
            tagged("err", vec![st(short(&e.to_string())), t])
        }
        Ok(Ok(lib)) => {
            out.bump("de_accepted");
            // what loaded must re-serialise (value and text) to something that loads back to it
            let v = value_roundtrip(&lib);
            let t = text_roundtrip(&lib);
            let verdict = if v == atom("ok") { t } else { v };
            let tl = text_loader_verdict(out, &yaml, true);
            tagged("ok", vec![flib_sx(&lib), verdict, tl])
        }
    };
    out.case("C17.de", &v_sx(doc), &imp);
}

// ------------------------------------------------------------------------------------------------
// malformed documents

const KEY_POOL: &[&str] = &[
    "any", "removed", "property", "struct", "args", "method", "must_use", "deprecated", "message", "replace",
    "required", "type", "observes", "display", "base", "name", "globals", "structs", "lua_versions",
    "last_updated", "last_selene_version", "roblox_classes", "superclass", "events", "properties", "bogus",
    "global_tree_cache", "must-use", "writable",
];

const STR_POOL: &[&str] = &[
    "read-only", "new-fields", "override-fields", "full-write", "read-write", "read", "write", "any", "bool",
    "function", "nil", "number", "string", "table", "...", "vararg", "lua51", "luau", "lua99", "S", "true", "",
    "ReadOnly", "read_only",
];

fn small_value(r: &mut Rng, depth: usize) -> V {
    match r.below(if depth == 0 { 9 } else { 12 }) {
        0 => V::Null,
        1 => V::Bool(true),
        2 => V::Bool(false),
        3 => V::Int(*r.pick(&[0i128, 1, -1, 7, i64::MAX as i128, i64::MIN as i128, i64::MAX as i128 + 1, u64::MAX as i128])),
        4 | 5 | 6 => V::Str((*r.pick(STR_POOL)).to_owned()),
        7 => V::Seq(vec![]),
        8 => V::Map(vec![]),
        9 => V::Seq((0..1 + r.below(3)).map(|_| small_value(r, depth - 1)).collect()),
        _ => {
            let mut kvs: Vec<(String, V)> = Vec::new();
            for _ in 0..1 + r.below(3) {
                let k = (*r.pick(KEY_POOL)).to_owned();
                let v = small_value(r, depth - 1);
                set_key(&mut kvs, k, v);
            }
            V::Map(kvs)
        }
    }
}

fn set_key(kvs: &mut Vec<(String, V)>, k: String, v: V) {
    if let Some(e) = kvs.iter_mut().find(|e| e.0 == k) {
        e.1 = v;
    } else {
        kvs.push((k, v));
    }
}

/// a mutation that often keeps the document loadable: reordered entries, ignored keys, `null` for an
/// empty collection, a struct given positionally, a unit variant given as a one-entry map
fn mutate_gently(v: &mut V, r: &mut Rng, out: &mut Out) {
    match v {
        V::Map(kvs) => match r.below(8) {
            0 | 1 if kvs.len() >= 2 => {
                let i = r.below(kvs.len());
                let j = r.below(kvs.len());
                kvs.swap(i, j);
                out.bump("gentle_swap_entries");
            }
            6 | 7 => {
                // a field that carries the key of a second kind: the untagged variant order decides
                if kvs.iter().any(|e| ["any", "args", "removed", "property", "struct"].contains(&e.0.as_str())) {
                    let (k, val) = match r.below(8) {
                        0 => ("any", V::Bool(true)),
                        1 => ("any", V::Bool(false)),
                        2 => ("removed", V::Bool(true)),
                        3 => ("removed", V::Bool(false)),
                        4 => ("property", V::Str((*r.pick(&["read-only", "full-write", "nope"])).to_owned())),
                        5 => ("struct", V::Str("S".to_owned())),
                        6 => ("args", V::Seq(vec![])),
                        _ => ("args", V::Seq(vec![V::Map(vec![("type".to_owned(), V::Str("number".to_owned()))])])),
                    };
                    if !kvs.iter().any(|e| e.0 == k) {
                        if r.chance(1, 2) {
                            kvs.insert(0, (k.to_owned(), val));
                        } else {
                            kvs.push((k.to_owned(), val));
                        }
                        out.bump("gentle_second_kind_key");
                    }
                }
            }
            2 | 3 => {
                let k = (*r.pick(&["bogus", "extra", "must-use", "writable", "zzz"])).to_owned();
                let val = small_value(r, 1);
                set_key(kvs, k, val);
                out.bump("gentle_add_ignorable_key");
            }
            4 if !kvs.is_empty() => {
                let i = r.below(kvs.len());
                if matches!(kvs[i].1, V::Seq(ref xs) if xs.is_empty()) || matches!(kvs[i].1, V::Map(ref xs) if xs.is_empty()) || r.chance(1, 3) {
                    kvs[i].1 = V::Null;
                    out.bump("gentle_value_to_null");
                }
            }
            _ => {
                if kvs.iter().any(|e| e.0 == "type" || e.0 == "message") {
                    let vals: Vec<V> = kvs.iter().map(|e| e.1.clone()).collect();
                    *v = V::Seq(vals);
                    out.bump("gentle_struct_positional");
                }
            }
        },
        V::Seq(xs) if xs.is_empty() => {
            *v = V::Null;
            out.bump("gentle_empty_seq_to_null");
        }
        V::Str(s) => {
            if ["read", "write", "read-write", "read-only", "new-fields", "override-fields", "full-write"].contains(&s.as_str()) {
                let k = s.clone();
                *v = V::Map(vec![(k, V::Null)]);
                out.bump("gentle_variant_map");
            }
        }
        _ => {}
    }
}

/// one local mutation of a node
fn mutate_node(v: &mut V, r: &mut Rng, out: &mut Out) {
    match v {
        V::Map(kvs) => match r.below(9) {
            0 if !kvs.is_empty() => {
                let i = r.below(kvs.len());
                kvs.remove(i);
                out.bump("mut_delete_entry");
            }
            1 if !kvs.is_empty() => {
                let i = r.below(kvs.len());
                let nk = (*r.pick(KEY_POOL)).to_owned();
                if !kvs.iter().any(|e| e.0 == nk) {
                    kvs[i].0 = nk;
                    out.bump("mut_rename_key");
                }
            }
            2 | 3 => {
                let k = (*r.pick(KEY_POOL)).to_owned();
                let val = match (k.as_str(), r.below(3)) {
                    ("any", 0) | ("removed", 0) | ("method", 0) | ("must_use", 0) => V::Bool(true),
                    ("any", 1) | ("removed", 1) | ("method", 1) | ("must_use", 1) => V::Bool(false),
                    ("property", 0) | ("observes", 0) | ("struct", 0) | ("type", 0) => V::Str((*r.pick(STR_POOL)).to_owned()),
                    ("args", 0) | ("replace", 0) | ("events", 0) => V::Seq(vec![]),
                    _ => small_value(r, 2),
                };
                set_key(kvs, k, val);
                out.bump("mut_add_entry");
            }
            4 => {
                // a struct given as the sequence of its field values (serde accepts that from `Content`)
                let vals: Vec<V> = kvs.iter().map(|e| e.1.clone()).collect();
                *v = V::Seq(vals);
                out.bump("mut_map_to_seq");
            }
            5 => {
                *v = V::Null;
                out.bump("mut_map_to_null");
            }
            6 if !kvs.is_empty() => {
                let i = r.below(kvs.len());
                kvs[i].1 = V::Null;
                out.bump("mut_value_to_null");
            }
            _ => {
                *v = small_value(r, 1);
                out.bump("mut_replace_map");
            }
        },
        V::Seq(xs) => match r.below(6) {
            0 if !xs.is_empty() => {
                let i = r.below(xs.len());
                xs.remove(i);
                out.bump("mut_seq_remove");
            }
            1 => {
                xs.push(small_value(r, 1));
                out.bump("mut_seq_push");
            }
            2 => {
                *v = V::Null;
                out.bump("mut_seq_to_null");
            }
            3 if !xs.is_empty() => {
                // Argument given positionally: [required, type, observes, deprecated]
                let i = r.below(xs.len());
                let n = 1 + r.below(5);
                let parts: Vec<V> = (0..n)
                    .map(|j| {
                        let choices: Vec<V> = match j {
                            0 => vec![V::Bool(true), V::Bool(false), V::Str("msg".into()), V::Null],
                            1 => vec![V::Str("number".into()), V::Str("...".into()), V::Seq(vec![V::Str("a".into())]), V::Str("nope".into())],
                            2 => vec![V::Str("read".into()), V::Str("read-write".into()), V::Map(vec![("write".into(), V::Null)]), V::Null],
                            3 => vec![V::Null, V::Seq(vec![V::Str("old".into())]), V::Map(vec![("message".into(), V::Str("m".into()))])],
                            _ => vec![V::Null],
                        };
                        r.pick(&choices).clone()
                    })
                    .collect();
                xs[i] = V::Seq(parts);
                out.bump("mut_arg_positional");
            }
            _ => {
                *v = small_value(r, 1);
                out.bump("mut_replace_seq");
            }
        },
        V::Str(s) => match r.below(4) {
            0 => {
                // unit enum variant as a one-entry map
                let k = s.clone();
                *v = V::Map(vec![(k, if r.chance(3, 4) { V::Null } else { V::Bool(true) })]);
                out.bump("mut_str_to_variant_map");
            }
            1 => {
                *v = V::Str((*r.pick(STR_POOL)).to_owned());
                out.bump("mut_str_other");
            }
            _ => {
                *v = small_value(r, 1);
                out.bump("mut_replace_scalar");
            }
        },
        _ => {
            *v = small_value(r, 1);
            out.bump("mut_replace_scalar");
        }
    }
}

fn count_nodes(v: &V) -> usize {
    match v {
        V::Seq(xs) => 1 + xs.iter().map(count_nodes).sum::<usize>(),
        V::Map(kvs) => 1 + kvs.iter().map(|e| count_nodes(&e.1)).sum::<usize>(),
        _ => 1,
    }
}

/// mutate the `target`-th node (pre-order)
fn mutate_at(v: &mut V, target: &mut isize, r: &mut Rng, out: &mut Out, gentle: bool) -> bool {
    if *target == 0 {
        if gentle {
            mutate_gently(v, r, out);
        } else {
            mutate_node(v, r, out);
        }
        *target = -1;
        return true;
    }
    *target -= 1;
    match v {
        V::Seq(xs) => {
            for x in xs.iter_mut() {
                if mutate_at(x, target, r, out, gentle) {
                    return true;
                }
            }
            false
        }
        V::Map(kvs) => {
            for e in kvs.iter_mut() {
                if mutate_at(&mut e.1, target, r, out, gentle) {
                    return true;
                }
            }
            false
        }
        _ => false,
    }
}

fn s(x: &str) -> V {
    V::Str(x.to_owned())
}
fn m(kvs: Vec<(&str, V)>) -> V {
    V::Map(kvs.into_iter().map(|(k, v)| (k.to_owned(), v)).collect())
}
fn globals_of(fields: Vec<(&str, V)>) -> V {
    m(vec![("globals", m(fields))])
}

/// hand-written documents for the decisions the untagged / flatten / visitor code makes
fn handwritten_docs() -> Vec<V> {
    let f_any = m(vec![("any", V::Bool(true))]);
    let arg = |t: V| m(vec![("type", t)]);
    vec![
        V::Null,
        m(vec![]),
        V::Seq(vec![]),
        s("lua51"),
        V::Bool(true),
        V::Int(3),
        m(vec![("bogus", V::Null)]),
        m(vec![("global_tree_cache", V::Null)]),
        m(vec![("base", V::Null), ("name", V::Null), ("globals", V::Null), ("structs", V::Null), ("lua_versions", V::Null),
               ("last_updated", V::Null), ("last_selene_version", V::Null), ("roblox_classes", V::Null)]),
        m(vec![("base", V::Int(1))]),
        m(vec![("base", s("true")), ("name", s(""))]),
        m(vec![("last_updated", V::Int(i64::MAX as i128))]),
        m(vec![("last_updated", V::Int(i64::MAX as i128 + 1))]),
        m(vec![("last_updated", V::Int(i64::MIN as i128))]),
        m(vec![("last_updated", s("1"))]),
        m(vec![("lua_versions", V::Seq(vec![s("lua51"), s("lua99"), s("luajit"), s("")]))]),
        m(vec![("lua_versions", V::Seq(vec![V::Int(51)]))]),
        m(vec![("lua_versions", s("lua51"))]),
        m(vec![("globals", V::Seq(vec![]))]),
        globals_of(vec![("x", V::Null)]),
        globals_of(vec![("x", m(vec![]))]),
        globals_of(vec![("x", f_any.clone())]),
        globals_of(vec![("x", m(vec![("any", V::Bool(false))]))]),
        globals_of(vec![("x", m(vec![("any", V::Null)]))]),
        globals_of(vec![("x", m(vec![("any", s("true"))]))]),
        globals_of(vec![("x", m(vec![("removed", V::Bool(false))]))]),
        globals_of(vec![("x", m(vec![("removed", V::Bool(true)), ("bogus", V::Int(1))]))]),
        globals_of(vec![("x", m(vec![("any", V::Bool(true)), ("property", s("read-only"))]))]),
        globals_of(vec![("x", m(vec![("property", s("read-only")), ("any", V::Bool(true))]))]),
        globals_of(vec![("x", m(vec![("any", V::Bool(false)), ("property", s("read-only"))]))]),
        globals_of(vec![("x", m(vec![("args", V::Seq(vec![])), ("removed", V::Bool(true))]))]),
        globals_of(vec![("x", m(vec![("removed", V::Bool(true)), ("struct", s("S")), ("property", s("full-write"))]))]),
        globals_of(vec![("x", m(vec![("removed", V::Bool(false)), ("struct", s("S"))]))]),
        globals_of(vec![("x", m(vec![("args", V::Null)]))]),
        globals_of(vec![("x", m(vec![("args", V::Null), ("struct", s("S"))]))]),
        globals_of(vec![("x", m(vec![("args", V::Seq(vec![])), ("method", s("yes"))]))]),
        globals_of(vec![("x", m(vec![("args", V::Seq(vec![])), ("method", s("yes")), ("property", s("new-fields"))]))]),
        globals_of(vec![("x", m(vec![("args", V::Seq(vec![])), ("must_use", V::Bool(true)), ("method", V::Bool(false))]))]),
        globals_of(vec![("x", m(vec![("method", V::Bool(true))]))]),
        globals_of(vec![("x", m(vec![("property", s("ReadOnly"))]))]),
        globals_of(vec![("x", m(vec![("property", m(vec![("read-only", V::Null)]))]))]),
        globals_of(vec![("x", m(vec![("property", m(vec![("read-only", V::Bool(true))]))]))]),
        globals_of(vec![("x", m(vec![("property", m(vec![("read-only", V::Null), ("full-write", V::Null)]))]))]),
        globals_of(vec![("x", m(vec![("property", V::Bool(true))]))]),
        globals_of(vec![("x", m(vec![("struct", V::Int(1))]))]),
        globals_of(vec![("x", m(vec![("struct", V::Null)]))]),
        globals_of(vec![("x", m(vec![("any", V::Bool(true)), ("deprecated", V::Null)]))]),
        globals_of(vec![("x", m(vec![("any", V::Bool(true)), ("deprecated", m(vec![("message", s("m"))]))]))]),
        globals_of(vec![("x", m(vec![("any", V::Bool(true)), ("deprecated", m(vec![("message", s("m")), ("replace", V::Null)]))]))]),
        globals_of(vec![("x", m(vec![("any", V::Bool(true)), ("deprecated", m(vec![("replace", V::Seq(vec![]))]))]))]),
        globals_of(vec![("x", m(vec![("any", V::Bool(true)), ("deprecated", V::Seq(vec![s("m")]))]))]),
        globals_of(vec![("x", m(vec![("any", V::Bool(true)), ("deprecated", m(vec![("message", s("m")), ("extra", V::Int(1))]))]))]),
        globals_of(vec![("x", m(vec![("any", V::Bool(true)), ("deprecated", s("m"))]))]),
        globals_of(vec![("x", m(vec![("deprecated", m(vec![("message", s("m"))]))]))]),
        // arguments
        globals_of(vec![("f", m(vec![("args", V::Seq(vec![arg(s("number")), arg(s("...")), arg(s("vararg"))]))]))]),
        globals_of(vec![("f", m(vec![("args", V::Seq(vec![arg(V::Seq(vec![])), arg(V::Seq(vec![s("a"), V::Int(1)]))]))]))]),
        globals_of(vec![("f", m(vec![("args", V::Seq(vec![arg(m(vec![("display", s("X"))]))]))]))]),
        globals_of(vec![("f", m(vec![("args", V::Seq(vec![arg(m(vec![("display", s("X")), ("other", s("y"))]))]))]))]),
        globals_of(vec![("f", m(vec![("args", V::Seq(vec![arg(m(vec![("display", s("X")), ("other", V::Int(1))]))]))]))]),
        globals_of(vec![("f", m(vec![("args", V::Seq(vec![arg(m(vec![("other", s("y"))]))]))]))]),
        globals_of(vec![("f", m(vec![("args", V::Seq(vec![arg(V::Null)]))]))]),
        globals_of(vec![("f", m(vec![("args", V::Seq(vec![arg(V::Bool(true))]))]))]),
        globals_of(vec![("f", m(vec![("args", V::Seq(vec![m(vec![])]))]))]),
        globals_of(vec![("f", m(vec![("args", V::Seq(vec![V::Null]))]))]),
        globals_of(vec![("f", m(vec![("args", V::Seq(vec![m(vec![("type", s("any")), ("required", V::Null)])]))]))]),
        globals_of(vec![("f", m(vec![("args", V::Seq(vec![m(vec![("type", s("any")), ("required", s("true"))])]))]))]),
        globals_of(vec![("f", m(vec![("args", V::Seq(vec![m(vec![("type", s("any")), ("required", V::Int(1))])]))]))]),
        globals_of(vec![("f", m(vec![("args", V::Seq(vec![m(vec![("type", s("any")), ("observes", m(vec![("read", V::Null)]))])]))]))]),
        globals_of(vec![("f", m(vec![("args", V::Seq(vec![m(vec![("type", s("any")), ("observes", s("Read"))])]))]))]),
        globals_of(vec![("f", m(vec![("args", V::Seq(vec![m(vec![("type", s("any")), ("deprecated", V::Null)])]))]))]),
        globals_of(vec![("f", m(vec![("args", V::Seq(vec![m(vec![("type", s("any")), ("deprecated", V::Seq(vec![s("old")]))])]))]))]),
        globals_of(vec![("f", m(vec![("args", V::Seq(vec![m(vec![("type", s("any")), ("deprecated", V::Seq(vec![s("old"), V::Seq(vec![s("n(%1)")])]))])]))]))]),
        globals_of(vec![("f", m(vec![("args", V::Seq(vec![m(vec![("type", s("any")), ("deprecated", V::Seq(vec![s("old"), V::Null]))])]))]))]),
        globals_of(vec![("f", m(vec![("args", V::Seq(vec![m(vec![("type", s("any")), ("deprecated", V::Seq(vec![s("old"), V::Seq(vec![]), V::Null]))])]))]))]),
        globals_of(vec![("f", m(vec![("args", V::Seq(vec![m(vec![("type", s("any")), ("deprecated", V::Seq(vec![]))])]))]))]),
        globals_of(vec![("f", m(vec![("args", V::Seq(vec![m(vec![("type", s("any")), ("deprecated", m(vec![("message", s("m")), ("replace", V::Null)]))])]))]))]),
        globals_of(vec![("f", m(vec![("args", V::Seq(vec![m(vec![("type", s("any")), ("bogus", V::Int(1))])]))]))]),
        globals_of(vec![("f", m(vec![("args", V::Seq(vec![V::Seq(vec![V::Bool(false), s("number")])]))]))]),
        globals_of(vec![("f", m(vec![("args", V::Seq(vec![V::Seq(vec![s("msg"), s("number"), s("write")])]))]))]),
        globals_of(vec![("f", m(vec![("args", V::Seq(vec![V::Seq(vec![V::Bool(true), s("number"), s("read"), V::Null])]))]))]),
        globals_of(vec![("f", m(vec![("args", V::Seq(vec![V::Seq(vec![V::Bool(true), s("number"), s("read"), V::Seq(vec![s("old")])])]))]))]),
        globals_of(vec![("f", m(vec![("args", V::Seq(vec![V::Seq(vec![V::Bool(true), s("number"), s("read"), V::Null, V::Null])]))]))]),
        globals_of(vec![("f", m(vec![("args", V::Seq(vec![V::Seq(vec![V::Bool(true)])]))]))]),
        globals_of(vec![("f", m(vec![("args", V::Seq(vec![V::Seq(vec![])]))]))]),
        globals_of(vec![("f", m(vec![("args", V::Seq(vec![s("number")]))]))]),
        globals_of(vec![("f", m(vec![("args", m(vec![]))]))]),
        // structs and classes
        m(vec![("structs", m(vec![("S", V::Null), ("T", m(vec![("x", f_any.clone())]))]))]),
        m(vec![("structs", m(vec![("S", V::Seq(vec![]))]))]),
        m(vec![("roblox_classes", m(vec![("Part", m(vec![("superclass", s("Instance")), ("events", V::Null), ("properties", V::Seq(vec![]))]))]))]),
        m(vec![("roblox_classes", m(vec![("Part", m(vec![("superclass", s("Instance")), ("events", V::Seq(vec![]))]))]))]),
        m(vec![("roblox_classes", m(vec![("Part", m(vec![("superclass", s("Instance")), ("events", V::Seq(vec![])), ("properties", V::Seq(vec![s("Name")])), ("extra", V::Int(1))]))]))]),
        m(vec![("roblox_classes", m(vec![("Part", V::Null)]))]),
        // key order: the loaded map is sorted whatever the document order
        globals_of(vec![("b", f_any.clone()), ("a", f_any.clone()), ("é", f_any.clone()), ("Z", f_any.clone()), ("a.b", f_any.clone()), ("\u{10000}", f_any.clone()), ("\u{ffff}", f_any.clone())]),
    ]
}

// ------------------------------------------------------------------------------------------------
// v1 TOML

fn toml_arg(r: &mut Rng) -> toml::Value {
    let mut t = toml::value::Table::new();
    let ty = match r.below(8) {
        0 => toml::Value::String("any".into()),
        1 => toml::Value::String("number".into()),
        2 => toml::Value::String("...".into()),
        3 | 4 => toml::Value::Array((0..r.below(3)).map(|_| toml::Value::String(text(r, &["count", "step"]))).collect()),
        5 => {
            let mut d = toml::value::Table::new();
            d.insert("display".into(), toml::Value::String(text(r, &["Instance", "Foo"])));
            toml::Value::Table(d)
        }
        6 => toml::Value::String((*r.pick(&["bool", "function", "nil", "string", "table"])).into()),
        _ => toml::Value::String("number".into()),
    };
    t.insert("type".into(), ty);
    match r.below(5) {
        0 => {
            t.insert("required".into(), toml::Value::Boolean(false));
        }
        1 => {
            t.insert("required".into(), toml::Value::String(text(r, &["needs this"])));
        }
        2 => {
            t.insert("required".into(), toml::Value::Boolean(true));
        }
        _ => {}
    }
    toml::Value::Table(t)
}

const V1_NAMES: &[&str] = &["b", "c", "b.c", "a", "a.b", "c.b", "b.c.b", "*", "x y", "é", "0", "true", "new", "#"];

/// skewed towards the first few names so that dotted child keys collide with nested paths
fn v1_name(r: &mut Rng) -> String {
    let i = r.below(V1_NAMES.len()).min(r.below(V1_NAMES.len())).min(r.below(V1_NAMES.len()));
    V1_NAMES[i].to_owned()
}

fn toml_field(r: &mut Rng, depth: usize, out: &mut Out) -> toml::Value {
    let mut t = toml::value::Table::new();
    match r.below(if depth == 0 { 9 } else { 14 }) {
        0 => {
            t.insert("any".into(), toml::Value::Boolean(true));
        }
        1 => {
            t.insert("removed".into(), toml::Value::Boolean(true));
        }
        2 | 3 => {
            t.insert("property".into(), toml::Value::Boolean(true));
            if r.chance(2, 3) {
                t.insert("writable".into(), toml::Value::String((*r.pick(&["new-fields", "overridden", "full"])).into()));
            }
        }
        4 => {
            t.insert("struct".into(), toml::Value::String(text(r, &["S", "T"])));
        }
        5 | 6 | 7 | 8 => {
            if r.chance(4, 5) {
                t.insert("args".into(), toml::Value::Array((0..r.below(4)).map(|_| toml_arg(r)).collect()));
            }
            if r.chance(1, 3) {
                t.insert("method".into(), toml::Value::Boolean(true));
            }
            if t.is_empty() {
                t.insert("args".into(), toml::Value::Array(vec![]));
            }
            if depth > 0 && r.chance(1, 3) {
                for _ in 0..1 + r.below(2) {
                    t.insert(v1_name(r), toml_field(r, depth - 1, out));
                }
            }
            if r.chance(1, 25) {
                // rejected by v1: both a property and a function
                t.insert("property".into(), toml::Value::Boolean(true));
            }
        }
        _ => {
            // a plain table of children
            for _ in 0..1 + r.below(3) {
                t.insert(v1_name(r), toml_field(r, depth - 1, out));
            }
            if r.chance(1, 6) {
                t.insert("any".into(), toml::Value::Boolean(false));
            }
        }
    }
    toml::Value::Table(t)
}

fn gen_v1_toml(r: &mut Rng, out: &mut Out) -> String {
    let mut root = toml::value::Table::new();
    if r.chance(1, 2) {
        let mut meta = toml::value::Table::new();
        if r.chance(1, 2) {
            meta.insert("base".into(), toml::Value::String(text(r, &["lua51", "roblox"])));
        }
        if r.chance(1, 3) {
            meta.insert("name".into(), toml::Value::String(text(r, &["mylib"])));
        }
        if r.chance(1, 2) {
            let mut structs = toml::value::Table::new();
            for _ in 0..r.below(3) {
                let mut fields = toml::value::Table::new();
                for _ in 0..r.below(4) {
                    fields.insert(v1_name(r), toml_field(r, 1, out));
                }
                structs.insert(text(r, &["S", "T"]), toml::Value::Table(fields));
            }
            meta.insert("structs".into(), toml::Value::Table(structs));
        }
        root.insert("selene".into(), toml::Value::Table(meta));
    }
    for _ in 0..r.below(6) {
        let name = if r.chance(1, 8) { hostile(r) } else { v1_name(r) };
        if name == "selene" {
            continue;
        }
        root.insert(name, toml_field(r, 3, out));
    }
    toml::to_string(&toml::Value::Table(root)).expect("toml emit")
}

fn is_lua_ident(s: &str) -> bool {
    const KW: &[&str] = &["and", "break", "do", "else", "elseif", "end", "false", "for", "function", "if", "in", "local",
        "nil", "not", "or", "repeat", "return", "then", "true", "until", "while", "goto", "continue"];
    let mut cs = s.chars();
    match cs.next() {
        Some(c) if c.is_ascii_alphabetic() || c == '_' => {}
        _ => return false,
    }
    cs.all(|c| c.is_ascii_alphanumeric() || c == '_') && !KW.contains(&s)
}

/// a program that reads, calls, indexes and assigns every name of the library that can be written in Lua
fn lua_program_for(lib: &StandardLibrary) -> String {
    let mut p = String::from("local unused_local = 1\nprint(zzz_undefined)\n");
    for k in lib.globals.keys() {
        let segs: Vec<String> = k.split('.').map(|x| if x == "*" { "anything".to_owned() } else { x.to_owned() }).collect();
        if !segs.iter().all(|x| is_lua_ident(x)) {
            continue;
        }
        let path = segs.join(".");
        p.push_str(&format!("print({path})\n{path}(1, \"x\")\n{path}()\nlocal _ = {path}.zzz\n{path}.extra = 1\n{path} = nil\n"));
        if segs.len() > 1 {
            let (last, init) = segs.split_last().unwrap();
            p.push_str(&format!("{}:{last}(1)\n", init.join(".")));
        }
    }
    p
}

fn sample_paths(lib: &StandardLibrary, r: &mut Rng) -> Vec<Vec<String>> {
    let mut paths: Vec<Vec<String>> = Vec::new();
    for k in lib.globals.keys() {
        let segs: Vec<String> = k.split('.').map(|x| x.to_owned()).collect();
        for i in 1..=segs.len() {
            paths.push(segs[..i].to_vec());
        }
        let mut ext = segs.clone();
        ext.push((*r.pick(&["zzz", "a", "b", "*"])).to_owned());
        paths.push(ext);
        let mut sub = segs.clone();
        let i = r.below(sub.len());
        sub[i] = (*r.pick(&["zzz", "a", "q"])).to_owned();
        paths.push(sub);
    }
    paths.push(vec!["zzz".to_owned()]);
    paths
}

fn v1_case(out: &mut Out, toml_text: &str, r: &mut Rng, selene: Option<&str>, scratch: &str, idx: usize) {
    let parsed = std::panic::catch_unwind(|| toml::from_str::<v1::StandardLibrary>(toml_text));
    let v1lib = match parsed {
        Ok(Ok(l)) => l,
        Ok(Err(_)) => {
            out.bump("v1_toml_rejected");
            return;
        }
        Err(_) => {
            out.bump("v1_toml_panicked");
            return;
        }
    };
    out.bump("v1_toml_loaded");
    let input = v1_lib_sx(&v1lib);
    let lib: StandardLibrary = v1lib.into();
    let lib_printed = flib_sx(&lib);
    // what `selene upgrade-std` writes, reloaded as the CLI would
    let yaml = serde_yaml::to_string(&lib);
    let (yaml_verdict, reloaded) = match &yaml {
        Err(e) => (tagged("fails", vec![st(format!("to_string: {e}"))]), None),
        Ok(text) => match serde_yaml::from_str::<StandardLibrary>(text) {
            Ok(back) if back == lib => (atom("ok"), Some(back)),
            Ok(back) => (tagged("differs", vec![flib_sx(&back), st(short(text))]), Some(back)),
            Err(e) => (tagged("fails", vec![st(format!("from_str: {e}")), st(short(text))]), None),
        },
    };
    // the real binary on scratch files
    let bin_verdict = match (selene, &yaml) {
        (Some(exe), Ok(expected)) => {
            let dir = format!("{scratch}/upgrade");
            std::fs::create_dir_all(&dir).unwrap();
            let toml_path = format!("{dir}/lib{idx}.toml");
            let yml_path = format!("{dir}/lib{idx}.yml");
            let _ = std::fs::remove_file(&yml_path);
            std::fs::write(&toml_path, toml_text).unwrap();
            let res = std::process::Command::new(exe).arg("upgrade-std").arg(&toml_path).output();
            match res {
                Err(e) => tagged("fails", vec![st(format!("spawn: {e}"))]),
                Ok(o) if !o.status.success() => {
                    tagged("fails", vec![st(format!("exit {:?}: {}", o.status.code(), short(&String::from_utf8_lossy(&o.stderr))))])
                }
                Ok(_) => match std::fs::read_to_string(&yml_path) {
                    Err(e) => tagged("fails", vec![st(format!("no output file: {e}"))]),
                    Ok(written) => {
                        out.bump("v1_upgrade_std_binary_runs");
                        match serde_yaml::from_str::<StandardLibrary>(&written) {
                            Ok(back) if back == lib => {
                                if &written == expected {
                                    atom("ok")
                                } else {
                                    tagged("differs", vec![st("file text differs from in-process to_string"), st(short(&written))])
                                }
                            }
                            Ok(back) => tagged("differs", vec![flib_sx(&back), st(short(&written))]),
                            Err(e) => tagged("fails", vec![st(format!("from_str: {e}")), st(short(&written))]),
                        }
                    }
                },
            }
        }
        _ => atom("skipped"),
    };
    // identical diagnostics: the real CLI on a program that uses the library's names, once with the
    // TOML file and once with the YAML file `upgrade-std` wrote
    let cli_verdict = match (selene, bin_verdict == atom("ok")) {
        (Some(exe), true) => {
            let program = lua_program_for(&lib);
            let mut outputs = Vec::new();
            for (sub, ext) in [("toml", "toml"), ("yml", "yml")] {
                let d = format!("{scratch}/cli/{idx}/{sub}");
                std::fs::create_dir_all(&d).unwrap();
                std::fs::copy(format!("{scratch}/upgrade/lib{idx}.{ext}"), format!("{d}/lib.{ext}")).unwrap();
                std::fs::write(format!("{d}/selene.toml"), "std = \"lib\"\n").unwrap();
                std::fs::write(format!("{d}/prog.lua"), &program).unwrap();
                let o = std::process::Command::new(exe)
                    .args(["--display-style", "json2", "--num-threads", "1", "prog.lua"])
                    .current_dir(&d)
                    .env_remove("SELENE_VERIF_TRACE")
                    .output();
                match o {
                    Ok(o) => outputs.push((o.status.code(), String::from_utf8_lossy(&o.stdout).into_owned())),
                    Err(e) => outputs.push((None, format!("spawn: {e}"))),
                }
            }
            out.bump("v1_cli_diagnostics_compared");
            if outputs[0].1.contains("\"type\":\"Diagnostic\"") {
                out.bump("v1_cli_runs_with_diagnostics");
            }
            if outputs[0] == outputs[1] {
                atom("ok")
            } else {
                tagged("differs", vec![st(short(&program)), st(short(&outputs[0].1)), st(short(&outputs[1].1))])
            }
        }
        _ => atom("skipped"),
    };
    // lookups (after all equality comparisons: find_global fills the skipped cache field)
    let find_verdict = match &reloaded {
        None => atom("skipped"),
        Some(back) => {
            let mut bad = None;
            let paths = sample_paths(&lib, r);
            out.add("v1_find_global_paths", paths.len() as u64);
            for p in paths {
                // a library naming a struct it does not define makes find_global panic (C06's concern);
                // here only "both sides behave the same" matters
                let a = std::panic::catch_unwind(std::panic::AssertUnwindSafe(|| lib.find_global(&p).cloned()));
                let b = std::panic::catch_unwind(std::panic::AssertUnwindSafe(|| back.find_global(&p).cloned()));
                match (a, b) {
                    (Ok(a), Ok(b)) => {
                        if a != b {
                            bad = Some(tagged("differs", vec![st(p.join(".")), opt_field_sx(a.as_ref()), opt_field_sx(b.as_ref())]));
                            break;
                        }
                    }
                    (Err(_), Err(_)) => out.bump("v1_find_global_both_panic_missing_struct"),
                    _ => {
                        bad = Some(tagged("differs", vec![st(p.join(".")), st("one side panicked")]));
                        break;
                    }
                }
            }
            bad.unwrap_or_else(|| atom("ok"))
        }
    };
    out.case("C17.v1", &input, &tagged("out", vec![lib_printed, yaml_verdict, find_verdict, bin_verdict, cli_verdict]));
}

// ------------------------------------------------------------------------------------------------

fn walk(dir: &str, acc: &mut Vec<String>) {
    if let Ok(rd) = std::fs::read_dir(dir) {
        let mut entries: Vec<_> = rd.filter_map(|e| e.ok()).collect();
        entries.sort_by_key(|e| e.path());
        for e in entries {
            let p = e.path();
            if p.is_dir() {
                walk(p.to_str().unwrap(), acc);
            } else {
                acc.push(p.to_str().unwrap().to_owned());
            }
        }
    }
}

pub fn run(args: &Args, out: &mut Out) {
    let mut rng = Rng::new(args.seed);
    let selene: Option<String> = args
        .rest
        .iter()
        .position(|a| a == "--selene")
        .and_then(|i| args.rest.get(i + 1).cloned())
        .filter(|p| std::path::Path::new(p).exists());
    let binary_cases = if args.tier == "thorough" { 300 } else { 40 };

    // ---- shipped libraries and the repository's fixtures ------------------------------------
    let mut files = Vec::new();
    walk("/repo/selene-lib/default_std", &mut files);
    walk("/repo/selene-lib/tests", &mut files);
    walk("/repo/selene/tests", &mut files);
    let mut v1_idx = 0usize;
    for f in &files {
        if f.ends_with(".yml") || f.ends_with(".yaml") {
            let Ok(text) = std::fs::read_to_string(f) else { continue };
            let Ok(val) = serde_yaml::from_str::<serde_yaml::Value>(&text) else {
                out.bump("fixture_yaml_unparsable");
                continue;
            };
            if !yaml_in_fragment(&val) {
                out.bump("fixture_yaml_outside_fragment");
                continue;
            }
            out.bump("fixture_yaml_documents");
            de_case(out, &v_from_yaml(&val));
            if let Ok(lib) = serde_yaml::from_value::<StandardLibrary>(val) {
                out.bump("fixture_yaml_libraries");
                ser_case(out, &lib);
            }
        } else if f.ends_with(".toml") && !f.ends_with("selene.toml") {
            let Ok(text) = std::fs::read_to_string(f) else { continue };
            out.bump("fixture_toml_files");
            v1_case(out, &text, &mut rng, selene.as_deref(), &args.out, v1_idx);
            v1_idx += 1;
        }
    }
    // the effective built-in libraries (after base merging), incl. the Roblox base
    for name in ["lua51", "lua52", "lua53", "luau"] {
        if let Some(lib) = StandardLibrary::from_name(name) {
            // from_name may have touched the cache; compare through a clean clone of the serialised form
            let clean: StandardLibrary = serde_yaml::from_value(serde_yaml::to_value(&lib).unwrap()).unwrap();
            ser_case(out, &clean);
            out.bump("builtin_effective_libraries");
        }
    }

    // ---- excluded points of the round-trip theorem, on the real code ----------------------------
    for known in ["lua51", "lua52", "lua53", "lua54", "luau", "luajit"] {
        for extra in [None, Some(LuaVersion::Lua51), Some(LuaVersion::Unknown("lua99".to_owned()))] {
            let mut lib = StandardLibrary::default();
            lib.lua_versions.push(LuaVersion::Unknown(known.to_owned()));
            if let Some(e) = extra {
                lib.lua_versions.push(e);
            }
            let val = serde_yaml::to_value(&lib).unwrap();
            let reloaded: StandardLibrary = serde_yaml::from_value(val.clone()).expect("excluded point still loads");
            if reloaded != lib {
                out.bump("excluded_point_roundtrip_differs");
            }
            out.case("C17.excluded", &flib_sx(&lib), &tagged("out", vec![v_sx(&v_from_yaml(&val)), flib_sx(&reloaded)]));
        }
    }

    // ---- hand-written documents ------------------------------------------------------------------
    for d in handwritten_docs() {
        out.bump("handwritten_documents");
        de_case(out, &d);
    }

    // ---- generated libraries: ser + both round trips; their documents, intact and mutated ------
    for i in 0..args.n {
        let lib = gen_lib17(&mut rng);
        ser_case(out, &lib);
        let doc = v_from_yaml(&serde_yaml::to_value(&lib).unwrap());
        if i % 4 == 0 {
            out.bump("de_intact_documents");
            de_case(out, &doc);
        }
        for round in 0..3 {
            let gentle = round < 2;
            let mut d = doc.clone();
            let k = if gentle { 1 + rng.below(6) } else { 1 + rng.below(2) };
            for _ in 0..k {
                let n = count_nodes(&d);
                let mut target = rng.below(n) as isize;
                mutate_at(&mut d, &mut target, &mut rng, out, gentle);
            }
            if d == doc {
                continue;
            }
            out.bump(if gentle { "de_gently_mutated_documents" } else { "de_mutated_documents" });
            de_case(out, &d);
        }
        if i % 3 == 0 {
            out.bump("de_random_documents");
            let d = small_value(&mut rng, 3);
            let d = match d {
                V::Map(_) => d,
                other if rng.chance(1, 2) => m(vec![("globals", m(vec![("x", other)]))]),
                other => other,
            };
            de_case(out, &d);
        }
    }

    // ---- generated v1 TOML -----------------------------------------------------------------------
    for i in 0..args.n {
        let text = gen_v1_toml(&mut rng, out);
        let exe = if i < binary_cases { selene.as_deref() } else { None };
        v1_case(out, &text, &mut rng, exe, &args.out, v1_idx);
        v1_idx += 1;
    }
    if selene.is_none() {
        out.bump("selene_binary_absent");
    }
}
