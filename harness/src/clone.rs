//! manual_table_clone (model: Selene.Scope.ManualTableClone): the lint under a library that has `table.clone` (luau)
//! and under one that has not (lua51), on programs built around the shape it looks for.
use crate::astdump;
use crate::rng::Rng;
use crate::scope::programs;
use crate::sx::*;
use crate::{Args, Out};
use full_moon::ast;
use full_moon::tokenizer::TokenType;
use full_moon::visitors::Visitor;
use selene_lib::standard_library::StandardLibrary;
use selene_lib::{Checker, CheckerConfig};

/// the comments in front of every generic `for` (what `has_filter_comment` reads)
struct ForComments<'a> {
    d: &'a astdump::Dumper,
    found: Vec<Sx>,
}

impl Visitor for ForComments<'_> {
    fn visit_generic_for(&mut self, node: &ast::GenericFor) {
        let tok = node.for_token();
        let mut comments = Vec::new();
        for t in tok.leading_trivia() {
            match t.token_type() {
                TokenType::SingleLineComment { comment } => comments.push(st(comment.to_string())),
                TokenType::MultiLineComment { comment, .. } => comments.push(st(comment.to_string())),
                _ => {}
            }
        }
        if let Some(i) = self.d.idx_of_start(tok.token().start_position().bytes()) {
            if !comments.is_empty() {
                self.found.push(list(vec![num(i), list(comments)]));
            }
        }
    }
}

fn span_sx(d: &astdump::Dumper, range: (u32, u32)) -> Sx {
    match (d.by_start.get(&(range.0 as usize)), d.by_end.get(&(range.1 as usize))) {
        (Some(a), Some(b)) => list(vec![num(*a), num(*b)]),
        _ => list(vec![atom("byte"), num(range.0), num(range.1)]),
    }
}

fn diags_sx(checker: &Checker<toml::value::Value>, ast: &ast::Ast, d: &astdump::Dumper) -> Sx {
    let diags = checker.verif_test_on_unfiltered(ast);
    let mut v: Vec<(u32, u32, Sx)> = Vec::new();
    for x in diags.iter().filter(|x| x.diagnostic.code == "manual_table_clone") {
        let secondary: Vec<Sx> = x
            .diagnostic
            .secondary_labels
            .iter()
            .map(|l| list(vec![span_sx(d, l.range), st(l.message.clone().unwrap_or_default())]))
            .collect();
        v.push((
            x.diagnostic.primary_label.range.0,
            x.diagnostic.primary_label.range.1,
            list(vec![
                span_sx(d, x.diagnostic.primary_label.range),
                st(&x.diagnostic.message),
                list(secondary),
                list(x.diagnostic.notes.iter().map(st).collect()),
            ]),
        ));
    }
    v.sort_by(|a, b| (a.0, a.1).cmp(&(b.0, b.1)));
    list(v.into_iter().map(|x| x.2).collect())
}

/// a program around one loop of (nearly) the shape the lint looks for
fn gen(r: &mut Rng, out: &mut Out) -> String {
    let t = *r.pick(&["t", "copy", "result", "pairs_copy"]);
    let x = *r.pick(&["x", "source", "a.b", "f()", "{1, 2}", "x[1]", "(x)", "x.y[ z ]", "\" s \""]);
    let def = match if r.chance(3, 5) { 0 } else { r.below(12) } {
        0..=4 => format!("local {t} = {{}}"),
        5 => format!("local {t} = {{ }}"),
        6 => format!("local {t} = {{1}}"),
        7 => format!("local {t}"),
        8 => format!("local a, {t} = 1, {{}}"),
        9 => format!("{t} = {{}}"),
        10 => format!("local {t} = ({{}})"),
        _ => format!("local {t}, b = {{}}, {{}}"),
    };
    let between = match if r.chance(1, 2) { 0 } else { r.below(14) } {
        0..=5 => String::new(),
        6 => "print(1)\n".to_owned(),
        7 => format!("print({t})\n"),
        8 => format!("local u = {t}\n"),
        9 => "do end\n".to_owned(),
        10 => "if x then print(1) end\n".to_owned(),
        11 => "local function helper() return 1 end\n".to_owned(),
        12 => format!("{t}.field = 1\n"),
        _ => "local u = function() local w = 1 return w end\n".to_owned(),
    };
    let iter = match if r.chance(2, 5) { r.below(10) } else { r.below(20) } {
        0..=4 => format!("pairs({x})"),
        5 | 6 => format!("ipairs({x})"),
        7 => format!("next, {x}"),
        8 => x.to_owned(),
        9 => format!("(pairs({x}))"),
        10 => format!("pairs({x}, y)"),
        11 => "pairs()".to_owned(),
        12 => format!("{}({x})", r.pick(&["spairs", "opairs", "xipairs", "what", "nextpairs"])),
        13 => format!("(pairs)({x})"),
        14 => "pairs\"x\"".to_owned(),
        15 => format!("{x}:pairs()"),
        16 => format!("pairs({x})(y)"),
        17 => format!("next, {x}, nil"),
        18 => format!("nxt, {x}"),
        _ => format!("( ( ipairs({x}) ) )"),
    };
    let names = match if r.chance(3, 4) { 0 } else { r.below(8) } {
        0..=4 => "k, v",
        5 => "k",
        6 => "k, v, w",
        _ => "_, v",
    };
    let body = match if r.chance(3, 5) { 0 } else { r.below(18) } {
        0..=5 => format!("{t}[k] = v"),
        6 => format!("{t}[k] = v;"),
        7 => format!("{t}[v] = k"),
        8 => format!("{t}[k] = v, 1"),
        9 => format!("{t}[k], u = v"),
        10 => format!("{t}.k = v"),
        11 => format!("{t}[k] = v return"),
        12 => format!("{t}[k] = v break"),
        13 => format!("({t})[k] = v"),
        14 => format!("{t}[k] = (v)"),
        15 => format!("{t}[(k)] = v"),
        16 => format!("{t}[k] = v print(1)"),
        _ => "other[k] = v".to_owned(),
    };
    let comment = match r.below(14) {
        // comments that merely look like filters: an extra dash, a word in front (ordinary comments everywhere in selene)
        10 => "--- selene: allow(manual_table_clone)\n",
        11 => "---- selene: deny(manual_table_clone)\n",
        12 => "-- see selene: allow(manual_table_clone)\n",
        13 => "--[[- selene: allow(manual_table_clone) ]]\n",
        0..=4 => "",
        5 => "-- selene: allow(manual_table_clone)\n",
        6 => "-- an ordinary note\n",
        7 => "--[[ selene: deny(manual_table_clone) ]]\n",
        8 => "-- selene: allow(unused_variable, manual_table_clone)\n",
        _ => "-- selene: allow(unused_variable)\n",
    };
    let the_loop = format!("{comment}for {names} in {iter} do {body} end\n");
    let after = format!("print({t})\n");
    let shape = r.below(9);
    out.bump(&format!("clone_shape_{shape}"));
    match shape {
        // definition and loop in the same block
        0..=3 => format!("{def}\n{between}{the_loop}{after}"),
        // both inside one enclosing statement
        4 => format!("do\n{def}\n{between}{the_loop}{after}end\n"),
        5 => format!("local function outer(x)\n{def}\n{between}{the_loop}return {t}\nend\nprint(outer)\n"),
        // the loop one statement deeper than the definition
        6 => format!("{def}\n{between}do\n{the_loop}end\n{after}"),
        7 => format!("{def}\n{between}if x then\n{the_loop}end\n{after}"),
        // … inside a function literal of a later statement
        _ => format!("{def}\n{between}local fill = function()\n{the_loop}end\nfill()\n{after}"),
    }
}

pub fn run(args: &Args, out: &mut Out) {
    let mut rng = Rng::new(args.seed ^ 0xC10E);
    let luau = StandardLibrary::from_name("luau").unwrap();
    let checker: Checker<toml::value::Value> = Checker::new(CheckerConfig::default(), luau).unwrap();
    let checker51: Checker<toml::value::Value> = Checker::new(CheckerConfig::default(), StandardLibrary::from_name("lua51").unwrap()).unwrap();
    let mut progs = programs(args, out, &mut rng, "/verif/corpus/clone");
    for i in 0..args.n * 4 {
        progs.push((format!("clone-gen:{i}"), gen(&mut rng, out)));
    }
    for (origin, src) in progs {
        let ast = match full_moon::parse(&src) {
            Ok(a) => a,
            Err(_) => {
                out.bump("does_not_parse");
                continue;
            }
        };
        let (chunk, supported, d) = astdump::dump(&ast);
        if !supported {
            out.bump("unsupported_syntax");
            continue;
        }
        let mut fc = ForComments { d: &d, found: Vec::new() };
        fc.visit_ast(&ast);
        let toks = list(d.tokens.iter().map(|t| st(&t.4)).collect());
        let result = std::panic::catch_unwind(std::panic::AssertUnwindSafe(|| list(vec![diags_sx(&checker, &ast, &d), diags_sx(&checker51, &ast, &d)])));
        let imp = match result {
            Ok(x) => x,
            Err(_) => atom("panic"),
        };
        out.case("CLONE.prog", &list(vec![chunk, st(&origin), st(&src), list(fc.found), toks]), &imp);
        // a comment that merely looks like a filter is an ordinary comment: the program and the same program with a plain note
        // in its place are diagnosed alike (C13), whole Checker, filters applied
        for near in ["--- selene: allow(manual_table_clone)\n", "---- selene: deny(manual_table_clone)\n", "-- see selene: allow(manual_table_clone)\n", "--[[- selene: allow(manual_table_clone) ]]\n"] {
            if src.contains(near) {
                let plain = src.replace(near, "-- an ordinary note\n");
                if let (Some(a), Some(b)) = (crate::twin::run_checker(&checker, &plain), crate::twin::run_checker(&checker, &src)) {
                    out.bump("near_filter_comment_pairs");
                    out.case(
                        "REL.c13",
                        &list(vec![st(&origin), st(&plain), st(&src)]),
                        &list(vec![boolean(a.2.tokens.len() == b.2.tokens.len()), list(a.0.iter().map(st).collect()), list(b.0.iter().map(st).collect())]),
                    );
                }
            }
        }
    }
}
