//! C04 (half B): the statement-level closed-form lints — unbalanced_assignments, empty_if, empty_loop,
//! if_same_then_else, ifs_same_cond, almost_swapped, mismatched_arg_count, multiple_statements.
//!
//! Per program: dump the AST, run the real checker (default configuration, all lints, no filtering), keep
//! the diagnostics of the eight lints, map their byte ranges to token boundaries and print one case
//! `C04B.prog (chunk origin source token-texts expectation) (diagnostic…)`.
use crate::astdump;
use crate::luagen;
use crate::rng::Rng;
use crate::sx::*;
use crate::{Args, Out};
use selene_lib::standard_library::StandardLibrary;
use selene_lib::{Checker, CheckerConfig};

pub const CODES: [&str; 8] = [
    "unbalanced_assignments",
    "empty_if",
    "empty_loop",
    "if_same_then_else",
    "ifs_same_cond",
    "almost_swapped",
    "mismatched_arg_count",
    "multiple_statements",
];

/// a byte range in token space: `(i j)` = from the start of token i to the end of token j.  A range that ends
/// inside trivia (two labels end at the *start* of the following token) is reported up to the last token that ends
/// before it — token space does not see trivia.
fn span_sx(d: &astdump::Dumper, range: (u32, u32)) -> Sx {
    let a = d.by_start.get(&(range.0 as usize));
    let end = range.1 as usize;
    let b = match d.by_end.get(&end) {
        Some(b) => Some(*b),
        None => d
            .tokens
            .iter()
            .enumerate()
            .filter(|(_, t)| t.1 <= end && t.0 < t.1)
            .map(|(i, _)| i)
            .last(),
    };
    match (a, b) {
        (Some(a), Some(b)) => list(vec![num(*a), num(b)]),
        _ => list(vec![atom("byte"), num(range.0), num(range.1)]),
    }
}

/// token indices of the separators between table-constructor fields (`Punctuated::similar` ignores them)
struct SepVisitor {
    starts: Vec<usize>,
}
impl full_moon::visitors::Visitor for SepVisitor {
    fn visit_table_constructor(&mut self, t: &full_moon::ast::TableConstructor) {
        for p in t.fields().pairs() {
            if let Some(tok) = p.punctuation() {
                self.starts.push(tok.token().start_position().bytes());
            }
        }
    }
}

fn diags_sx(checker: &Checker<toml::value::Value>, ast: &full_moon::ast::Ast, d: &astdump::Dumper) -> (Sx, Vec<String>) {
    let diags = checker.verif_test_on_unfiltered(ast);
    let mut v: Vec<(u32, u32, String, Sx)> = Vec::new();
    let mut fired = Vec::new();
    for x in diags.iter().filter(|x| CODES.contains(&x.diagnostic.code)) {
        fired.push(x.diagnostic.code.to_owned());
        let secondary: Vec<Sx> = x.diagnostic.secondary_labels.iter().map(|l| span_sx(d, l.range)).collect();
        v.push((
            x.diagnostic.primary_label.range.0,
            x.diagnostic.primary_label.range.1,
            x.diagnostic.code.to_owned(),
            list(vec![st(x.diagnostic.code), span_sx(d, x.diagnostic.primary_label.range), st(&x.diagnostic.message), list(secondary)]),
        ));
    }
    v.sort_by(|a, b| (a.0, a.1, &a.2).cmp(&(b.0, b.1, &b.2)));
    (list(v.into_iter().map(|x| x.3).collect()), fired)
}

// ------------------------------------------------------------------------------------------------
// operand grammar: every literal in several equivalent spellings

const ZERO: [&str; 5] = ["0", "0.0", "0x0", "0e0", "00"];
const ONE: [&str; 5] = ["1", "1.0", "0x1", "1e0", "01"];
const TWO: [&str; 4] = ["2", "2.0", "0x2", "2e0"];
const STR_A: [&str; 4] = ["\"a\"", "'a'", "[[a]]", "[=[a]=]"];

fn number(r: &mut Rng) -> String {
    match r.below(4) {
        0 => (*r.pick(&ZERO)).to_owned(),
        1 => (*r.pick(&ONE)).to_owned(),
        2 => (*r.pick(&TWO)).to_owned(),
        _ => (*r.pick(&["3", "0x10", "1.5", "1e2", ".5", "3.", "0xA", "1E+2"])).to_owned(),
    }
}

/// a value that is certainly one non-nil value
fn plain_value(r: &mut Rng) -> String {
    match r.below(7) {
        0 | 1 => number(r),
        2 => (*r.pick(&STR_A)).to_owned(),
        3 => (*r.pick(&["true", "false", "{}", "{1, 2}", "{ k = 1 }"])).to_owned(),
        4 => (*r.pick(&["x", "y", "t.k", "t[1]", "t.a.b"])).to_owned(),
        5 => format!("{} {} {}", r.pick(&["x", "1", "t.k"]), r.pick(&["+", "..", "==", "and", "or", "*"]), r.pick(&["y", "2", "'s'"])),
        _ => format!("({})", number(r)),
    }
}

/// a side-effect-free condition, several shapes
fn pure_cond(r: &mut Rng) -> String {
    match r.below(10) {
        0 => "foo".to_owned(),
        1 => "a.b".to_owned(),
        2 => format!("a[{}]", number(r)),
        3 => format!("x == {}", number(r)),
        4 => "not x".to_owned(),
        5 => format!("#t > {}", number(r)),
        6 => "(x)".to_owned(),
        7 => format!("x == {}", r.pick(&STR_A)),
        8 => "a and b or c".to_owned(),
        _ => "t.a.b[k]".to_owned(),
    }
}

fn call_cond(r: &mut Rng) -> String {
    (*r.pick(&["foo()", "a.b()", "a:m()", "x == f()", "not f()", "(f())", "f 's'", "f {}", "{ f() }", "-f()", "a.b.c(1)"])).to_owned()
}

/// a call hidden inside a bracket index
fn index_call_cond(r: &mut Rng) -> String {
    (*r.pick(&["a[f()]", "a[f()].b", "a.b[g(1)]", "x == a[f()]", "a[t:m()]", "not a[f()]", "(a)[f()]"])).to_owned()
}

fn body(r: &mut Rng) -> String {
    match r.below(6) {
        0 => format!("print({})", number(r)),
        1 => "foo()".to_owned(),
        2 => format!("x = {}", plain_value(r)),
        3 => format!("local z = {}\n print(z)", number(r)),
        4 => "foo()\n return".to_owned(),
        _ => format!("t[{}] = {}", number(r), r.pick(&STR_A)),
    }
}

// ------------------------------------------------------------------------------------------------
// template families: (lint, family, expectation, statements to plug)

pub struct Tmpl {
    pub lint: &'static str,
    pub family: &'static str,
    pub positive: bool,
    pub code: String,
    /// keep the plugged statements on one line with the context's own tokens
    pub inline: bool,
}

fn t(lint: &'static str, family: &'static str, positive: bool, code: String) -> Tmpl {
    Tmpl { lint, family, positive, code, inline: false }
}

pub fn template(r: &mut Rng, which: usize) -> Tmpl {
    match which % 8 {
        0 => {
            // unbalanced_assignments
            let loc = if r.chance(1, 2) { "local " } else { "" };
            match r.below(14) {
                0 => t("unbalanced_assignments", "fewer-values", true, format!("{loc}a, b, c = {}", plain_value(r))),
                1 => t("unbalanced_assignments", "fewer-values", true, format!("{loc}a, b, c = {}, {}", plain_value(r), plain_value(r))),
                2 => t("unbalanced_assignments", "more-values", true, format!("{loc}a = {}, {}", plain_value(r), plain_value(r))),
                3 => t("unbalanced_assignments", "more-values", true, format!("{loc}a, b = {}, {}, f()", plain_value(r), plain_value(r))),
                4 => t("unbalanced_assignments", "call-not-last", true, format!("{loc}a, b, c = f(), {}", plain_value(r))),
                5 => t("unbalanced_assignments", "call-last", false, format!("{loc}a, b, c = {}", r.pick(&["f()", "t.f(1)", "o:m()", "f 's'", "f {}", "x, f()"]))),
                6 => t("unbalanced_assignments", "vararg-last", false, format!("{loc}a, b, c = {}", r.pick(&["...", "x, ..."]))),
                7 => t("unbalanced_assignments", "nil-last", false, format!("{loc}a, b, c = {}", r.pick(&["nil", "x, nil", "1, nil"]))),
                8 => t("unbalanced_assignments", "paren-nil-last", false, format!("{loc}a, b, c = {}", r.pick(&["(nil)", "((nil))", "x, (nil)"]))),
                9 => t("unbalanced_assignments", "paren-call-last", false, format!("{loc}a, b, c = {}", r.pick(&["(f())", "((f()))", "x, (f())"]))),
                10 => t("unbalanced_assignments", "balanced", false, format!("{loc}a, b = {}, {}", plain_value(r), plain_value(r))),
                11 => t("unbalanced_assignments", "no-values", false, "local a, b, c".to_owned()),
                12 => t("unbalanced_assignments", "paren-vararg-last", true, format!("{loc}a, b = (...)")),
                _ => t("unbalanced_assignments", "balanced", false, format!("{loc}a = {}", plain_value(r))),
            }
        }
        1 => {
            // empty_if
            let c = pure_cond(r);
            let d = pure_cond(r);
            let b = body(r);
            match r.below(11) {
                0 => t("empty_if", "empty-then", true, format!("if {c} then\nend")),
                1 => t("empty_if", "empty-then", true, format!("if {c} then end")),
                2 => t("empty_if", "empty-then-comment", true, format!("if {c} then\n  -- nothing\nend")),
                3 => t("empty_if", "empty-elseif", true, format!("if {c} then\n  {b}\nelseif {d} then\nend")),
                4 => t("empty_if", "empty-elseif", true, format!("if {c} then\n  {b}\nelseif {d} then\nelseif x then\n  foo()\nelse\n  foo()\nend")),
                5 => t("empty_if", "empty-else", true, format!("if {c} then\n  {b}\nelse\nend")),
                6 => t("empty_if", "all-empty", true, format!("if {c} then\nelseif {d} then --[[c]] else\nend")),
                7 => t("empty_if", "empty-elseif-before-else", true, format!("if {c} then\n  {b}\nelseif {d} then\nelse\n  foo()\nend")),
                8 => t("empty_if", "non-empty", false, format!("if {c} then\n  {b}\nelseif {d} then\n  foo()\nelse\n  bar()\nend")),
                9 => t("empty_if", "only-return", false, format!("if {c} then\n  return\nend")),
                _ => t("empty_if", "only-break", false, format!("while x do\n  if {c} then break end\n  foo()\nend")),
            }
        }
        2 => {
            // empty_loop
            let c = pure_cond(r);
            let n = number(r);
            match r.below(10) {
                0 => t("empty_loop", "generic-for", true, "for _ in pairs(t) do\nend".to_owned()),
                1 => t("empty_loop", "generic-for", true, "for k, v in next, t do end".to_owned()),
                2 => t("empty_loop", "numeric-for", true, format!("for i = {n}, {} do\nend", number(r))),
                3 => t("empty_loop", "numeric-for", true, format!("for i = {n}, 10, {} do -- c\nend", number(r))),
                4 => t("empty_loop", "while", true, format!("while {c} do\nend")),
                5 => t("empty_loop", "repeat", true, format!("repeat\nuntil {c}")),
                6 => t("empty_loop", "repeat", true, format!("repeat --[[ c ]] until {c}")),
                7 => t("empty_loop", "non-empty", false, format!("while {c} do\n  foo()\nend")),
                8 => t("empty_loop", "only-break", false, format!("for i = {n}, 2 do\n  break\nend")),
                _ => t("empty_loop", "non-empty", false, format!("repeat\n  local q = {n}\nuntil q")),
            }
        }
        3 => {
            // if_same_then_else
            let c = pure_cond(r);
            let d = pure_cond(r);
            let b = body(r);
            let n1 = *r.pick(&ONE);
            let n2 = *r.pick(&ONE);
            let s1 = *r.pick(&STR_A);
            let s2 = *r.pick(&STR_A);
            match r.below(14) {
                12 => t("if_same_then_else", "same-else-other-layout", true, format!("if {c} then\n  {b}\n  foo({n1})\nelse\n  {b}\n\n  -- note\n  foo({n1})\nend")),
                13 => t("if_same_then_else", "same-elseif-split-call", true, format!("if {c} then\n  foo({n1}, {s1})\nelseif {d} then\n  foo({n1},\n    {s1})\nend")),
                0 => t("if_same_then_else", "same-else", true, format!("if {c} then\n  {b}\nelse\n  {b}\nend")),
                1 => t("if_same_then_else", "same-else-trivia", true, format!("if {c} then\n  print( 1 , x ) -- c\nelse\n  print(1,x)\nend")),
                2 => t("if_same_then_else", "same-elseif", true, format!("if {c} then\n  {b}\nelseif {d} then\n  {b}\nend")),
                3 => t("if_same_then_else", "same-later", true, format!("if {c} then\n  foo()\nelseif {d} then\n  {b}\nelse\n  {b}\nend")),
                4 => t("if_same_then_else", "three-same", true, format!("if {c} then\n  {b}\nelseif {d} then\n  {b}\nelse\n  {b}\nend")),
                5 => t("if_same_then_else", "respelled-number", n1 == n2, format!("if {c} then\n  print({n1})\nelse\n  print({n2})\nend")),
                6 => t("if_same_then_else", "respelled-string", s1 == s2, format!("if {c} then\n  print({s1})\nelse\n  print({s2})\nend")),
                7 => t("if_same_then_else", "separator", true, format!("if {c} then\n  x = {{1, 2}}\nelse\n  x = {{1; 2}}\nend")),
                8 => t("if_same_then_else", "semicolon", false, format!("if {c} then\n  foo();\nelse\n  foo()\nend")),
                9 => t("if_same_then_else", "different", false, format!("if {c} then\n  foo()\nelse\n  bar()\nend")),
                10 => t("if_same_then_else", "only-return", false, format!("if {c} then\n  return 1\nelse\n  return 1\nend")),
                _ => t("if_same_then_else", "return-after-stmt", true, format!("if {c} then\n  foo()\n  return 1\nelse\n  foo()\n  return 1\nend")),
            }
        }
        4 => {
            // ifs_same_cond
            let c = pure_cond(r);
            let d = pure_cond(r);
            let k = call_cond(r);
            let ix = index_call_cond(r);
            let n1 = *r.pick(&TWO);
            let n2 = *r.pick(&TWO);
            match r.below(13) {
                // conditions that spell the same characters once blanks are dropped, but are different token sequences
                11 => t("ifs_same_cond", "glued-spelling", false, (*r.pick(&[
                    "if a and b then\n  foo()\nelseif aandb then\n  bar()\nend",
                    "if aorb then\n  foo()\nelseif a or b then\n  bar()\nend",
                    "if not x then\n  foo()\nelseif notx then\n  bar()\nend",
                    "if x == 1 then\n  foo()\nelseif x == 11 then\n  bar()\nelseif x1 == 1 then\n  baz()\nend",
                    "if a .. b then\n  foo()\nelseif ab then\n  bar()\nelseif a_b then\n  baz()\nend",
                ])).to_owned()),
                12 => t("if_same_then_else", "glued-spelling", false, (*r.pick(&[
                    "if c then\n  x = a and b\nelse\n  x = aandb\nend",
                    "if c then\n  print(not x)\nelse\n  print(notx)\nend",
                    "if c then\n  f(a, b)\nelse\n  f(ab)\nend",
                ])).to_owned()),
                0 => t("ifs_same_cond", "same", true, format!("if {c} then\n  foo()\nelseif {c} then\n  bar()\nend")),
                1 => t("ifs_same_cond", "same-later", true, format!("if {c} then\n  foo()\nelseif {d} then\n  bar()\nelseif {c} then\n  baz()\nend")),
                2 => t("ifs_same_cond", "same-two-elseifs", true, format!("if {c} then\n  foo()\nelseif {d} then\n  bar()\nelseif {d} then\n  baz()\nelse\n  q()\nend")),
                3 => t("ifs_same_cond", "same-trivia", true, "if x  ==  1 then\n  foo()\nelseif x == --[[c]] 1 then\n  bar()\nend".to_owned()),
                4 => t("ifs_same_cond", "call", false, format!("if {k} then\n  foo()\nelseif {k} then\n  bar()\nend")),
                5 => t("ifs_same_cond", "call-in-index", false, format!("if {ix} then\n  foo()\nelseif {ix} then\n  bar()\nend")),
                6 => t("ifs_same_cond", "respelled-number", n1 == n2, format!("if x == {n1} then\n  foo()\nelseif x == {n2} then\n  bar()\nend")),
                7 => t("ifs_same_cond", "different", c == d, format!("if {c} then\n  foo()\nelseif {d} then\n  bar()\nend")),
                8 => t("ifs_same_cond", "no-elseif", false, format!("if {c} then\n  foo()\nelse\n  bar()\nend\nif {c} then\n  foo()\nend")),
                9 => t("ifs_same_cond", "function-literal", true, "if x == function() f() end then\n  foo()\nelseif x == function() f() end then\n  bar()\nend".to_owned()),
                _ => t("ifs_same_cond", "call-then-pure", true, format!("if {k} then\n  foo()\nelseif {c} then\n  bar()\nelseif {c} then\n  baz()\nend")),
            }
        }
        5 => {
            // almost_swapped
            let (a, b) = *r.pick(&[("a", "b"), ("t.x", "t.y"), ("t[1]", "t[2]"), ("a.b.c", "d"), ("t[k]", "u[k]"), ("a", "t.a")]);
            // any statement between the two halves — whatever its targets look like — means they are no swap attempt
            let between = *r.pick(&[
                "t[f()] = 1", "f().x = 1", "f()[g()] = h()", "t[f()], u = 1, 2", "local z = 1", "z = w", "t.k = 1", "do end",
                "q, p = 1, 2", "f().x, y = 1, 2", "while false do end", "z = f()",
            ]);
            match r.below(14) {
                12 | 13 => t("almost_swapped", "separated-by-statement", false, format!("{a} = {b}\n{between}\n{b} = {a}")),
                0 | 1 => t("almost_swapped", "swap", true, format!("{a} = {b}\n{b} = {a}")),
                2 => t("almost_swapped", "swap-trivia", true, "t . x = t.y -- c\nt.y = t --[[c]] .x".to_owned()),
                3 => t("almost_swapped", "swap-after-assignment", true, format!("x = y\n{a} = {b}\n{b} = {a}")),
                4 => t("almost_swapped", "swap-after-two-assignments", true, format!("x = y\ny = z\n{a} = {b}\n{b} = {a}")),
                5 => t("almost_swapped", "swap-after-other-stmt", true, format!("x = y\nfoo()\n{a} = {b}\n{b} = {a}")),
                6 => t("almost_swapped", "glued-tokens", false, (*r.pick(&["aandb = x\nx = a and b", "notx = y\ny = not x", "x = aorb\na or b = x == nil", "ab = c\nc = a .. b"])).to_owned()),
                7 => t("almost_swapped", "glued-tokens", false, (*r.pick(&["aandb = x\nx = a and b", "notx = y\ny = not x", "x1 = y\ny = x    ", "aorb = t.k\nt.k = a or b"])).to_owned()),
                8 => t("almost_swapped", "not-a-swap", false, format!("{a} = {b}\n{b} = c")),
                9 => t("almost_swapped", "local", false, format!("local a = b\nb = a")),
                10 => t("almost_swapped", "multiple-targets", false, "a, c = b, d\nb, d = a, c".to_owned()),
                _ => t("almost_swapped", "separated", false, format!("{a} = {b}\nfoo()\n{b} = {a}")),
            }
        }
        6 => {
            // mismatched_arg_count
            let args3 = format!("{}, {}, {}", number(r), plain_value(r), r.pick(&STR_A));
            match r.below(18) {
                0 => t("mismatched_arg_count", "local-function", true, format!("local function foo(a, b)\nend\nfoo({args3})")),
                1 => t("mismatched_arg_count", "local-assigned-function", true, format!("local foo = function(a)\nend\nfoo({args3})")),
                2 => t("mismatched_arg_count", "global-function", true, format!("function foo(a, b)\nend\nfoo({args3})")),
                3 => t("mismatched_arg_count", "global-assigned-function", false, format!("foo = function()\nend\nfoo({})", number(r))),
                4 => t("mismatched_arg_count", "too-many-then-call", true, "local function foo(a, b)\nend\nfoo(1, 2, f())".to_owned()),
                5 => t("mismatched_arg_count", "too-many-then-vararg", true, "local function foo(a)\nend\nfoo(1, ...)".to_owned()),
                6 => t("mismatched_arg_count", "string-call", true, format!("local function foo()\nend\nfoo {}", r.pick(&STR_A))),
                7 => t("mismatched_arg_count", "table-call", true, "local function foo()\nend\nfoo { 1, 2 }".to_owned()),
                8 => t("mismatched_arg_count", "enough-parameters", false, format!("local function foo(a, b, c)\nend\nfoo({args3})\nfoo(1)\nfoo()")),
                9 => t("mismatched_arg_count", "vararg-function", false, format!("local function foo(a, ...)\nend\nfoo({args3})\nlocal function bar(...)\nend\nbar({args3})")),
                10 => t("mismatched_arg_count", "open-call-within-bound", false, "local function foo(a, b)\nend\nfoo(1, f())\nfoo(...)\nfoo((f()), 2)".to_owned()),
                11 => t("mismatched_arg_count", "reassigned-wider", false, format!("local function foo(a)\nend\nfunction upd()\n  foo = function(a, b, c, d)\n  end\nend\nfoo({args3})")),
                12 => t("mismatched_arg_count", "reassigned-still-too-many", true, format!("local log\nif FLAG then\n  log = function() end\nelse\n  log = function(message)\n    print(message)\n  end\nend\nlog({args3})")),
                13 => t("mismatched_arg_count", "reassigned-non-function", false, format!("local function foo(a)\nend\nfoo = {}\nfoo({args3})", r.pick(&["print", "select", "other.f", "make()", "bar or baz"]))),
                14 => t("mismatched_arg_count", "reassigned-non-function", false, format!("local foo = function(a)\nend\nif x then\n  foo, bar = {}\nend\nfoo({args3})", r.pick(&["f()", "print, 1", "..."]))),
                15 => t("mismatched_arg_count", "shadowed", false, format!("local function foo(a)\nend\ndo\n  local foo = function(a, b, c)\n  end\n  foo({args3})\nend")),
                16 => t("mismatched_arg_count", "method-or-field", false, format!("local t = {{}}\nfunction t.foo(a)\nend\nfunction t:bar(a)\nend\nt.foo({args3})\nt:bar({args3})")),
                _ => t("mismatched_arg_count", "reassigned-vararg", false, format!("local function foo(a)\nend\nfoo = function(...)\nend\nfoo({args3})")),
            }
        }
        _ => {
            // multiple_statements
            let mut x = match r.below(20) {
                0 => t("multiple_statements", "three-calls", true, "foo() bar() baz()".to_owned()),
                1 => t("multiple_statements", "two-calls", true, format!("foo({}) bar({})", number(r), r.pick(&STR_A))),
                2 => t("multiple_statements", "two-locals", true, format!("local p = {} local q = {}", number(r), plain_value(r))),
                3 => t("multiple_statements", "semicolon", true, "foo(); bar()".to_owned()),
                4 => t("multiple_statements", "call-return", true, "foo() return".to_owned()),
                5 => t("multiple_statements", "one-line-if-call", true, "if x then foo() end".to_owned()),
                6 => t("multiple_statements", "one-line-if-return-then-call", true, "if x then return end foo()".to_owned()),
                7 => t("multiple_statements", "call-then-one-line-if", true, "foo() if x then return end".to_owned()),
                8 => t("multiple_statements", "one-line-do", true, "do foo() end".to_owned()),
                9 => t("multiple_statements", "one-line-if-return", false, (*r.pick(&["if x then return end", "if x then return 1, 2 end", "while y do if x then break end\nend"])).to_owned()),
                10 => t("multiple_statements", "separate-lines", false, "foo()\nbar()\nbaz()".to_owned()),
                11 => t("multiple_statements", "multi-line-call", true, "foo(\n  1\n) bar()".to_owned()),
                12 => t("multiple_statements", "multi-line-string", true, "x = [[\n]] y = 2".to_owned()),
                13 => t("multiple_statements", "two-line-if", true, "if x then\n  return end".to_owned()),
                // a second statement on the closing line of a multi-line statement whose body holds statements of its own
                14 => t("multiple_statements", "after-multi-line-if", true, "if x then\n  foo()\nend bar()".to_owned()),
                15 => t("multiple_statements", "after-multi-line-callback", true, "foo(function()\n  bar()\nend) baz()".to_owned()),
                16 => t("multiple_statements", "after-multi-line-loop", true, format!("{}\n  foo()\n  bar()\nend baz()", r.pick(&["while x do", "for i = 1, 2 do", "do", "for k in pairs(x) do"]))),
                17 => t("multiple_statements", "after-nested-multi-line", true, "if x then\n  if y then\n    foo()\n  end\n  bar()\nend baz()".to_owned()),
                18 => t("multiple_statements", "after-multi-line-function", true, "local function p()\n  foo()\nend local q = 1".to_owned()),
                _ => t("multiple_statements", "after-multi-line-repeat", true, "repeat\n  foo()\nuntil x bar()".to_owned()),
            };
            x.inline = r.chance(1, 3);
            x
        }
    }
}

// ------------------------------------------------------------------------------------------------
// enclosing contexts

fn filler(r: &mut Rng) -> String {
    match r.below(9) {
        0 => "foo()".to_owned(),
        1 => format!("x = {}", plain_value(r)),
        2 => format!("local w = {}", plain_value(r)),
        3 => "x, y = y, x".to_owned(),
        4 => "t.k = v".to_owned(),
        5 => "do\n  bar()\nend".to_owned(),
        6 => "local function helper(p, q)\n  return p\nend".to_owned(),
        7 => "y = z".to_owned(),
        _ => "t:m(1)".to_owned(),
    }
}

fn indent(s: &str) -> String {
    s.lines().map(|l| format!("  {l}")).collect::<Vec<_>>().join("\n")
}

/// put `inner` (one or more statements) into one more enclosing construct
fn wrap_once(r: &mut Rng, inner: &str, inline: bool) -> (String, &'static str) {
    if inline {
        return match r.below(6) {
            0 => (format!("do {inner} end"), "inline-do"),
            1 => (format!("if c1 then {inner} end"), "inline-if"),
            2 => (format!("local function g(...) {inner} end"), "inline-function"),
            3 => (format!("if (function(...) {inner} end)() then\n  return\nend"), "function-in-if-condition"),
            4 => (format!("while c1 do {inner} end"), "inline-while"),
            _ => (format!("h(function(...) {inner} end)"), "inline-callback"),
        };
    }
    let i = indent(inner);
    match r.below(15) {
        0 => (format!("do\n{i}\nend"), "do"),
        1 => (format!("while c1 do\n{i}\nend"), "while"),
        2 => (format!("repeat\n{i}\nuntil c2"), "repeat"),
        3 => (format!("if c1 then\n{i}\nend"), "if-then"),
        4 => (format!("if c1 then\n  foo()\nelse\n{i}\nend"), "if-else"),
        5 => (format!("if c1 then\n  foo()\nelseif c2 then\n{i}\nelse\n  bar()\nend"), "if-elseif"),
        6 => (format!("for i = 1, 2 do\n{i}\nend"), "numeric-for"),
        7 => (format!("for k, v in pairs(t) do\n{i}\nend"), "generic-for"),
        8 => (format!("function g(p, ...)\n{i}\nend"), "function"),
        9 => (format!("local function g(...)\n{i}\nend"), "local-function"),
        10 => (format!("local h = function(...)\n{i}\nend"), "function-expression"),
        11 => (format!("h(1, function(...)\n{i}\nend)"), "callback"),
        12 => (format!("function t.m(...)\n{i}\nend"), "field-function"),
        13 => (format!("t = {{ f = function(...)\n{i}\nend }}"), "table-function"),
        _ => (format!("function t:m(...)\n{i}\nend"), "method"),
    }
}

/// the template in a random position of a random nest of constructs
pub fn embed(r: &mut Rng, tm: &Tmpl, stats: &mut Vec<String>) -> String {
    let depth = match r.below(8) {
        0 | 1 => 0,
        2 | 3 | 4 => 1,
        5 | 6 => 2,
        _ => 3,
    };
    let mut cur = tm.code.clone();
    let mut first = true;
    for _ in 0..depth {
        // neighbours in the same block, on their own lines
        let mut parts: Vec<String> = Vec::new();
        for _ in 0..r.below(3) {
            parts.push(filler(r));
        }
        parts.push(cur);
        // a statement after the hole only when the plugged code does not end in a last statement
        let ends_in_return = tm.code.trim_end().ends_with("return") && first;
        if !ends_in_return {
            for _ in 0..r.below(2) {
                parts.push(filler(r));
            }
        }
        let inner = parts.join("\n");
        let (w, name) = wrap_once(r, &inner, tm.inline && first && !inner.contains('\n'));
        stats.push(format!("ctx_{name}"));
        cur = w;
        first = false;
    }
    let mut parts: Vec<String> = Vec::new();
    for _ in 0..r.below(3) {
        parts.push(filler(r));
    }
    parts.push(cur);
    let ends_in_return = depth == 0 && tm.code.trim_end().ends_with("return");
    if !ends_in_return {
        for _ in 0..r.below(2) {
            parts.push(filler(r));
        }
    }
    stats.push(format!("depth_{depth}"));
    parts.join("\n") + "\n"
}

// ------------------------------------------------------------------------------------------------

/// fixed programs: the shapes of the departures found so far (run first on every check)
const WITNESSES: [&str; 13] = [
    "x = y\na = b\nb = a\n",
    "aandb = x\nx = a and b\n",
    "if a[f()] then\n  foo()\nelseif a[f()] then\n  bar()\nend\n",
    "local function foo(a)\nend\nfoo = print\nfoo(1, 2, 3)\n",
    "a, b = (nil)\n",
    "if (function() foo() bar() end)() then\n  return\nend\n",
    "a = b\nb = a\n",
    "local function foo(a, b)\nend\nfoo(1, 2, 3)\n",
    "foo() bar() baz()\n",
    "if x then\n  function f()\n  end\n  f(1, 2)\nelse\n  function f(a, b)\n  end\nend\n",
    "for c = 1, 2 do\n  c \"str\"\n  function c()\n  end\nend\n",
    "if x then\n  return 1\nelse\n  return 1\nend\n",
    "b = a\na = b\nb = a\na = b\n",
];

// ---- `comments_count = true`: a block that holds exclusively comments is not empty --------------------------------

/// (program, expected `empty_if` / `empty_loop` diagnostics as (message, 1-based line of the label's start))
fn comments_count_templates() -> Vec<(&'static str, Vec<(&'static str, usize)>)> {
    vec![
        ("if a then\n  -- note\nend\n", vec![]),
        ("if a then\nend\n", vec![("empty if block", 1)]),
        ("if a then\n  --[[ block\n  note ]]\nelse\nend\n", vec![("empty else block", 4)]),
        ("if a then\n  f()\nelseif b then\n  -- note\nelse\n  -- note\nend\n", vec![]),
        // a nested statement that holds only a comment, inside an earlier branch of a statement whose later branch is empty
        ("if a then\n  if b then\n    -- inner note\n  end\nelse\nend\n", vec![("empty else block", 5)]),
        ("if a then\n  if b then\n    -- inner note\n  end\nelseif c then\n  -- later note\nend\n", vec![]),
        ("if a then\n  while b do\n    -- inner note\n  end\nelseif c then\nelse\n  f()\nend\n", vec![("empty elseif block", 5)]),
        ("if a then\n  f()\n  if b then\n    -- one\n  elseif c then\n    -- two\n  end\n  if d then\n    -- three\n  end\nelseif e then\n  -- four\nelse\n  -- five\nend\n", vec![]),
        ("while a do\n  -- note\nend\n", vec![]),
        ("while a do\nend\n", vec![("empty loop block", 1)]),
        ("for i = 1, 2 do\n  for j = 1, 2 do\n    -- inner note\n  end\nend\nfor k in pairs(t) do\nend\n", vec![("empty loop block", 6)]),
        ("repeat\n  -- note\nuntil a\nrepeat\nuntil b\n", vec![("empty loop block", 4)]),
        ("for i = 1, 2 do\n  while a do\n    --[[ x ]]\n  end\n  repeat\n    -- y\n  until b\n  for _ in f do\n  end\nend\n", vec![("empty loop block", 8)]),
        ("do\n  if a then\n    -- first\n  end\n  if b then\n  end\n  if c then\n    -- third\n  end\nend\n", vec![("empty if block", 5)]),
        // the block's only comment shares a line with the keyword that opens it (it is that keyword's trailing trivia), or the
        // whole statement is on one line
        ("while not ready() do -- spin\nend\n", vec![]),
        ("for _ in q do --[[ x ]] end\n", vec![]),
        ("repeat -- poll\nuntil x\n", vec![]),
        ("for i = 1, 2 do -- nothing yet\nend\nwhile a do end\n", vec![("empty loop block", 3)]),
        ("if a then -- note\nend\n", vec![]),
        ("if a then --[[ x ]] elseif b then else -- y\nend\n", vec![("empty elseif block", 1)]),
        ("if a then\n  f()\nelse -- note\nend\n", vec![]),
        // a comment after the block's closing keyword is outside the block
        ("while a do\nend -- after\n", vec![("empty loop block", 1)]),
        ("if a then\nend -- after\n", vec![("empty if block", 1)]),
    ]
}

pub fn run_comments_count(out: &mut Out) {
    let std = StandardLibrary::from_name("lua51").unwrap();
    let mut config: std::collections::HashMap<String, toml::value::Value> = std::collections::HashMap::new();
    for lint in ["empty_if", "empty_loop"] {
        let mut t = toml::value::Table::new();
        t.insert("comments_count".to_owned(), toml::value::Value::Boolean(true));
        config.insert(lint.to_owned(), toml::value::Value::Table(t));
    }
    let checker: Checker<toml::value::Value> = Checker::new(CheckerConfig { config, ..CheckerConfig::default() }, std).unwrap();
    let wrappers: [(&str, &str, usize); 4] = [("", "", 0), ("do\n", "end\n", 1), ("local function w()\n", "end\n", 1), ("-- header\nlocal t = {}\n", "return t\n", 2)];
    for (src, expected) in comments_count_templates() {
        for (pre, post, shift) in wrappers.iter() {
            let prog = format!("{pre}{src}{post}");
            let ast = match full_moon::parse(&prog) {
                Ok(a) => a,
                Err(_) => continue,
            };
            let diags = match std::panic::catch_unwind(std::panic::AssertUnwindSafe(|| checker.test_on(&ast))) {
                Ok(d) => d,
                Err(_) => continue,
            };
            let line_of = |byte: usize| prog[..byte.min(prog.len())].matches('\n').count() + 1;
            let mut got: Vec<String> = diags
                .iter()
                .filter(|d| d.diagnostic.code == "empty_if" || d.diagnostic.code == "empty_loop")
                .map(|d| format!("{}@{}", d.diagnostic.message, line_of(d.diagnostic.primary_label.range.0 as usize)))
                .collect();
            got.sort();
            let mut want: Vec<String> = expected.iter().map(|(m, l)| format!("{m}@{}", l + shift)).collect();
            want.sort();
            out.bump("comments_count_cases");
            out.case("C04.comments", &list(vec![st(&prog)]), &list(vec![list(got.iter().map(st).collect()), list(want.iter().map(st).collect())]));
        }
    }
}

pub fn run(args: &Args, out: &mut Out) {
    run_comments_count(out);
    let mut rng = Rng::new(args.seed);
    let std51 = StandardLibrary::from_name("lua51").unwrap();
    let checker: Checker<toml::value::Value> = Checker::new(CheckerConfig::default(), std51).unwrap();

    let mut programs: Vec<(String, String, String)> = Vec::new(); // origin, source, expectation
    if let Ok(rd) = std::fs::read_dir("/verif/corpus/c04b") {
        let mut paths: Vec<_> = rd.filter_map(|e| e.ok()).map(|e| e.path()).collect();
        paths.sort();
        for p in paths {
            if let Ok(s) = std::fs::read_to_string(&p) {
                programs.push((format!("corpus:{}", p.display()), s, "any".to_owned()));
                out.bump("corpus");
            }
        }
    }
    for p in luagen::fixture_files() {
        if let Ok(s) = std::fs::read_to_string(&p) {
            let own = CODES.iter().any(|c| p.to_string_lossy().contains(&format!("/lints/{c}/")));
            out.bump(if own { "fixture_own_lints" } else { "fixture_other" });
            programs.push((format!("fixture:{}", p.display()), s.replace("\r\n", "\n"), "any".to_owned()));
        }
    }
    for (i, w) in WITNESSES.iter().enumerate() {
        programs.push((format!("witness:{i}"), (*w).to_owned(), "any".to_owned()));
        out.bump("witness");
    }
    // templates: args.n instances per lint
    for i in 0..args.n * 8 {
        let tm = template(&mut rng, i);
        let mut st_ = Vec::new();
        let src = embed(&mut rng, &tm, &mut st_);
        for s in st_ {
            out.bump(&s);
        }
        out.bump(&format!("tmpl_{}_{}", tm.lint, if tm.positive { "pos" } else { "neg" }));
        programs.push((
            format!("tmpl:{}:{}", tm.lint, tm.family),
            src,
            format!("{}:{}:{}", tm.lint, tm.family, if tm.positive { "pos" } else { "neg" }),
        ));
    }
    // grammar-generated programs
    for i in 0..args.n * 2 {
        let (budget, depth) = [(8, 2), (20, 3), (40, 5)][i % 3];
        let (src, _) = luagen::gen_program(&mut rng, budget, depth);
        // a variant with all line breaks inside removed exercises multiple_statements on arbitrary programs
        if i % 4 == 3 {
            programs.push((format!("gen-oneline:{i}"), src.replace('\n', " ") + "\n", "any".to_owned()));
        }
        programs.push((format!("gen:{i}"), src, "any".to_owned()));
        out.bump("generated");
    }

    // every template program is also checked in a second layout (line breaks, indentation and comments
    // between its tokens); multiple_statements is documented to look at lines, its templates keep their layout
    let mut queue: std::collections::VecDeque<(String, String, String)> = programs.into();
    while let Some((origin, src, expect)) = queue.pop_front() {
        let ast = match full_moon::parse(&src) {
            Ok(a) => a,
            Err(_) => {
                out.bump("does_not_parse");
                if std::env::var("VERIF_C04B_DEBUG").is_ok() { eprintln!("DOES NOT PARSE [{origin}]:\n{src}"); }
                continue;
            }
        };
        let (chunk, supported, d) = astdump::dump(&ast);
        if !supported {
            out.bump("unsupported_syntax");
            continue;
        }
        if origin.starts_with("tmpl") && !origin.contains("multiple_statements") && !origin.ends_with(":layout") && !src.contains('\r') && rng.chance(1, 2) {
            let twin = crate::twin::trivia_twin(&src, &d, &mut rng, out);
            if twin != src {
                queue.push_back((format!("{origin}:layout"), twin, "any".to_owned()));
                out.bump("layout_variant");
            }
        }
        let toks = list(d.tokens.iter().map(|t| st(&t.4)).collect());
        let mut sv = SepVisitor { starts: Vec::new() };
        full_moon::visitors::Visitor::visit_ast(&mut sv, &ast);
        let seps = list(sv.starts.iter().filter_map(|b| d.by_start.get(b)).map(|i| num(*i)).collect());
        let result = std::panic::catch_unwind(std::panic::AssertUnwindSafe(|| diags_sx(&checker, &ast, &d)));
        let input = list(vec![chunk, st(&origin), st(&src), toks, st(&expect), seps]);
        match result {
            Ok((diags, fired)) => {
                for f in fired {
                    out.bump(&format!("impl_reported_{f}"));
                }
                out.case("C04B.prog", &input, &diags)
            }
            Err(_) => {
                out.bump("impl_panic");
                out.case("C04B.prog", &input, &atom("panic"))
            }
        }
    }
}
