//! The three Roblox lints that look at `Color3.new(…)` / `UDim2.new(…)` calls, under the Roblox base library:
//! calls with numerals in every spelling (on both sides of the f32 rounding boundaries), negated numerals, hexadecimal
//! literals, variables named like float words, parenthesised and computed arguments, 0–5 arguments, and near-miss call
//! shapes — every diagnostic (code, range in token space, message) against `Selene/Lints/Roblox.lean`.
use crate::astdump;
use crate::rng::Rng;
use crate::sx::*;
use crate::{Args, Out};
use selene_lib::standard_library::StandardLibrary;
use selene_lib::{Checker, CheckerConfig};

const CODES: &[&str] = &["roblox_incorrect_color3_new_bounds", "roblox_suspicious_udim2_new", "roblox_manual_fromscale_or_fromoffset"];

const NUMERALS: &[&str] = &[
    "0", "1", "1.0", "01", "1.", ".5", "0.5", "5e-1", "0.50", "1e0", "10e-1", "0.1e1", "2", "255", "1.5", "1e1",
    // around 1 + 2^-24 (the f32 tie) and just above / below
    "1.00000005", "1.0000000596046448", "1.00000006", "1.0000001", "1.00000011920928955078125", "0.99999999",
    // around 2^-150 (half the smallest f32 subnormal) and zero spellings
    "0.0", "0e0", "00", ".0", "0.", "1e-46", "7e-46", "8e-46", "1e-45", "1e-400", "0e99",
    // large
    "3.4e38", "3.5e38", "1e39", "1e400",
    // not decimal for Rust's float grammar
    "0x0", "0x1", "0xFF", "0X10",
];
const OTHERS: &[&str] = &["x", "inf", "nan", "infinity", "NaN", "(1)", "(0)", "2 / 2", "f()", "#t", "nil", "\"1\"", "x.y", "-x", "- 1", "-0", "-0.0", "- 0", "-1e-46", "-1", "-0.5", "- 2", "not 0", "-(1)", "-\"0\""];

fn arg(r: &mut Rng) -> String {
    if r.chance(2, 3) { (*r.pick(NUMERALS)).to_owned() } else { (*r.pick(OTHERS)).to_owned() }
}

fn call(r: &mut Rng) -> String {
    let n = match r.below(10) { 0 => 0, 1 => 1, 2 | 3 => 2, 4 | 5 => 3, 6 | 7 | 8 => 4, _ => 5 };
    let args: Vec<String> = (0..n).map(|_| if r.chance(1, 3) { (*r.pick(&["0", "0.0", "0e0", "-0", "0x0", "x", "1"])).to_owned() } else { arg(r) }).collect();
    let a = args.join(*r.pick(&[", ", ",", " , ", ",\n  "]));
    match r.below(16) {
        0 | 1 | 2 | 3 | 4 => format!("Color3.new({a})"),
        5 | 6 | 7 | 8 | 9 => format!("UDim2.new({a})"),
        10 => format!("{}.new ({a})", r.pick(&["Color3", "UDim2"])),
        11 => format!("{} .new({a})", r.pick(&["Color3", "UDim2"])),
        12 => (*r.pick(&["Color3.new{2}", "Color3:new(2)", "Color3.New(2)", "Color3.new(2).r", "x.Color3.new(2)", "UDim2.new(UDim.new(), UDim.new())",
                         "UDim2.new(UDim.new(1, 0), 1)", "(Color3).new(2)", "Color3.fromRGB(255, 0, 0)", "UDim2.new \"s\"", "Color3[\"new\"](2)",
                         "UDim2.new(0, 5, 0, 5):Lerp(x, 1)", "Color3.new(2)(3)"])).to_owned(),
        13 => format!("Color3.new(Color3.new({a}), UDim2.new({a}))"),
        14 => format!("f(UDim2.new({a}))"),
        _ => format!("UDim2.new({a}, Color3.new(3))"),
    }
}

pub fn run(args: &Args, out: &mut Out) {
    let mut rng = Rng::new(args.seed ^ 0x0B10);
    let lib = StandardLibrary::roblox_base();
    let checker: Checker<toml::value::Value> = Checker::new(CheckerConfig::default(), lib).unwrap();
    for i in 0..args.n {
        let mut src = String::from("local x, t, f = 1, {}, print\n");
        if i % 7 == 0 {
            src.push_str("local inf, nan, infinity, NaN = 0.5, 0.25, 1, 0\n");
        }
        for k in 0..(1 + rng.below(6)) {
            match rng.below(4) {
                0 => src.push_str(&format!("local v{k} = {}\n", call(&mut rng))),
                1 => src.push_str(&format!("{}\n", call(&mut rng))),
                2 => src.push_str(&format!("if x then\n  t[{k}] = {}\nend\n", call(&mut rng))),
                _ => src.push_str(&format!("local function g{k}(Color3)\n  return {}\nend\n", call(&mut rng))),
            }
        }
        let ast = match full_moon::parse(&src) {
            Ok(a) => a,
            Err(_) => {
                out.bump("does_not_parse");
                continue;
            }
        };
        let (chunk, supported, d) = astdump::dump(&ast);
        if !supported {
            out.bump("unsupported_syntax");
            continue;
        }
        let imp = match std::panic::catch_unwind(std::panic::AssertUnwindSafe(|| checker.verif_test_on_unfiltered(&ast))) {
            Ok(diags) => list(
                diags
                    .iter()
                    .filter(|x| CODES.contains(&x.diagnostic.code))
                    .map(|x| {
                        let r = x.diagnostic.primary_label.range;
                        let span = match (d.by_start.get(&(r.0 as usize)), d.by_end.get(&(r.1 as usize))) {
                            (Some(a), Some(b)) => list(vec![num(*a), num(*b)]),
                            _ => list(vec![atom("byte"), num(r.0), num(r.1)]),
                        };
                        out.bump(&format!("impl_{}", x.diagnostic.code));
                        list(vec![st(x.diagnostic.code), span, st(&x.diagnostic.message)])
                    })
                    .collect(),
            ),
            Err(_) => atom("panic"),
        };
        out.case("ROBLOX.prog", &list(vec![chunk, st(&src)]), &imp);
    }
}
