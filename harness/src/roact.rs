//! roblox_incorrect_roact_usage (model: Selene.Lints.Roact): the lint under a library named `roblox` with a class table,
//! under the same library without the name, and with the name but no classes.
use crate::astdump;
use crate::rng::Rng;
use crate::sx::*;
use crate::{Args, Out};
use selene_lib::standard_library::{RobloxClass, StandardLibrary};
use selene_lib::{Checker, CheckerConfig};
use std::collections::BTreeMap;

fn span_sx(d: &astdump::Dumper, range: (u32, u32)) -> Sx {
    match (d.by_start.get(&(range.0 as usize)), d.by_end.get(&(range.1 as usize))) {
        (Some(a), Some(b)) => list(vec![num(*a), num(*b)]),
        _ => list(vec![atom("byte"), num(range.0), num(range.1)]),
    }
}

fn diags_sx(checker: &Checker<toml::value::Value>, ast: &full_moon::ast::Ast, d: &astdump::Dumper) -> Sx {
    let diags = checker.verif_test_on_unfiltered(ast);
    list(
        diags
            .iter()
            .filter(|x| x.diagnostic.code == "roblox_incorrect_roact_usage")
            .map(|x| list(vec![span_sx(d, x.diagnostic.primary_label.range), st(&x.diagnostic.message), list(x.diagnostic.notes.iter().map(st).collect())]))
            .collect(),
    )
}

fn classes(r: &mut Rng) -> BTreeMap<String, RobloxClass> {
    let mut m = BTreeMap::new();
    let extra = ["Visible", "Text", "Active"];
    let pick = |r: &mut Rng| -> Vec<String> { extra.iter().filter(|_| r.chance(1, 3)).map(|s| (*s).to_owned()).collect() };
    m.insert("Frame".to_owned(), RobloxClass { superclass: "GuiObject".to_owned(), events: vec![], properties: pick(r) });
    m.insert(
        "GuiObject".to_owned(),
        RobloxClass { superclass: "Instance".to_owned(), events: vec!["InputBegan".to_owned()], properties: { let mut p = pick(r); p.push("Size".to_owned()); p } },
    );
    // the root sometimes points back into the hierarchy (a cycle) or at a class that does not exist
    let root_super = *r.pick(&["<<<ROOT>>>", "<<<ROOT>>>", "Frame", "Missing"]);
    m.insert("Instance".to_owned(), RobloxClass { superclass: root_super.to_owned(), events: vec!["Changed".to_owned()], properties: vec!["Name".to_owned()] });
    if r.chance(1, 3) {
        m.insert("TextLabel".to_owned(), RobloxClass { superclass: "GuiObject".to_owned(), events: vec!["Clicked".to_owned()], properties: vec!["Text".to_owned(), "ref".to_owned()] });
    }
    m
}

fn field(r: &mut Rng, depth: usize) -> String {
    let value = |r: &mut Rng| -> String {
        (*r.pick(&["\"hello\"", "\"two words\"", "\"0abc\"", "\"_ok\"", "\"\"", "\"h\u{e9}llo\"", "[[x]]", "[==[y]==]", "x", "x .. y", "f(x)", "(x)", "\"a_1\"", "'q'", "x.y [ 1 ]", "\"a\\n\"", "1", "nil", "a and b"]))
            .to_owned()
    };
    match r.below(22) {
        0..=3 => format!("Name = {}", value(r)),
        4 | 5 => "Size = 1".to_owned(),
        6 => "Bogus = 1".to_owned(),
        7 => "Visible = true".to_owned(),
        8 => format!("{} = 1", r.pick(&["ref", "key", "children"])),
        9 => "[Roact.Event.InputBegan] = f".to_owned(),
        10 => "[Roact.Event.Clicked] = f".to_owned(),
        11 => "[React.Event.Changed] = f".to_owned(),
        12 => "[Roact.Change.Size] = f".to_owned(),
        13 => "[(Roact.Event.Nope)] = f".to_owned(),
        14 => "[Roact.Event.Nope.more] = f".to_owned(),
        15 => "[ React.Event.Gone [1] ] = f".to_owned(),
        16 => "[x] = 1".to_owned(),
        17 => "[\"Size\"] = 1".to_owned(),
        18 => "[Other.Event.Nope] = f".to_owned(),
        19 if depth > 0 => format!("Child = {}", call(r, depth - 1)),
        20 => value(r),
        _ => "Text = \"t\"".to_owned(),
    }
}

fn call(r: &mut Rng, depth: usize) -> String {
    let callee = match r.below(16) {
        0..=3 => "Roact.createElement",
        4 | 5 => "React.createElement",
        6 | 7 => "e",
        8 => "r",
        9 => "Roact.Other",
        10 => "Other.createElement",
        11 => "Roact.createElement.x",
        12 => "(Roact).createElement",
        13 => "Roact:createElement",
        14 => "later",
        _ => "Roact . createElement",
    };
    let class = match r.below(14) {
        0..=4 => "\"Frame\"",
        5 => "\"GuiObject\"",
        6 => "\"Instance\"",
        7 => "\"TextLabel\"",
        8 => "\"Window\"",
        9 => "'Frame'",
        10 => "[[Frame]]",
        11 => "cls",
        12 => "\"Fra\" .. \"me\"",
        _ => "\"frame\"",
    };
    let nf = r.below(5);
    let fields: Vec<String> = (0..nf).map(|_| field(r, depth)).collect();
    let sep = *r.pick(&[", ", ",\n  ", "; "]);
    let table = format!("{{ {}{} }}", fields.join(sep), if r.chance(1, 4) && nf > 0 { "," } else { "" });
    match r.below(10) {
        0..=6 => format!("{callee}({class}, {table})"),
        7 => format!("{callee}({class})"),
        8 => format!("{callee}({class}, props)"),
        _ => format!("{callee}({table}, {class})"),
    }
}

fn gen(r: &mut Rng) -> String {
    let mut s = String::new();
    if r.chance(3, 4) {
        s.push_str("local e = Roact.createElement\n");
    }
    if r.chance(1, 2) {
        s.push_str(*r.pick(&["local r = React.createElement\n", "local q, r = 1, React.createElement\n", "local r = React.createElement, 2\n", "local r = (React.createElement)\n", "local r\nr = React.createElement\n"]));
    }
    for i in 0..1 + r.below(4) {
        match r.below(6) {
            0 => s.push_str(&format!("local function build{i}()\n  return {}\nend\n", call(r, 1))),
            1 => s.push_str(&format!("{}\n", call(r, 1))),
            2 => s.push_str(&format!("do\n  local e = React.createElement\n  local v{i} = {}\nend\n", call(r, 1))),
            _ => s.push_str(&format!("local v{i} = {}\n", call(r, 2))),
        }
    }
    s.push_str("local later = Roact.createElement\nreturn later\n");
    s
}

pub fn run(args: &Args, out: &mut Out) {
    let mut rng = Rng::new(args.seed ^ 0x20AC7);
    let mut progs: Vec<(String, String)> = Vec::new();
    for p in crate::luagen::fixture_files() {
        if p.to_string_lossy().contains("roblox_incorrect_roact_usage") {
            if let Ok(s) = std::fs::read_to_string(&p) {
                progs.push((format!("fixture:{}", p.display()), s));
            }
        }
    }
    for i in 0..args.n {
        progs.push((format!("roact-gen:{i}"), gen(&mut rng)));
    }
    for (origin, src) in progs {
        let ast = match full_moon::parse(&src) {
            Ok(a) => a,
            Err(_) => {
                out.bump("does_not_parse");
                continue;
            }
        };
        let (chunk, supported, d) = astdump::dump(&ast);
        if !supported {
            out.bump("unsupported_syntax");
            continue;
        }
        let cls = classes(&mut rng);
        let mut lib = StandardLibrary::roblox_base();
        lib.name = Some("roblox".to_owned());
        lib.roblox_classes = cls.clone();
        let mut unnamed = lib.clone();
        unnamed.name = None;
        let mut classless = lib.clone();
        classless.roblox_classes = BTreeMap::new();
        let mk = |l: StandardLibrary| -> Checker<toml::value::Value> { Checker::new(CheckerConfig::default(), l).unwrap() };
        let (c1, c2, c3) = (mk(lib), mk(unnamed), mk(classless));
        let toks = list(d.tokens.iter().map(|t| st(&t.4)).collect());
        let cls_sx = list(
            cls.iter()
                .map(|(n, c)| list(vec![st(n), st(&c.superclass), list(c.events.iter().map(st).collect()), list(c.properties.iter().map(st).collect())]))
                .collect(),
        );
        let imp = match std::panic::catch_unwind(std::panic::AssertUnwindSafe(|| list(vec![diags_sx(&c1, &ast, &d), diags_sx(&c2, &ast, &d), diags_sx(&c3, &ast, &d)]))) {
            Ok(x) => x,
            Err(_) => atom("panic"),
        };
        out.case("ROACT.prog", &list(vec![chunk, st(&origin), st(&src), cls_sx, toks]), &imp);
    }
}
