//! Standard-library values: conversion to the exchange format and type-directed generation.
use crate::rng::Rng;
use crate::sx::*;
use selene_lib::standard_library::*;
use std::collections::BTreeMap;

pub fn deprecated_sx(d: &Option<Deprecated>) -> Sx {
    match d {
        None => atom("none"),
        Some(d) => {
            let mut v = vec![st(&d.message)];
            v.extend(d.replace.iter().map(st));
            tagged("deprecated", v)
        }
    }
}

pub fn argtype_sx(t: &ArgumentType) -> Sx {
    match t {
        ArgumentType::Any => atom("any"),
        ArgumentType::Bool => atom("bool"),
        ArgumentType::Constant(c) => tagged("constant", c.iter().map(st).collect()),
        ArgumentType::Display(d) => tagged("display", vec![st(d)]),
        ArgumentType::Function => atom("function"),
        ArgumentType::Nil => atom("nil"),
        ArgumentType::Number => atom("number"),
        ArgumentType::String => atom("string"),
        ArgumentType::Table => atom("table"),
        ArgumentType::Vararg => atom("vararg"),
    }
}

pub fn arg_sx(a: &Argument) -> Sx {
    tagged(
        "arg",
        vec![
            match &a.required {
                Required::NotRequired => atom("not-required"),
                Required::Required(None) => atom("required"),
                Required::Required(Some(m)) => tagged("required", vec![st(m)]),
            },
            argtype_sx(&a.argument_type),
            atom(match a.observes {
                Observes::ReadWrite => "read-write",
                Observes::Read => "read",
                Observes::Write => "write",
            }),
            deprecated_sx(&a.deprecated),
        ],
    )
}

pub fn writability_sx(w: &PropertyWritability) -> Sx {
    atom(match w {
        PropertyWritability::ReadOnly => "read-only",
        PropertyWritability::NewFields => "new-fields",
        PropertyWritability::OverrideFields => "override-fields",
        PropertyWritability::FullWrite => "full-write",
    })
}

pub fn kind_sx(k: &FieldKind) -> Sx {
    match k {
        FieldKind::Any => atom("any"),
        FieldKind::Removed => atom("removed"),
        FieldKind::Property(w) => tagged("property", vec![writability_sx(w)]),
        FieldKind::Struct(s) => tagged("struct", vec![st(s)]),
        FieldKind::Function(f) => {
            let mut v = vec![boolean(f.method), boolean(f.must_use)];
            v.extend(f.arguments.iter().map(arg_sx));
            tagged("function", v)
        }
    }
}

pub fn field_sx(f: &Field) -> Sx {
    tagged("field", vec![kind_sx(&f.field_kind), deprecated_sx(&f.deprecated)])
}

pub fn opt_field_sx(f: Option<&Field>) -> Sx {
    match f {
        None => atom("none"),
        Some(f) => field_sx(f),
    }
}

pub fn fieldmap_sx(m: &BTreeMap<String, Field>) -> Vec<Sx> {
    m.iter().map(|(k, f)| list(vec![st(k), field_sx(f)])).collect()
}

pub fn version_sx(v: &LuaVersion) -> Sx {
    match v {
        LuaVersion::Unknown(s) => st(s),
        v => atom(v.to_str()),
    }
}

pub fn lib_sx(l: &StandardLibrary) -> Sx {
    tagged(
        "lib",
        vec![
            tagged(
                "base",
                vec![match &l.base {
                    None => atom("none"),
                    Some(b) => st(b),
                }],
            ),
            tagged("versions", l.lua_versions.iter().map(version_sx).collect()),
            tagged("globals", fieldmap_sx(&l.globals)),
            tagged(
                "structs",
                l.structs
                    .iter()
                    .map(|(n, fs)| {
                        let mut v = vec![st(n)];
                        v.extend(fieldmap_sx(fs));
                        list(v)
                    })
                    .collect(),
            ),
        ],
    )
}

/// Generator parameters.
pub struct LibGen {
    pub segments: Vec<&'static str>,
    pub max_depth: usize,
    pub max_keys: usize,
    pub struct_names: Vec<&'static str>,
    pub allow_removed: bool,
    pub allow_dangling_struct: bool,
}

impl Default for LibGen {
    fn default() -> Self {
        LibGen {
            segments: vec!["a", "b", "c", "*"],
            max_depth: 4,
            max_keys: 6,
            struct_names: vec!["S", "T"],
            allow_removed: true,
            allow_dangling_struct: false,
        }
    }
}

pub fn gen_deprecated(r: &mut Rng) -> Option<Deprecated> {
    if r.chance(1, 6) {
        Some(Deprecated {
            message: (*r.pick(&["old", "use new", "x"])).to_owned(),
            replace: if r.chance(1, 2) {
                vec![(*r.pick(&["new(%1)", "n(%1, %2)", "m(%...)"])).to_owned()]
            } else {
                vec![]
            },
        })
    } else {
        None
    }
}

pub fn gen_argtype(r: &mut Rng) -> ArgumentType {
    match r.below(11) {
        0 => ArgumentType::Any,
        1 => ArgumentType::Bool,
        2 => ArgumentType::Constant(
            (0..1 + r.below(3))
                .map(|_| (*r.pick(&["count", "step", "a b", "", "x\"y", "\\n"])).to_owned())
                .collect(),
        ),
        3 => ArgumentType::Display((*r.pick(&["Instance", "Foo"])).to_owned()),
        4 => ArgumentType::Function,
        5 => ArgumentType::Nil,
        6 => ArgumentType::Number,
        7 => ArgumentType::String,
        8 => ArgumentType::Table,
        _ => ArgumentType::Number,
    }
}

pub fn gen_function(r: &mut Rng) -> FunctionBehavior {
    let n = r.below(4);
    let mut arguments = Vec::new();
    let mut optional_from = if r.chance(1, 2) { r.below(n + 1) } else { n };
    if r.chance(1, 8) {
        optional_from = 0;
    }
    for i in 0..n {
        let required = if i >= optional_from && !r.chance(1, 10) {
            Required::NotRequired
        } else if r.chance(1, 5) {
            Required::Required(Some("needs this".to_owned()))
        } else {
            Required::Required(None)
        };
        arguments.push(Argument {
            required,
            argument_type: gen_argtype(r),
            observes: *r.pick(&[Observes::ReadWrite, Observes::ReadWrite, Observes::Read, Observes::Write]),
            deprecated: if r.chance(1, 10) { gen_deprecated(r) } else { None },
        });
    }
    if r.chance(1, 4) {
        arguments.push(Argument {
            required: if r.chance(1, 3) { Required::Required(None) } else { Required::NotRequired },
            argument_type: ArgumentType::Vararg,
            observes: Observes::ReadWrite,
            deprecated: None,
        });
    }
    FunctionBehavior { arguments, method: r.chance(1, 4), must_use: r.chance(1, 3) }
}

/// Constant pool shared by `gen_argtype_full` and the call generator of C05.
pub const CONSTANT_POOL: [&str; 9] = ["count", "step", "a b", "", "x\"y", "\\n", "[count]", "10", "x'y"];

/// Every declared type, constant lists drawn from `CONSTANT_POOL`.
pub fn gen_argtype_full(r: &mut Rng) -> ArgumentType {
    match r.below(12) {
        0 => ArgumentType::Any,
        1 => ArgumentType::Bool,
        2 | 3 => ArgumentType::Constant((0..1 + r.below(3)).map(|_| (*r.pick(&CONSTANT_POOL)).to_owned()).collect()),
        4 => ArgumentType::Display((*r.pick(&["Instance", "Foo"])).to_owned()),
        5 => ArgumentType::Function,
        6 => ArgumentType::Nil,
        7 => ArgumentType::Number,
        8 => ArgumentType::String,
        9 => ArgumentType::Table,
        10 if r.chance(1, 3) => ArgumentType::Vararg, // `...` in the middle: "incorrect" per the docs, accepted by the code
        _ => ArgumentType::Number,
    }
}

pub fn gen_required_full(r: &mut Rng) -> Required {
    match r.below(5) {
        0 | 1 => Required::NotRequired,
        2 => Required::Required(Some((*r.pick(&["needs this", "why"])).to_owned())),
        _ => Required::Required(None),
    }
}

/// Functions with every mix of required / optional / vararg (required, required with a message,
/// optional) / constant-list / display parameters, in any order (used by C05; `gen_function` is
/// kept as it is so that the streams of the other groups do not move).
pub fn gen_function_full(r: &mut Rng) -> FunctionBehavior {
    let n = r.below(5);
    let mut arguments = Vec::new();
    // half of the functions have the conventional shape (required first, optional after)
    let conventional = r.chance(1, 2);
    let optional_from = r.below(n + 1);
    for i in 0..n {
        let required = if conventional {
            if i >= optional_from {
                Required::NotRequired
            } else if r.chance(1, 5) {
                Required::Required(Some("needs this".to_owned()))
            } else {
                Required::Required(None)
            }
        } else {
            gen_required_full(r)
        };
        arguments.push(Argument {
            required,
            argument_type: gen_argtype_full(r),
            observes: Observes::ReadWrite,
            deprecated: None,
        });
    }
    if r.chance(2, 5) {
        arguments.push(Argument {
            required: gen_required_full(r),
            argument_type: ArgumentType::Vararg,
            observes: Observes::ReadWrite,
            deprecated: None,
        });
    }
    FunctionBehavior { arguments, method: r.chance(1, 3), must_use: false }
}

impl LibGen {
    pub fn gen_kind(&self, r: &mut Rng, structs_ok: bool) -> FieldKind {
        match r.below(12) {
            0 | 1 => FieldKind::Any,
            2 | 3 | 4 => FieldKind::Function(gen_function(r)),
            5 | 6 | 7 => FieldKind::Property(*r.pick(&[
                PropertyWritability::ReadOnly,
                PropertyWritability::NewFields,
                PropertyWritability::OverrideFields,
                PropertyWritability::FullWrite,
            ])),
            8 | 9 if structs_ok => {
                if self.allow_dangling_struct && r.chance(1, 5) {
                    FieldKind::Struct("Missing".to_owned())
                } else {
                    FieldKind::Struct((*r.pick(&self.struct_names)).to_owned())
                }
            }
            10 if self.allow_removed => FieldKind::Removed,
            _ => FieldKind::Property(PropertyWritability::ReadOnly),
        }
    }

    pub fn gen_key(&self, r: &mut Rng) -> String {
        let depth = 1 + r.below(self.max_depth);
        let mut segs: Vec<&str> = Vec::new();
        for i in 0..depth {
            // the root segment is rarely `*`
            let s = if i == 0 && !r.chance(1, 8) {
                *r.pick(&self.segments[..self.segments.len() - 1])
            } else {
                *r.pick(&self.segments)
            };
            segs.push(s);
        }
        segs.join(".")
    }

    pub fn gen_fieldmap(&self, r: &mut Rng, structs_ok: bool) -> BTreeMap<String, Field> {
        let n = r.below(self.max_keys + 1);
        let mut m = BTreeMap::new();
        for _ in 0..n {
            let k = self.gen_key(r);
            let f = Field { field_kind: self.gen_kind(r, structs_ok), deprecated: gen_deprecated(r) };
            m.insert(k, f);
        }
        m
    }

    pub fn gen_versions(&self, r: &mut Rng) -> Vec<LuaVersion> {
        let all = [
            LuaVersion::Lua51,
            LuaVersion::Lua52,
            LuaVersion::Lua53,
            LuaVersion::Lua54,
            LuaVersion::Luau,
            LuaVersion::LuaJIT,
        ];
        if r.chance(1, 2) {
            return vec![];
        }
        let n = 1 + r.below(3);
        (0..n).map(|_| r.pick(&all).clone()).collect()
    }

    pub fn gen_lib(&self, r: &mut Rng) -> StandardLibrary {
        let mut lib = StandardLibrary::default();
        lib.globals = self.gen_fieldmap(r, true);
        for name in &self.struct_names {
            if r.chance(3, 4) || !self.allow_dangling_struct {
                lib.structs.insert((*name).to_owned(), self.gen_fieldmap(r, true));
            }
        }
        lib.lua_versions = self.gen_versions(r);
        lib
    }
}
