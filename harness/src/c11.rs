//! C11: linting is total and every diagnostic is well-formed.
use crate::c08::random_config;
use crate::libgen::*;
use crate::rng::Rng;
use crate::scope::programs;
use crate::sx::*;
use crate::{Args, Out};
use selene_lib::standard_library::*;
use selene_lib::{lint_exists, Checker, CheckerConfig};

const EXTRA: &[(&str, &str)] = &[
    ("empty", ""),
    ("comment-only", "-- nothing\n--[[ block ]]\n"),
    ("crlf", "local a = 1\r\nprint(undefined_x)\r\nif a then\r\nend\r\n"),
    ("non-ascii-strings", "local s = 'héllo — ☃ 😀'\nprint(s, \"\\é\", '\\ü', \"\\😀\", \"\\300\", \"\\3a0\")\n"),
    ("non-ascii-comments", "-- ünïcödé\nlocal x = 1 -- é\nprint(x)\n"),
    ("escapes", "print(\"\\x41\\u{48}\\z  \\q\\'\", '\\\"')\n"),
    ("long-names", "local a_very_long_identifier_name_that_goes_beyond_thirty_two_bytes = 1\nprint(a_very_long_identifier_name_that_goes_beyond_thirty_two_bytes)\n"),
    ("deep", "do do do do do do do do local x = function() return function() return ... end end end end end end end end end end\n"),
    ("numbers", "for i = #t, 0x10 do end\nfor i = #t, 1.00000001 do end\nlocal z = 1 / 0, 0 / 0, 1e400, 0x1p4\n"),
    ("weird-calls", "f{}{}\"s\"[[x]]:m()\n(f)()\nlocal t = {f = f}; t.f(); t:f(); t['f']()\n"),
    ("method-and-varargs", "local o = {}\nfunction o:m(...) return self, ... end\nfunction o.f.g:h() end\nreturn o:m(...)\n"),
    ("only-return", "return\n"),
    ("luau", "local x: number = 1\ntype T = { a: number }\nlocal s = `a{x}b`\nx += 1\nlocal y = if x then 1 else 2\nfor i = 1, 2 do continue end\n"),
    ("lua52", "goto done\n::done::\nlocal x = 7 // 2\nlocal y = x & 3 | 4 ~ 5 << 1 >> 2\n"),
    ("lua54", "local x <const> = 1\nlocal y <close> = nil\n"),
    // filter comments whose invalid_lint_filter diagnostics are located inside comments: block / line comments, LF / CRLF,
    // characters of every UTF-8 length around the offending part
    ("filter-block-crlf-unicode", "--[[ é\r\n selene: allow(nope_lint) é\r\né ]]\r\nlocal x = 1\r\nprint(x)\r\n"),
    ("filter-block-crlf-unicode-2", "local a = 1\r\n--[[ 😀 ü\r\n\r\n selene: deny(nope) — ☃\r\n selene: allow(also_nope)é\r\n]]\r\nprint(a)\r\n"),
    ("filter-block-lf-unicode", "--[[ é\n selene: allow(nope_lint) é\né ]]\nlocal x = 1\nprint(x)\n"),
    ("filter-block-level", "--[==[ é\r\n selene: allow(nope_lint)\r\n ]==]\r\nlocal x = 1\r\nprint(x)\r\n"),
    ("filter-line-unicode", "-- selene: allow(nöpe) é\nlocal x = 1 -- selene: allow(nope2) 😀\nprint(x)\n"),
    ("filter-global-late-unicode", "local é = 1\r\n--# selene: allow(unused_variable) é\r\nprint(1)\r\n"),
    ("filter-conflict-unicode", "-- é selene: allow(unused_variable)\r\n-- selene: deny(unused_variable) é\r\nlocal z = 'é'\r\n"),
];

fn check_diags(src: &str, diags: &[selene_lib::CheckerDiagnostic]) -> Vec<String> {
    let mut bad = Vec::new();
    for d in diags {
        if !lint_exists(d.diagnostic.code) && d.diagnostic.code != "invalid_lint_filter" {
            bad.push(format!("diagnostic carries the lint name `{}`, which does not exist", d.diagnostic.code));
        }
        let mut ranges = vec![("primary", d.diagnostic.primary_label.range)];
        for l in &d.diagnostic.secondary_labels {
            ranges.push(("secondary", l.range));
        }
        for (what, (a, b)) in ranges {
            let (a, b) = (a as usize, b as usize);
            if a > b {
                bad.push(format!("{} {what} range {a}..{b} has start > end", d.diagnostic.code));
            } else if b > src.len() {
                bad.push(format!("{} {what} range {a}..{b} lies outside the source ({} bytes)", d.diagnostic.code, src.len()));
            } else if !src.is_char_boundary(a) || !src.is_char_boundary(b) {
                bad.push(format!("{} {what} range {a}..{b} is not on character boundaries", d.diagnostic.code));
            }
        }
    }
    bad
}

fn gen_deprecated_weird(r: &mut Rng) -> Deprecated {
    Deprecated {
        message: "old".to_owned(),
        replace: (0..1 + r.below(3))
            .map(|_| (*r.pick(&["new(%0)", "new(%1)", "n(%2, %1)", "m(%...)", "%%", "%", "x%", "%99999999999999999999", "%4294967296", "%-1", "%1%2%3", "%x", "% 1", "a%...b%...c", "%...%0"])).to_owned())
            .collect(),
    }
}

pub fn run(args: &Args, out: &mut Out) {
    let mut rng = Rng::new(args.seed ^ 0xC11);
    let mut builtins: Vec<(String, StandardLibrary)> = Vec::new();
    for n in ["lua51", "lua52", "lua53", "luau"] {
        builtins.push((n.to_owned(), StandardLibrary::from_name(n).unwrap()));
    }
    builtins.push(("roblox_base".to_owned(), StandardLibrary::roblox_base()));
    // the library the roblox-only code paths look for: `Context::is_roblox` tests the library's *name*
    let mut named_roblox = StandardLibrary::roblox_base();
    named_roblox.name = Some("roblox".to_owned());
    builtins.push(("roblox_named".to_owned(), named_roblox));
    let mut progs: Vec<(String, String)> = EXTRA.iter().map(|(n, s)| (format!("extra:{n}"), (*s).to_owned())).collect();
    // string literals made of escape fragments and of characters of every UTF-8 length — digits included (`\d` of the
    // regex crate accepts every Unicode decimal digit): the lint computes byte ranges inside the literal by hand
    let pieces: &[&str] = &[
        "\\x", "\\u{", "\\", "\\z", "\\1", "\\25", "\\255", "\\256", "}", "\u{663}", "\u{ff13}", "\u{7c3}", "a", "F", "g",
        "\u{e9}", "\u{1f600}", "0", "9", " ", "\\\n", "\\\r\n", "\\'", "\\\"", "{", "\\u", "\\x4", "\u{660}\u{661}",
    ];
    let nsoup = if args.tier == "thorough" { 400 } else { 60 };
    for k in 0..nsoup {
        let mut body = String::new();
        for _ in 0..1 + rng.below(6) {
            body.push_str(*rng.pick(pieces));
        }
        let q = *rng.pick(&["\"", "'"]);
        // an unescaped quote of the same kind would end the literal early: the pieces contain none
        progs.push((format!("extra:escape-soup-{k}"), format!("local s = {q}{body}{q}\nprint(s)\n")));
        out.bump("escape_soup_program");
    }
    progs.extend(programs(args, out, &mut rng, "/verif/corpus/c11"));

    // (a) every program x every built-in library x a random lint configuration
    for (origin, src) in &progs {
        for (lname, lib) in &builtins {
            if args.tier != "thorough" && !origin.starts_with("extra:") && !rng.chance(2, 5) {
                continue;
            }
            let (version, _) = lib.lua_version();
            let ast = match std::panic::catch_unwind(|| full_moon::parse_fallible(src, version).into_result()) {
                Ok(Ok(a)) => a,
                Ok(Err(_)) => {
                    out.bump("does_not_parse_under_this_dialect");
                    continue;
                }
                Err(_) => {
                    out.bump("parser_panicked");
                    out.case("C11.total", &list(vec![st(origin), st(lname), atom("parse"), st(if src.len() < 600 { src.as_str() } else { "(long)" })]), &list(vec![st("the parser panicked")]));
                    continue;
                }
            };
            let (config, _) = if rng.chance(1, 2) { (CheckerConfig::default(), list(vec![])) } else { random_config(&mut rng) };
            let checker: Checker<toml::value::Value> = match Checker::new(config, lib.clone()) {
                Ok(c) => c,
                Err(_) => continue,
            };
            let problems = match std::panic::catch_unwind(std::panic::AssertUnwindSafe(|| checker.test_on(&ast))) {
                Ok(d) => {
                    out.add("diagnostics_checked", d.len() as u64);
                    check_diags(src, &d)
                }
                Err(e) => {
                    let msg = e.downcast_ref::<String>().cloned().or_else(|| e.downcast_ref::<&str>().map(|s| (*s).to_owned())).unwrap_or_default();
                    vec![format!("checking panicked: {}", msg.chars().take(160).collect::<String>())]
                }
            };
            out.case(
                "C11.total",
                &list(vec![st(origin), st(lname), atom("lint"), st(if src.len() < 600 { src.as_str() } else { "(long)" })]),
                &list(problems.iter().map(st).collect()),
            );
        }
    }

    // (b) generated libraries that LOAD (round trip through YAML text), incl. dangling struct references and odd
    //     deprecation formats, against programs that walk through their names
    let gen = LibGen { max_depth: 3, max_keys: 6, allow_dangling_struct: true, ..LibGen::default() };
    for i in 0..args.n {
        let mut lib = gen.gen_lib(&mut rng);
        for (_, f) in lib.globals.iter_mut() {
            if rng.chance(1, 3) {
                f.deprecated = Some(gen_deprecated_weird(&mut rng));
            }
        }
        let text = match serde_yaml::to_string(&lib) {
            Ok(t) => t,
            Err(_) => continue,
        };
        let loaded: StandardLibrary = match serde_yaml::from_str(&text) {
            Ok(l) => l,
            Err(_) => {
                out.bump("generated_library_does_not_load");
                continue;
            }
        };
        // a program that reads, calls and assigns paths of the library
        let mut src = String::new();
        let names = ["a", "b", "c", "d"];
        for k in 0..6 {
            let depth = 1 + rng.below(4);
            let path: Vec<&str> = (0..depth).map(|_| *rng.pick(&names)).collect();
            let p = path.join(".");
            match (k + i) % 4 {
                0 => src.push_str(&format!("local _r{k} = {p}\n")),
                1 => src.push_str(&format!("{p}(1, \"s\", nil)\n")),
                2 => src.push_str(&format!("{p} = 1\n")),
                _ => src.push_str(&format!("{}:{}(x)\n", path[..depth.max(2) - 1].join("."), path[depth - 1])),
            }
        }
        // … and every key the library defines (wildcard segments instantiated), read, called and assigned in turn: whatever
        // kind of entry sits at a key — removed ones at the top level included — some statement goes through it
        for (j, key) in loaded.globals.keys().take(12).enumerate() {
            let p = key.replace('*', "w");
            if p.is_empty() || !p.split('.').all(|seg| seg.chars().all(|c| c.is_ascii_alphanumeric() || c == '_') && !seg.is_empty() && !seg.chars().next().unwrap().is_ascii_digit()) {
                continue;
            }
            match (j + i) % 4 {
                0 => src.push_str(&format!("local _k{j} = {p}\n")),
                1 => src.push_str(&format!("{p}(1)\n")),
                // a static-table local as the only / as a late argument of a call statement: unused_variable looks up the
                // parameter at that position, whatever number of parameters (none included) the entry declares
                2 => src.push_str(&format!("local _t{j} = {{}}\n{p}({}_t{j})\n", if i % 2 == 0 { "" } else { "1, 2, " })),
                _ => src.push_str(&format!("{p} = nil\n")),
            }
        }
        let ast = match full_moon::parse(&src) {
            Ok(a) => a,
            Err(_) => continue,
        };
        let checker: Checker<toml::value::Value> = match Checker::new(CheckerConfig::default(), loaded.clone()) {
            Ok(c) => c,
            Err(_) => continue,
        };
        let dangling = loaded.globals.values().chain(loaded.structs.values().flat_map(|m| m.values())).any(|f| match &f.field_kind {
            FieldKind::Struct(s) => !loaded.structs.contains_key(s),
            _ => false,
        });
        if dangling {
            out.bump("library_with_dangling_struct_reference");
        }
        let problems = match std::panic::catch_unwind(std::panic::AssertUnwindSafe(|| checker.test_on(&ast))) {
            Ok(d) => check_diags(&src, &d),
            Err(e) => {
                let msg = e.downcast_ref::<String>().cloned().or_else(|| e.downcast_ref::<&str>().map(|s| (*s).to_owned())).unwrap_or_default();
                vec![format!("checking panicked with a library that loaded without error: {}", msg.chars().take(160).collect::<String>())]
            }
        };
        out.case(
            "C11.total",
            &list(vec![st(format!("genlib:{i}")), lib_sx(&loaded), atom(if dangling { "lint-dangling" } else { "lint-genlib" }), st(&src)]),
            &list(problems.iter().map(st).collect()),
        );
    }

    // (c) Deprecated::try_instead on odd formats (model: Selene.Std.TryInstead)
    for _ in 0..args.n {
        let d = gen_deprecated_weird(&mut rng);
        let np = rng.below(4);
        let params: Vec<String> = (0..np).map(|k| format!("p{k}")).collect();
        let res = std::panic::catch_unwind(|| d.try_instead(&params));
        let imp = match res {
            Ok(Some(s)) => tagged("some", vec![st(s)]),
            Ok(None) => atom("none"),
            Err(_) => atom("panic"),
        };
        out.case("C11.try_instead", &list(vec![list(d.replace.iter().map(st).collect()), list(params.iter().map(st).collect())]), &imp);
    }

    // (d) RobloxClass::has_property / has_event on generated class tables — chains, dangling superclasses and cycles
    // (model: Selene.Std.RobloxClass). A table with a cycle made the pre-0720cb5 code overflow its stack, which no
    // catch_unwind can intercept: such tables also go through the real binary in the check's hostile-library stage.
    {
        use selene_lib::standard_library::RobloxClass;
        use std::collections::BTreeMap;
        let names = ["A", "B", "C", "D", "E"];
        let words = ["Size", "Name", "Text", "Changed", "Touched"];
        for _ in 0..args.n {
            let k = 1 + rng.below(5);
            let mut classes: BTreeMap<String, RobloxClass> = BTreeMap::new();
            for n in names.iter().take(k) {
                let sup = if rng.chance(1, 5) { "Instance".to_owned() } else { (*rng.pick(&names)).to_owned() };
                let events: Vec<String> = words.iter().filter(|_| rng.chance(1, 4)).map(|w| (*w).to_owned()).collect();
                let properties: Vec<String> = words.iter().filter(|_| rng.chance(1, 4)).map(|w| (*w).to_owned()).collect();
                classes.insert((*n).to_owned(), RobloxClass { superclass: sup, events, properties });
            }
            let start = names[rng.below(k)];
            let queries: Vec<(bool, &str)> = (0..4).map(|_| (rng.chance(1, 2), *rng.pick(&words))).collect();
            let res = std::panic::catch_unwind(std::panic::AssertUnwindSafe(|| {
                let c = &classes[start];
                queries.iter().map(|(is_prop, w)| if *is_prop { c.has_property(&classes, w) } else { c.has_event(&classes, w) }).collect::<Vec<bool>>()
            }));
            let imp = match res {
                Ok(v) => list(v.into_iter().map(boolean).collect()),
                Err(_) => atom("panic"),
            };
            out.case(
                "C11.class",
                &list(vec![
                    list(classes.iter().map(|(n, c)| list(vec![st(n), st(&c.superclass), list(c.events.iter().map(st).collect()), list(c.properties.iter().map(st).collect())])).collect()),
                    st(start),
                    list(queries.iter().map(|(p, w)| list(vec![atom(if *p { "p" } else { "e" }), st(*w)])).collect()),
                ]),
                &imp,
            );
        }
    }
}
