//! xorshift64* — every random choice of the harness derives from one state seeded by VERIF_SEED.
#[derive(Clone)]
pub struct Rng(pub u64);

impl Rng {
    pub fn new(seed: u64) -> Self {
        let mut r = Rng(seed ^ 0x9E37_79B9_7F4A_7C15);
        if r.0 == 0 {
            r.0 = 0x1234_5678_9ABC_DEF1;
        }
        for _ in 0..8 {
            r.next();
        }
        r
    }
    pub fn next(&mut self) -> u64 {
        let mut x = self.0;
        x ^= x >> 12;
        x ^= x << 25;
        x ^= x >> 27;
        self.0 = x;
        x.wrapping_mul(0x2545_F491_4F6C_DD1D)
    }
    pub fn below(&mut self, n: usize) -> usize {
        if n == 0 {
            0
        } else {
            (self.next() % n as u64) as usize
        }
    }
    pub fn chance(&mut self, num: usize, den: usize) -> bool {
        self.below(den) < num
    }
    pub fn pick<'a, T>(&mut self, xs: &'a [T]) -> &'a T {
        &xs[self.below(xs.len())]
    }
    pub fn fork(&mut self) -> Rng {
        Rng::new(self.next())
    }
}
