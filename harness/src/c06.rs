//! C06: `find_global`, `global_has_fields`, field-access and assignment checks.
use crate::libgen::*;
use crate::rng::Rng;
use crate::sx::*;
use crate::{Args, Out};
use selene_lib::standard_library::*;
use selene_lib::{Checker, CheckerConfig};

pub fn lookup_sx(lib: &StandardLibrary, path: &[String]) -> Sx {
    let lib2 = lib.clone();
    let p: Vec<String> = path.to_vec();
    match std::panic::catch_unwind(move || lib2.find_global(&p).cloned()) {
        Ok(Some(f)) => tagged("found", vec![field_sx(&f)]),
        Ok(None) => atom("absent"),
        Err(_) => atom("panic"),
    }
}

pub fn path_sx(p: &[String]) -> Sx {
    list(p.iter().map(st).collect())
}

pub fn make_checker(lib: &StandardLibrary) -> Checker<toml::value::Value> {
    Checker::new(CheckerConfig::default(), lib.clone()).expect("checker")
}

fn gen_path(r: &mut Rng, names: &[&str], max: usize) -> Vec<String> {
    let n = 1 + r.below(max);
    (0..n).map(|_| (*r.pick(names)).to_owned()).collect()
}

/// all paths over `names` of length 1..=depth
fn all_paths(names: &[&str], depth: usize) -> Vec<Vec<String>> {
    let mut res: Vec<Vec<String>> = Vec::new();
    let mut level: Vec<Vec<String>> = vec![vec![]];
    for _ in 0..depth {
        let mut next = Vec::new();
        for p in &level {
            for n in names {
                let mut q = p.clone();
                q.push((*n).to_owned());
                next.push(q);
            }
        }
        res.extend(next.iter().cloned());
        level = next;
    }
    res
}

pub fn run(args: &Args, out: &mut Out) {
    let mut rng = Rng::new(args.seed);
    let query_names = ["a", "b", "c", "d", "*"];
    let thorough = args.tier == "thorough";

    // --- find_global / global_has_fields on generated libraries ------------------------------
    let gens = [
        LibGen { max_depth: 4, max_keys: 6, allow_removed: true, ..LibGen::default() },
        LibGen { max_depth: 2, max_keys: 4, allow_removed: false, ..LibGen::default() },
        LibGen { max_depth: 3, max_keys: 8, allow_dangling_struct: true, ..LibGen::default() },
    ];
    let exhaustive = all_paths(&query_names, if thorough { 4 } else { 2 });
    for i in 0..args.n {
        let gen = &gens[i % gens.len()];
        let lib = gen.gen_lib(&mut rng);
        let lsx = lib_sx(&lib);
        let mut queries: Vec<Vec<String>> = Vec::new();
        if thorough || i % 4 == 0 {
            queries.extend(exhaustive.iter().cloned());
        }
        // the defined keys themselves, their prefixes and one-segment extensions
        for k in lib.globals.keys().take(6) {
            let segs: Vec<String> = k.split('.').map(|s| s.to_owned()).collect();
            for cut in 1..=segs.len() {
                queries.push(segs[..cut].to_vec());
            }
            let mut ext = segs.clone();
            ext.push((*rng.pick(&query_names)).to_owned());
            queries.push(ext.clone());
            ext.push((*rng.pick(&query_names)).to_owned());
            queries.push(ext);
            // `*` positions replaced by a concrete name
            let conc: Vec<String> =
                segs.iter().map(|s| if s == "*" { "d".to_owned() } else { s.clone() }).collect();
            queries.push(conc);
        }
        for _ in 0..12 {
            queries.push(gen_path(&mut rng, &query_names, 5));
        }
        queries.sort();
        queries.dedup();
        let results: Vec<Sx> = queries.iter().map(|q| list(vec![path_sx(q), lookup_sx(&lib, q)])).collect();
        for r in &results {
            if let Sx::List(v) = r {
                match &v[1] {
                    Sx::Atom(a) if a == "absent" => out.bump("find_absent"),
                    Sx::Atom(a) if a == "panic" => out.bump("find_panic"),
                    _ => out.bump("find_found"),
                }
            }
        }
        let has: Vec<Sx> = query_names
            .iter()
            .map(|n| list(vec![st(*n), boolean(lib.global_has_fields(n))]))
            .collect();
        out.case("C06.find", &lsx, &list(vec![list(results), list(has)]));
    }

    // --- reads and assignments through the real lint ----------------------------------------
    let gen = LibGen { max_depth: 3, max_keys: 6, allow_removed: false, ..LibGen::default() };
    for _ in 0..args.n {
        let lib = gen.gen_lib(&mut rng);
        let checker = make_checker(&lib);
        // targets: every library-rooted target / read uses a distinct root, because a global the file
        // assigns counts as script-bound for later uses of the same name (scope analysis, C01/C07)
        let mut roots: Vec<&str> = vec!["a", "b", "c", "d"];
        for i in (1..roots.len()).rev() {
            let j = rng.below(i + 1);
            roots.swap(i, j);
        }
        let nt = 1 + rng.below(3);
        let mut src = String::from("local L = {}\n");
        let mut targets: Vec<Sx> = Vec::new();
        let mut starts: Vec<usize> = Vec::new();
        for i in 0..nt {
            if i > 0 {
                src.push_str(", ");
            }
            starts.push(src.len());
            let root = if rng.chance(1, 4) { "L" } else { roots[i] };
            match rng.below(10) {
                0 | 1 => {
                    src.push_str(root);
                    targets.push(tagged("name", vec![st(root), boolean(root == "L")]));
                }
                2 => {
                    src.push_str(&format!("{root}[1]"));
                    targets.push(atom("other"));
                }
                3 => {
                    src.push_str(&format!("{root}().x"));
                    targets.push(atom("other"));
                }
                _ => {
                    let mut p = gen_path(&mut rng, &["a", "b", "c", "d"], 3);
                    p.insert(0, root.to_owned());
                    src.push_str(&p.join("."));
                    targets.push(tagged("path", vec![path_sx(&p), boolean(root == "L")]));
                }
            }
        }
        src.push_str(" = ");
        // the number of values is independent of the number of targets: every target is judged, whether or
        // not a value stands opposite it (`a.x, b.y = ...`, `a.x, b.y = 1, 2, 3`)
        let nv = match rng.below(4) {
            0 => 1,
            1 => 1 + rng.below(nt + 1),
            _ => nt,
        };
        let mut values: Vec<String> = (0..nv).map(|i| i.to_string()).collect();
        if rng.chance(1, 3) {
            *values.last_mut().unwrap() = String::from(if rng.chance(1, 2) { "..." } else { "nil" });
        }
        out.bump(if nv < nt { "assign_fewer_values" } else if nv > nt { "assign_more_values" } else { "assign_equal_values" });
        src.push_str(&values.join(", "));
        src.push('\n');
        // a read
        let mut rp = gen_path(&mut rng, &["a", "b", "c", "d"], 3);
        let rroot = (if rng.chance(1, 6) { "L" } else { roots[3] }).to_owned();
        rp.insert(0, rroot.clone());
        let read_start = src.len() + "local _r = ".len();
        src.push_str(&format!("local _r = {}\n", rp.join(".")));

        let ast = match full_moon::parse(&src) {
            Ok(a) => a,
            Err(_) => continue,
        };
        let diags = match std::panic::catch_unwind(std::panic::AssertUnwindSafe(|| checker.test_on(&ast))) {
            Ok(d) => d,
            Err(_) => {
                out.case(
                    "C06.access",
                    &list(vec![lib_sx(&lib), list(targets), tagged("read", vec![path_sx(&rp), boolean(rroot == "L")]), st(&src)]),
                    &atom("panic"),
                );
                continue;
            }
        };
        let mut found: Vec<Sx> = Vec::new();
        let mut read_found: Vec<Sx> = Vec::new();
        for d in &diags {
            if d.diagnostic.code != "incorrect_standard_library_use" {
                continue;
            }
            let kind = if d.diagnostic.message.contains("is not writable") {
                "notWritable"
            } else if d.diagnostic.message.contains("is not overridable") {
                "notOverridable"
            } else if d.diagnostic.message.contains("does not contain the field") {
                "noField"
            } else {
                "otherMessage"
            };
            let s = d.diagnostic.primary_label.range.0 as usize;
            if let Some(idx) = starts.iter().position(|x| *x == s) {
                found.push(list(vec![num(idx), atom(kind)]));
                out.bump(&format!("assign_{kind}"));
            } else if s == read_start {
                read_found.push(atom(kind));
                out.bump(&format!("read_{kind}"));
            } else {
                found.push(list(vec![num(999), atom(kind)]));
            }
        }
        out.case(
            "C06.access",
            &list(vec![
                lib_sx(&lib),
                list(targets),
                tagged("read", vec![path_sx(&rp), boolean(rroot == "L")]),
                st(&src),
            ]),
            &list(vec![list(found), list(read_found)]),
        );
    }
}
