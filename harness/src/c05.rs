//! C05: standard-library call checking (`visit_function_call` after the field has been found).
//!
//! A *unit* is one library that defines a single function (`fn`, or `obj.fn`) and a source file
//! with one call statement per line.  The real checker runs once per unit; every diagnostic of
//! `incorrect_standard_library_use` is mapped back to its statement (and, for type problems, to
//! the argument) by byte range.  The call shape handed to the model is dumped from the tree the
//! real `full_moon` parser built, not from the generator's intention.
use crate::libgen::*;
use crate::rng::Rng;
use crate::sx::*;
use crate::{Args, Out};
use full_moon::ast;
use full_moon::node::Node;
use full_moon::tokenizer::{StringLiteralQuoteType, Symbol, TokenType};
use selene_lib::standard_library::*;
use selene_lib::{Checker, CheckerConfig};

// ---- dumping the parsed call -------------------------------------------------------------

fn dump_string(tok: &full_moon::tokenizer::TokenReference) -> Option<Sx> {
    match tok.token().token_type() {
        TokenType::StringLiteral { literal, multi_line_depth, quote_type } => {
            let q = match quote_type {
                StringLiteralQuoteType::Single => atom("sq"),
                StringLiteralQuoteType::Double => atom("dq"),
                StringLiteralQuoteType::Brackets => tagged("long", vec![num(*multi_line_depth)]),
                _ => return None,
            };
            // third field: the token text the lint hands to `from_string`
            Some(tagged("str", vec![q, st(literal.as_str()), st(tok.token().to_string())]))
        }
        _ => None,
    }
}

fn dump_expr(e: &ast::Expression) -> Option<Sx> {
    Some(match e {
        ast::Expression::Parentheses { expression, .. } => tagged("paren", vec![dump_expr(expression)?]),
        ast::Expression::UnaryOperator { unop, expression } => {
            let op = match unop {
                ast::UnOp::Minus(_) => "minus",
                ast::UnOp::Not(_) => "not",
                ast::UnOp::Hash(_) => "hash",
                _ => return None,
            };
            tagged("unop", vec![atom(op), dump_expr(expression)?])
        }
        ast::Expression::BinaryOperator { lhs, binop, rhs } => {
            let op = match binop {
                ast::BinOp::And(_) => "and",
                ast::BinOp::Or(_) => "or",
                ast::BinOp::Caret(_) => "caret",
                ast::BinOp::GreaterThan(_) => "gt",
                ast::BinOp::GreaterThanEqual(_) => "ge",
                ast::BinOp::LessThan(_) => "lt",
                ast::BinOp::LessThanEqual(_) => "le",
                ast::BinOp::TwoEqual(_) => "eq",
                ast::BinOp::TildeEqual(_) => "ne",
                ast::BinOp::Plus(_) => "plus",
                ast::BinOp::Minus(_) => "minus",
                ast::BinOp::Star(_) => "star",
                ast::BinOp::Slash(_) => "slash",
                ast::BinOp::Percent(_) => "percent",
                ast::BinOp::TwoDots(_) => "concat",
                _ => return None,
            };
            tagged("binop", vec![atom(op), dump_expr(lhs)?, dump_expr(rhs)?])
        }
        ast::Expression::Function(_) => atom("function"),
        ast::Expression::FunctionCall(_) => atom("call"),
        ast::Expression::TableConstructor(_) => atom("table"),
        ast::Expression::Number(t) => tagged("number", vec![st(t.token().to_string())]),
        ast::Expression::String(t) => dump_string(t)?,
        ast::Expression::Symbol(t) => match t.token().token_type() {
            TokenType::Symbol { symbol } => match symbol {
                Symbol::Nil => atom("nil"),
                Symbol::True => atom("true"),
                Symbol::False => atom("false"),
                Symbol::Ellipsis => atom("vararg"),
                _ => return None,
            },
            _ => return None,
        },
        ast::Expression::Var(v) => tagged("name", vec![st(v.to_string().trim())]),
        _ => return None,
    })
}

struct Dumped {
    call: Sx,
    stmt: (usize, usize),
    args: Vec<(usize, usize)>,
    n_args: usize,
    form: &'static str,
}

fn bytes_of<N: Node>(n: &N) -> Option<(usize, usize)> {
    let (s, e) = n.range()?;
    Some((s.bytes(), e.bytes()))
}

fn dump_call(call: &ast::FunctionCall) -> Option<Dumped> {
    let suffixes: Vec<&ast::Suffix> = call.suffixes().collect();
    let (last, init) = suffixes.split_last()?;
    for s in init {
        match s {
            ast::Suffix::Index(ast::Index::Dot { .. }) => {}
            _ => return None,
        }
    }
    let (fargs, is_method) = match last {
        ast::Suffix::Call(ast::Call::AnonymousCall(a)) => (a, false),
        ast::Suffix::Call(ast::Call::MethodCall(m)) => (m.args(), true),
        _ => return None,
    };
    let mut ranges = Vec::new();
    let (args_sx, form) = match fargs {
        ast::FunctionArgs::Parentheses { arguments, .. } => {
            let mut v = Vec::new();
            for a in arguments {
                v.push(dump_expr(a)?);
                ranges.push(bytes_of(a)?);
            }
            (tagged("parens", v), "parens")
        }
        ast::FunctionArgs::String(t) => {
            ranges.push(bytes_of(t)?);
            let s = dump_string(t)?;
            // (string q content raw)
            let inner = match s {
                Sx::List(mut xs) => {
                    xs[0] = atom("string");
                    Sx::List(xs)
                }
                other => other,
            };
            (inner, "string-call")
        }
        ast::FunctionArgs::TableConstructor(t) => {
            ranges.push(bytes_of(t)?);
            (atom("table"), "table-call")
        }
        _ => return None,
    };
    Some(Dumped {
        call: tagged("call", vec![boolean(is_method), args_sx]),
        stmt: bytes_of(call)?,
        n_args: ranges.len(),
        args: ranges,
        form,
    })
}

// ---- running one unit ---------------------------------------------------------------------

fn rank(p: &Sx) -> (u32, usize) {
    if let Sx::List(xs) = p {
        if let Some(Sx::Atom(t)) = xs.first() {
            return match t.as_str() {
                "not-function" => (0, 0),
                "style" => (1, 0),
                "needs-vararg" => (2, 0),
                "count" => (3, 0),
                "type" => (4, if let Some(Sx::Atom(i)) = xs.get(1) { i.parse().unwrap_or(0) } else { 0 }),
                _ => (9, 0),
            };
        }
    }
    (9, 0)
}

fn classify(d: &selene_lib::lints::Diagnostic, args: &[(usize, usize)]) -> Sx {
    let m = &d.message;
    let notes: Vec<Sx> = d.notes.iter().map(st).collect();
    if m.ends_with("is not a function") {
        tagged("not-function", vec![])
    } else if m.ends_with("is not a method") {
        tagged("style", vec![boolean(true)])
    } else if m.ends_with("is a method") {
        tagged("style", vec![boolean(false)])
    } else if m.ends_with("requires use of the vararg") {
        tagged("needs-vararg", notes)
    } else if let Some(pos) = m.find("` requires ") {
        // "... requires {E} parameters, {N} passed"
        let rest = &m[pos + "` requires ".len()..];
        let mut it = rest.split(' ');
        let e = it.next().unwrap_or("?").to_owned();
        let _parameters = it.next();
        let n = it.next().unwrap_or("?").to_owned();
        if rest.ends_with(" passed") && e.parse::<u64>().is_ok() && n.parse::<u64>().is_ok() {
            let mut v = vec![atom(e), atom(n)];
            v.extend(notes);
            tagged("count", v)
        } else {
            tagged("other", vec![st(m)])
        }
    } else if m.starts_with("use of standard_library function") && m.ends_with("is incorrect") {
        let (s, e) = (d.primary_label.range.0 as usize, d.primary_label.range.1 as usize);
        match args.iter().position(|r| *r == (s, e)) {
            Some(i) => tagged("type", vec![num(i), st(d.primary_label.message.clone().unwrap_or_default())]),
            None => tagged("other", vec![st(format!("type problem at unknown range {s}..{e}"))]),
        }
    } else {
        tagged("other", vec![st(m)])
    }
}

fn path_of(kind: &FieldKind, nested: bool) -> &'static str {
    let _ = kind;
    if nested {
        "obj.fn"
    } else {
        "fn"
    }
}

/// Runs the real lint on `calls` (one statement each) against a library defining `path` as `kind`.
fn run_unit(out: &mut Out, kind: &FieldKind, path: &str, calls: &[String]) {
    let mut lib = StandardLibrary::default();
    lib.globals.insert(path.to_owned(), Field { field_kind: kind.clone(), deprecated: None });
    let mut src = String::new();
    for c in calls {
        src.push_str(c);
        src.push('\n');
    }
    let ast = match full_moon::parse(&src) {
        Ok(a) => a,
        Err(_) => {
            if calls.len() > 1 {
                for c in calls {
                    run_unit(out, kind, path, std::slice::from_ref(c));
                }
            } else {
                out.bump("generated_call_unparsable");
            }
            return;
        }
    };
    let checker: Checker<toml::value::Value> = Checker::new(CheckerConfig::default(), lib.clone()).expect("checker");
    let diags = match std::panic::catch_unwind(std::panic::AssertUnwindSafe(|| checker.test_on(&ast))) {
        Ok(d) => d,
        Err(_) => {
            out.bump("lint_panicked");
            out.case("C05.call", &list(vec![kind_sx(kind), atom("unit"), st(&src)]), &atom("panic"));
            return;
        }
    };
    let mut dumped: Vec<Option<Dumped>> = Vec::new();
    for stmt in ast.nodes().stmts() {
        match stmt {
            ast::Stmt::FunctionCall(call) => dumped.push(dump_call(call)),
            _ => dumped.push(None),
        }
    }
    let mut problems: Vec<Vec<Sx>> = dumped.iter().map(|_| Vec::new()).collect();
    for d in &diags {
        if d.diagnostic.code != "incorrect_standard_library_use" {
            continue;
        }
        let (s, e) = (d.diagnostic.primary_label.range.0 as usize, d.diagnostic.primary_label.range.1 as usize);
        let mut placed = false;
        for (i, du) in dumped.iter().enumerate() {
            if let Some(du) = du {
                if du.stmt.0 <= s && e <= du.stmt.1 {
                    problems[i].push(classify(&d.diagnostic, &du.args));
                    placed = true;
                    break;
                }
            }
        }
        if !placed {
            out.bump("diagnostic_outside_any_call");
            out.case(
                "C05.call",
                &list(vec![kind_sx(kind), atom("unit"), st(&src)]),
                &tagged("stray", vec![st(&d.diagnostic.message)]),
            );
        }
    }
    for (du, mut ps) in dumped.into_iter().zip(problems.into_iter()) {
        let du = match du {
            Some(d) => d,
            None => {
                out.bump("call_shape_unsupported");
                continue;
            }
        };
        ps.sort_by_key(rank);
        out.bump(&format!("form_{}", du.form));
        out.bump(&format!("nargs_{}", du.n_args.min(6)));
        if ps.is_empty() {
            out.bump("impl_clean");
        }
        for p in &ps {
            if let Sx::List(xs) = p {
                if let Some(Sx::Atom(t)) = xs.first() {
                    out.bump(&format!("impl_{t}"));
                }
            }
        }
        let text = &src[du.stmt.0..du.stmt.1];
        out.case("C05.call", &list(vec![kind_sx(kind), du.call, st(text)]), &list(ps));
    }
}

// ---- generators ---------------------------------------------------------------------------

/// literal contents that can be written verbatim between the given delimiters
fn gen_string(r: &mut Rng) -> String {
    let plain = ["count", "step", "a b", "", "[count]", "10", "abc", "1e2", "0x1F", " 7 ", "inf", "collect"];
    match r.below(10) {
        0 | 1 | 2 => format!("\"{}\"", r.pick(&plain)),
        3 | 4 => format!("'{}'", r.pick(&plain)),
        5 => (*r.pick(&[
            "\"x\\\"y\"", "'x\"y'", "\"x'y\"", "\"\\\\n\"", "'\\n'", "\"\\110\"",
            // quote characters at the edges of the content
            "\"'count'\"", "'\"count\"'", "\"count'\"", "'\"step'", "\"`count`\"", "[['count']]", "[[\"step\"]]", "\" count\"", "\"count \"",
        ]))
        .to_owned(),
        6 | 7 => format!("[[{}]]", r.pick(&["count", "step", "a b", "", "10", "abc", "x\"y", "x'y"])),
        8 => format!("[=[{}]=]", r.pick(&["count", "step", "]]", "10", ""])),
        _ => format!("[==[{}]==]", r.pick(&["count", "a]=]b", "10"])),
    }
}

fn gen_atom_expr(r: &mut Rng) -> String {
    match r.below(14) {
        0 => "nil".into(),
        1 => (*r.pick(&["true", "false"])).into(),
        2 | 3 => (*r.pick(&["1", "42", "0x10", "1.5e3", ".5"])).into(),
        4 | 5 | 6 => gen_string(r),
        7 => "...".into(),
        8 => (*r.pick(&["g()", "g(1)", "x.y()", "x:m(2)", "g\"s\"", "g{}"])).into(),
        9 | 10 => (*r.pick(&["x", "y", "x.y", "x[1]"])).into(),
        11 => (*r.pick(&["{}", "{1, 2}", "{a = 1}"])).into(),
        12 => (*r.pick(&["function() end", "function(a) return a end"])).into(),
        _ => gen_string(r),
    }
}

fn gen_expr(r: &mut Rng, depth: usize) -> String {
    if depth == 0 || r.chance(2, 5) {
        return gen_atom_expr(r);
    }
    match r.below(8) {
        0 | 1 => format!("({})", gen_expr(r, depth - 1)),
        2 | 3 => {
            let e = gen_expr(r, depth - 1);
            let e = if r.chance(1, 3) { format!("({e})") } else { e };
            match r.below(3) {
                0 => {
                    if e.starts_with('-') {
                        format!("- {e}")
                    } else {
                        format!("-{e}")
                    }
                }
                1 => format!("not {e}"),
                _ => format!("#{e}"),
            }
        }
        _ => {
            let ops = ["^", ">", ">=", "<", "<=", "==", "~=", "+", "-", "*", "/", "%", "..", "and", "or", "+", "-", "+"];
            let op = *r.pick(&ops);
            let mut l = gen_expr(r, depth - 1);
            let mut rr = gen_expr(r, depth - 1);
            // same-type operands are the interesting case of `same_type_if_equal`
            if r.chance(1, 4) {
                rr = l.clone();
            }
            if r.chance(1, 2) {
                l = format!("({l})");
            }
            if r.chance(1, 2) || rr.starts_with('-') {
                rr = format!("({rr})");
            }
            // `1 ..` would lex as a malformed number
            format!("{l} {op} {rr}")
        }
    }
}

fn callee(nested: bool, colon: bool) -> String {
    match (nested, colon) {
        (false, _) => "fn".to_owned(),
        (true, false) => "obj.fn".to_owned(),
        (true, true) => "obj:fn".to_owned(),
    }
}

fn gen_call(r: &mut Rng, f: Option<&FunctionBehavior>, nested: bool) -> String {
    let n_params = f.map(|f| f.arguments.len()).unwrap_or(1);
    let method = f.map(|f| f.method).unwrap_or(false);
    // mostly the right style
    let colon = nested && (if r.chance(1, 6) { !method } else { method });
    let head = callee(nested, colon);
    match r.below(12) {
        0 => format!("{head}{}", {
            let s = gen_string(r);
            if s.starts_with('[') {
                s
            } else {
                format!(" {s}")
            }
        }),
        1 => format!("{head}{}", r.pick(&["{}", "{1}", " { x = 1 }"])),
        _ => {
            let n = r.below(n_params + 3);
            let mut args: Vec<String> = (0..n).map(|_| gen_expr(r, 2)).collect();
            // arguments that fit the declaration, so that clean calls are not rare
            if let Some(f) = f {
                for (i, a) in args.iter_mut().enumerate() {
                    if let Some(p) = f.arguments.get(i) {
                        if r.chance(1, 2) {
                            *a = match &p.argument_type {
                                ArgumentType::Number => (*r.pick(&["1", "-2", "1 + 2", "#x"])).to_owned(),
                                ArgumentType::String => (*r.pick(&["\"s\"", "'t'", "[[u]]", "x .. y"])).to_owned(),
                                ArgumentType::Bool => (*r.pick(&["true", "not x", "1 < 2"])).to_owned(),
                                ArgumentType::Table => "{}".to_owned(),
                                ArgumentType::Function => "function() end".to_owned(),
                                ArgumentType::Nil => "nil".to_owned(),
                                ArgumentType::Constant(cs) => {
                                    let c = r.pick(cs).clone();
                                    match r.below(4) {
                                        0 if !c.contains('\'') && !c.contains('\\') => format!("'{c}'"),
                                        1 if !c.contains("]]") && !c.ends_with(']') => format!("[[{c}]]"),
                                        2 if !c.contains("]=]") && !c.ends_with(']') => format!("[=[{c}]=]"),
                                        _ if !c.contains('"') && !c.contains('\\') => format!("\"{c}\""),
                                        _ => "x".to_owned(),
                                    }
                                }
                                _ => a.clone(),
                            };
                        }
                    }
                }
            }
            if n > 0 && r.chance(1, 5) {
                args[n - 1] = (*r.pick(&["...", "g()", "x:m()", "(g())", "(...)"])).to_owned();
            }
            format!("{head}({})", args.join(", "))
        }
    }
}

fn arg(required: Required, argument_type: ArgumentType) -> Argument {
    Argument { required, argument_type, observes: Observes::ReadWrite, deprecated: None }
}

/// the parameter alphabet of the bounded-exhaustive part
fn param_alphabet() -> Vec<Argument> {
    let cl = || ArgumentType::Constant(vec!["count".to_owned(), "step".to_owned()]);
    vec![
        arg(Required::Required(None), ArgumentType::Number),
        arg(Required::NotRequired, ArgumentType::Number),
        arg(Required::Required(Some("needs this".to_owned())), ArgumentType::String),
        arg(Required::Required(None), cl()),
        arg(Required::NotRequired, cl()),
        arg(Required::Required(None), ArgumentType::Display("Foo".to_owned())),
        arg(Required::Required(None), ArgumentType::Vararg),
        arg(Required::NotRequired, ArgumentType::Vararg),
    ]
}

/// the argument alphabet of the bounded-exhaustive part (9 kinds)
const ARG_KINDS: [&str; 9] = ["nil", "true", "1", "\"count\"", "[[count]]", "...", "g()", "x", "{}"];

fn sequences<T: Clone>(alphabet: &[T], max_len: usize) -> Vec<Vec<T>> {
    let mut res: Vec<Vec<T>> = vec![vec![]];
    let mut level: Vec<Vec<T>> = vec![vec![]];
    for _ in 0..max_len {
        let mut next = Vec::new();
        for p in &level {
            for a in alphabet {
                let mut q = p.clone();
                q.push(a.clone());
                next.push(q);
            }
        }
        res.extend(next.iter().cloned());
        level = next;
    }
    res
}

fn exhaustive(out: &mut Out, max_params: usize, max_args: usize, long_tails: bool) {
    let params = param_alphabet();
    let arg_seqs = sequences(&ARG_KINDS, max_args);
    let pairs = sequences(&ARG_KINDS, 2).into_iter().filter(|s| s.len() == 2).collect::<Vec<_>>();
    for ps in sequences(&params, max_params) {
        let f = FunctionBehavior { arguments: ps, method: false, must_use: false };
        let kind = FieldKind::Function(f);
        let mut calls: Vec<String> = arg_seqs.iter().map(|s| format!("fn({})", s.join(", "))).collect();
        if long_tails {
            // 4 and 5 arguments: the first ones are beyond the type loop's interest only from
            // position 3 on, so the prefix is fixed and the last two range over all kinds
            for p in &pairs {
                calls.push(format!("fn(1, x, {}, {})", p[0], p[1]));
                calls.push(format!("fn(1, x, nil, {}, {})", p[0], p[1]));
            }
        }
        for sugar in ["fn\"count\"", "fn'nope'", "fn[[count]]", "fn[=[step]=]", "fn{}"] {
            calls.push(sugar.to_owned());
        }
        out.add("exhaustive_functions", 1);
        run_unit(out, &kind, "fn", &calls);
    }
}

/// calls with an open argument (a call / `...`) that is NOT last, followed only by keyword literals or other closed arguments,
/// against definitions with three to five required parameters: whether more values may arrive is a matter of the LAST argument
fn open_not_last(out: &mut Out) {
    let any = |r: Required| arg(r, ArgumentType::Any);
    for n_required in 3..=5usize {
        for n_optional in 0..=1usize {
            let mut ps: Vec<Argument> = (0..n_required).map(|_| any(Required::Required(None))).collect();
            ps.extend((0..n_optional).map(|_| any(Required::NotRequired)));
            let kind = FieldKind::Function(FunctionBehavior { arguments: ps, method: false, must_use: false });
            let mut calls: Vec<String> = Vec::new();
            for open in ["g()", "...", "x:m()", "(g())", "g() or 1"] {
                for tail in [vec!["nil"], vec!["true"], vec!["false"], vec!["nil", "nil"], vec!["1"], vec!["x"], vec!["\"s\""], vec!["{}"], vec!["nil", "true"], vec!["function() end"], vec!["nil", "g()"], vec!["true", "..."]] {
                    calls.push(format!("fn({open}, {})", tail.join(", ")));
                    calls.push(format!("fn(1, {open}, {})", tail.join(", ")));
                }
            }
            out.add("open_not_last_functions", 1);
            run_unit(out, &kind, "fn", &calls);
        }
    }
}

pub fn run(args: &Args, out: &mut Out) {
    let mut rng = Rng::new(args.seed);
    let thorough = args.tier == "thorough";
    open_not_last(out);

    // --- probes shaped like the shipped library (lua51.yml: collectgarbage, math.abs, math.max,
    //     string.upper, debug.setlocal) --------------------------------------------------------
    {
        let collectgarbage = FieldKind::Function(FunctionBehavior {
            arguments: vec![
                arg(
                    Required::NotRequired,
                    ArgumentType::Constant(
                        ["collect", "stop", "restart", "count", "step", "setpause", "setstepmul"].iter().map(|s| (*s).to_owned()).collect(),
                    ),
                ),
                arg(Required::NotRequired, ArgumentType::Number),
            ],
            method: false,
            must_use: false,
        });
        let calls: Vec<String> = [
            "fn(\"'count'\")", "fn('\"count\"')", "fn(\"count'\")", "fn([['count']])", "fn \"'step'\"", "fn(\"`step`\")", "fn(\" count\")",
            "fn(\"count\")", "fn('count')", "fn([[count]])", "fn([=[count]=])", "fn[[count]]", "fn\"count\"", "fn(\"whoops\")",
            "fn([[whoops]])", "fn()", "fn(nil, 1)", "fn(\"step\", \"x\")", "fn(\"count\" .. x)",
        ]
        .iter()
        .map(|s| (*s).to_owned())
        .collect();
        run_unit(out, &collectgarbage, "fn", &calls);

        let abs = FieldKind::Function(FunctionBehavior {
            arguments: vec![arg(Required::Required(None), ArgumentType::Number)],
            method: false,
            must_use: false,
        });
        let calls: Vec<String> = [
            "fn(1)", "fn()", "fn(1, 2)", "fn(1, g())", "fn(1, ...)", "fn(1, 2, g())", "fn(g())", "fn(...)", "fn(1, (g()))", "fn(-\"1\")",
            "fn(-\"abc\")", "fn(\"1\" + \"1\")", "fn(-(x .. y))", "fn(-{})", "fn({} + {})", "fn(\"1\")", "fn(x)", "fn(x and 1)", "fn(#x)",
        ]
        .iter()
        .map(|s| (*s).to_owned())
        .collect();
        run_unit(out, &abs, "fn", &calls);

        let max = FieldKind::Function(FunctionBehavior {
            arguments: vec![
                arg(Required::Required(None), ArgumentType::Number),
                arg(Required::Required(Some("math.max should be given more than one number".to_owned())), ArgumentType::Vararg),
            ],
            method: false,
            must_use: false,
        });
        let calls: Vec<String> = ["fn(1)", "fn()", "fn(1, 2)", "fn(g())", "fn(1, 2, 3)", "fn(\"a\", 2)", "fn(1, \"b\")"].iter().map(|s| (*s).to_owned()).collect();
        run_unit(out, &max, "fn", &calls);

        for k in [
            FieldKind::Any,
            FieldKind::Property(PropertyWritability::ReadOnly),
            FieldKind::Property(PropertyWritability::FullWrite),
            FieldKind::Struct("S".to_owned()),
        ] {
            let calls: Vec<String> = ["fn(1)", "fn()", "fn\"x\"", "fn{}"].iter().map(|s| (*s).to_owned()).collect();
            run_unit(out, &k, "fn", &calls);
            let calls: Vec<String> = ["obj.fn(1)", "obj:fn()", "obj.fn\"x\""].iter().map(|s| (*s).to_owned()).collect();
            run_unit(out, &k, "obj.fn", &calls);
        }
    }

    // --- generated functions x generated calls ------------------------------------------------
    let per_unit = if thorough { 16 } else { 10 };
    for _ in 0..args.n {
        let f = gen_function_full(&mut rng);
        let nested = f.method || rng.chance(1, 3);
        let kind = FieldKind::Function(f.clone());
        let path = path_of(&kind, nested);
        let calls: Vec<String> = (0..per_unit).map(|_| gen_call(&mut rng, Some(&f), nested)).collect();
        if rng.chance(1, 4) {
            // one call per source file: no statement can influence another
            for c in &calls {
                run_unit(out, &kind, path, std::slice::from_ref(c));
            }
        } else {
            run_unit(out, &kind, path, &calls);
        }
    }

    // --- bounded-exhaustive ------------------------------------------------------------------
    if args.rest.iter().any(|a| a == "--no-exhaustive") {
        return;
    }
    if thorough {
        exhaustive(out, 3, 3, true);
    } else {
        exhaustive(out, 2, 2, false);
    }
}
