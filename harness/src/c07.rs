//! C07: a locally re-bound standard-library name is never linted as the library's.
//! For every (use snippet × re-binding construct): the use inside the binding's scope must draw no
//! incorrect_standard_library_use / deprecated / must_use diagnostic; the use outside the scope must
//! be linted exactly as in the twin where the binding has a fresh name.
use crate::astdump;
use crate::rng::Rng;
use crate::sx::*;
use crate::twin::canon;
use crate::{Args, Out};
use selene_lib::standard_library::StandardLibrary;
use selene_lib::{Checker, CheckerConfig};

const CODES: &[&str] = &["incorrect_standard_library_use", "deprecated", "must_use"];

/// (root name, statement using it, what it normally triggers)
pub const USES: &[(&str, &str, &str)] = &[
    ("math", "local _u = math.floor(\"x\")", "type"),
    ("math", "local _u = math.nope", "no-field"),
    ("math", "math.nope()", "no-field-call"),
    ("math", "math.pi = 3", "not-writable"),
    ("math", "math.floor(1.5)", "must_use?"),
    ("math", "local _u = math.floor()", "count"),
    ("table", "local _u = table.getn(t)", "deprecated-call"),
    ("table", "local _u = table.getn", "deprecated-expression"),
    ("table", "table.foreach(t, print)", "deprecated-stmt"),
    ("table", "table.insert(t)", "count"),
    ("string", "local _u = string.format()", "count"),
    ("string", "local _u = (\"x\"):rep() .. string.nope", "no-field"),
    ("string", "string.upper(\"x\")", "must_use"),
    ("tostring", "tostring(1)", "must_use"),
    ("tostring", "local _u = tostring()", "count"),
    ("print", "print = 1", "not-overridable"),
    ("print", "local _u = print.x", "no-field"),
    ("type", "type(1)", "must_use"),
    ("os", "os.time(1, 2, 3)", "count"),
    ("os", "local _u = os:time()", "method"),
    ("coroutine", "coroutine.create(f)", "must_use"),
    ("debug", "debug.nope = 1", "no-field-write"),
    ("oldfn", "oldfn(1)", "deprecated-call"),
    ("oldvalue", "local _u = oldvalue", "deprecated-expression"),
    ("lib", "local _u = lib.oldfield", "deprecated-field"),
    ("depr_param", "depr_param(1)", "deprecated-param"),
    // call statements whose arguments contain statements of their own (callbacks): the called name is still the first
    // identifier of the statement, whatever is read while the arguments are visited
    ("coroutine", "coroutine.create(function()\n    print(1)\n  end)", "must_use-callback"),
    ("coroutine", "coroutine.wrap(function(a)\n    local b = a\n    print(b)\n  end)", "must_use-callback-2"),
    ("string", "string.format(\"%s\", (function()\n    print(1)\n    return 1\n  end)())", "must_use-callback-call"),
    ("math", "math.max(1, (function() undefined_g() return 2 end)())", "must_use-callback-inline"),
    ("tostring", "tostring(function() print(1) end)", "must_use-callback-bare"),
    ("table", "table.insert(t, function()\n    print(t)\n  end)", "observes-callback"),
    ("select", "select(1, function() print(1) end)", "must_use-callback-select"),
    // the same uses through a parenthesised root / with trivia after the root: whatever a lint makes of
    // them, it must make nothing of them while the root is bound by the script
    ("math", "local _u = (math).floor(\"x\")", "paren-root-type"),
    ("math", "local _u = (math).nope", "paren-root-no-field"),
    ("math", "local _u = ((math)).floor(1, 2, 3)", "paren-root-count"),
    ("table", "local _u = (table).getn(t)", "paren-root-deprecated"),
    ("string", "local _u = (string):upper()", "paren-root-method"),
    ("math", "local _u = math --[[c]] .floor(\"x\")", "trivia-root-type"),
    ("math", "local _u = math\n  .nope", "trivia-root-no-field"),
    ("oldvalue", "local _u = (oldvalue)", "paren-deprecated-expression"),
    ("lib", "local _u = (lib).oldfield", "paren-root-deprecated-field"),
    // uses inside the table constructor of a call written without parentheses, and inside string-call chains
    ("math", "f { math.nope }", "table-call-no-field"),
    ("math", "local _u = f { x = math.nope, [math.nope2] = 1 }", "table-call-keyed-no-field"),
    ("table", "t:m { table.getn }", "table-call-method-deprecated"),
    ("math", "local _u = f { { math.floor(\"x\") } }", "table-call-nested-type"),
    ("string", "f { string.nope } { string.nope2 }", "table-call-chain-no-field"),
    ("math", "f \"s\" { math.nope }", "string-then-table-call"),
];

/// binding constructs: (name, text before the inside use, text after it) — `{R}` is the bound name
pub const BINDINGS: &[(&str, &str, &str)] = &[
    ("local", "do\n  local {R} = {}\n  ", "\nend\n"),
    ("local-multi", "do\n  local _a, {R} = 1, {}\n  ", "\nend\n"),
    ("param", "local function _f({R})\n  ", "\nend\n"),
    ("param-second", "local function _f(_a, {R})\n  ", "\nend\n"),
    ("numeric-for", "for {R} = 1, 2 do\n  ", "\nend\n"),
    ("generic-for", "for {R} in pairs(t) do\n  ", "\nend\n"),
    ("generic-for-second", "for _k, {R} in pairs(t) do\n  ", "\nend\n"),
    ("local-function", "do\n  local function {R}() end\n  ", "\nend\n"),
    ("nested-closure", "do\n  local {R} = {}\n  local _g = function()\n    ", "\n  end\nend\n"),
    ("method-self-body", "local _o = {}\nfunction _o:m({R})\n  ", "\nend\n"),
    ("repeat-until", "repeat\n  local {R} = {}\n  ", "\nuntil true\n"),
    ("if-branch", "if t then\n  local {R} = {}\n  ", "\nend\n"),
    ("else-branch", "if t then\nelse\n  local {R} = {}\n  ", "\nend\n"),
    // loops whose header expressions contain a function literal: blocks are entered between the header and the body
    ("generic-for-header-closure", "for _k, {R} in pairs(f(function(n) return n end)) do\n  ", "\nend\n"),
    ("generic-for-first-header-closure", "for {R} in f(function() local _q = 1 end, function(...) return ... end) do\n  ", "\nend\n"),
    ("numeric-for-header-closure", "for {R} = 1, (function() return 2 end)() do\n  ", "\nend\n"),
    ("numeric-for-step-closure", "for {R} = 1, 2, f(function() do end end) do\n  ", "\nend\n"),
    ("while-condition-closure", "while f(function() end) do\n  local {R} = {}\n  ", "\nend\n"),
    ("param-of-closure-argument", "f(function({R})\n  ", "\nend)\n"),
    ("local-after-nested-function", "do\n  local function _h() local _i = 1 end\n  local {R} = {}\n  ", "\nend\n"),
    // the bound name with blanks, line breaks and comments attached to its token: the name is the token, not its trivia
    ("param-padded", "local function _f( {R} )\n  ", "\nend\n"),
    ("param-own-line", "local function _f(\n  _a,\n  {R}\n)\n  ", "\nend\n"),
    ("param-commented", "local function _f({R} --[[ the library's name, re-bound ]])\n  ", "\nend\n"),
    ("param-comment-before", "local function _f(--[[ re-bound ]] {R}, _b)\n  ", "\nend\n"),
    ("local-padded", "do\n  local   {R}   =   {}\n  ", "\nend\n"),
    ("local-commented", "do\n  local {R} -- re-bound\n    = {}\n  ", "\nend\n"),
    ("generic-for-padded", "for _k ,  {R}  in pairs(t) do\n  ", "\nend\n"),
    ("numeric-for-commented", "for {R} --[[ i ]] = 1, 2 do\n  ", "\nend\n"),
    ("local-function-padded", "do\n  local function   {R}   () end\n  ", "\nend\n"),
];

fn diags_of(checker: &Checker<toml::value::Value>, src: &str) -> Option<Vec<String>> {
    let ast = full_moon::parse(src).ok()?;
    let (_c, _s, d) = astdump::dump(&ast);
    let diags = std::panic::catch_unwind(std::panic::AssertUnwindSafe(|| checker.test_on(&ast))).ok()?;
    let id = |s: &str| s.to_owned();
    let mut v: Vec<String> = diags.iter().filter(|x| CODES.contains(&x.diagnostic.code)).map(|x| canon(x, &d, &id)).collect();
    v.sort();
    Some(v)
}

pub fn run(args: &Args, out: &mut Out) {
    let mut rng = Rng::new(args.seed ^ 0xC07);
    let std51 = StandardLibrary::from_name("lua51").unwrap();
    let mut custom: StandardLibrary = serde_yaml::from_str(
        "globals:\n  oldfn:\n    args:\n      - type: any\n        required: false\n    deprecated:\n      message: old\n  oldvalue:\n    property: read-only\n    deprecated:\n      message: gone\n  depr_param:\n    args:\n      - type: any\n        required: false\n        deprecated:\n          message: no more\n  lib.oldfield:\n    property: read-only\n    deprecated:\n      message: gone\n",
    )
    .unwrap();
    custom.extend(std51);
    let checker: Checker<toml::value::Value> = Checker::new(CheckerConfig::default(), custom).unwrap();
    let prelude = "local t, f = {}, nil\n";
    let mut combos: Vec<(usize, usize)> = Vec::new();
    for u in 0..USES.len() {
        for b in 0..BINDINGS.len() {
            combos.push((u, b));
        }
    }
    // quick tier: a random half; thorough: everything
    if args.tier != "thorough" {
        for i in (1..combos.len()).rev() {
            let j = rng.below(i + 1);
            combos.swap(i, j);
        }
        combos.truncate(combos.len() / 2 + 1);
    }
    for (u, b) in combos {
        let (root, use_stmt, what) = USES[u];
        let (bname, before, after) = BINDINGS[b];
        let bind = |r: &str| (before.replace("{R}", r), after.to_owned());
        let (b1, a1) = bind(root);
        let (b2, a2) = bind("zq_fresh");
        let control = format!("{prelude}{use_stmt}\n");
        let inside = format!("{prelude}{b1}{use_stmt}{a1}");
        let outside = format!("{prelude}{b1}local _inner = 1{a1}{use_stmt}\n");
        let outside_twin = format!("{prelude}{b2}local _inner = 1{a2}{use_stmt}\n");
        // the use *before* the binding — or, for expression snippets and branch bindings, in the condition of the
        // following `elseif` / in `until`-free sibling positions, which lie outside the branch's scope
        let (before_prog, before_twin) = match (use_stmt.strip_prefix("local _u = "), bname) {
            (Some(expr), "if-branch") => (
                format!("{prelude}if t then\n  local {root} = {{}}\nelseif {expr} then\nelseif f then\n  local _z = {expr}\nend\n"),
                format!("{prelude}if t then\n  local zq_fresh = {{}}\nelseif {expr} then\nelseif f then\n  local _z = {expr}\nend\n"),
            ),
            (Some(expr), "numeric-for") => (
                format!("{prelude}for {root} = 1, ({expr}) do\nend\n"),
                format!("{prelude}for zq_fresh = 1, ({expr}) do\nend\n"),
            ),
            (Some(expr), "local") => (
                format!("{prelude}do\n  local {root}, _w = {{}}, {expr}\nend\n"),
                format!("{prelude}do\n  local zq_fresh, _w = {{}}, {expr}\nend\n"),
            ),
            _ => (
                format!("{prelude}{use_stmt}\n{b1}local _inner = 1{a1}"),
                format!("{prelude}{use_stmt}\n{b2}local _inner = 1{a2}"),
            ),
        };
        let r = (
            diags_of(&checker, &control),
            diags_of(&checker, &inside),
            diags_of(&checker, &outside),
            diags_of(&checker, &outside_twin),
            diags_of(&checker, &before_prog),
            diags_of(&checker, &before_twin),
        );
        let show = |v: &Option<Vec<String>>| match v {
            Some(v) => list(v.iter().map(st).collect()),
            None => atom("panic-or-parse-error"),
        };
        if let Some(c) = &r.0 {
            if !c.is_empty() {
                out.bump("control_triggers_a_library_lint");
            }
        }
        out.case(
            "C07.gate",
            &list(vec![st(root), st(use_stmt), atom(what), atom(bname), st(&inside), st(&outside)]),
            &list(vec![show(&r.0), show(&r.1), show(&r.2), show(&r.3), show(&r.4), show(&r.5)]),
        );
    }

    // ---- Luau: uses inside `typeof(…)` type annotations (an expression in type position) ---------------------
    luau_stage(out);
}

/// (root, expression in type position, what it normally triggers)
const LUAU_USES: &[(&str, &str, &str)] = &[
    ("math", "local _u: typeof(math.nope) = nil", "typeof-no-field"),
    ("math", "local _u = (nil :: typeof(math.nope))", "cast-typeof-no-field"),
    ("math", "local _u: typeof(math.floor(\"x\")) = nil", "typeof-call-type"),
    ("table", "local _u: typeof(table.getn(t)) = nil", "typeof-deprecated-call"),
    ("table", "local _u: { typeof(table.getn) } = {}", "typeof-in-table-type"),
    ("string", "local function _g(_p: typeof(string.nope)) end", "typeof-parameter-annotation"),
    ("math", "type _T = typeof(math.nope)", "typeof-type-alias"),
    ("math", "local _u = math.nope", "control-plain"),
];

const LUAU_BINDINGS: &[(&str, &str, &str)] = &[
    ("local", "do\n  local {R} = {}\n  ", "\nend\n"),
    ("param", "local function _f({R})\n  ", "\nend\n"),
    ("typed-param", "local function _f({R}: any)\n  ", "\nend\n"),
    ("generic-for", "for _k, {R} in pairs(t) do\n  ", "\nend\n"),
    ("typed-local", "do\n  local {R}: any = {}\n  ", "\nend\n"),
];

fn luau_stage(out: &mut Out) {
    let luau = match StandardLibrary::from_name("luau") {
        Some(l) => l,
        None => return,
    };
    let (version, _) = luau.lua_version();
    let checker: Checker<toml::value::Value> = Checker::new(CheckerConfig::default(), luau).unwrap();
    let diags = |src: &str| -> Option<Vec<String>> {
        let ast = std::panic::catch_unwind(|| full_moon::parse_fallible(src, version).into_result()).ok()?.ok()?;
        let (_c, _s, d) = astdump::dump(&ast);
        let diags = std::panic::catch_unwind(std::panic::AssertUnwindSafe(|| checker.test_on(&ast))).ok()?;
        let id = |s: &str| s.to_owned();
        let mut v: Vec<String> = diags.iter().filter(|x| CODES.contains(&x.diagnostic.code)).map(|x| canon(x, &d, &id)).collect();
        v.sort();
        Some(v)
    };
    let prelude = "local t, f = {}, nil\n";
    for (root, use_stmt, what) in LUAU_USES {
        for (bname, before, after) in LUAU_BINDINGS {
            let bind = |r: &str| (before.replace("{R}", r), (*after).to_owned());
            let (b1, a1) = bind(root);
            let (b2, a2) = bind("zq_fresh");
            let control = format!("{prelude}{use_stmt}\n");
            let inside = format!("{prelude}{b1}{use_stmt}{a1}");
            let outside = format!("{prelude}{b1}local _inner = 1{a1}{use_stmt}\n");
            let outside_twin = format!("{prelude}{b2}local _inner = 1{a2}{use_stmt}\n");
            let before_prog = format!("{prelude}{use_stmt}\n{b1}local _inner = 1{a1}");
            let before_twin = format!("{prelude}{use_stmt}\n{b2}local _inner = 1{a2}");
            let r = (diags(&control), diags(&inside), diags(&outside), diags(&outside_twin), diags(&before_prog), diags(&before_twin));
            let show = |v: &Option<Vec<String>>| match v {
                Some(v) => list(v.iter().map(st).collect()),
                None => atom("panic-or-parse-error"),
            };
            out.bump("luau_gate_cases");
            out.case(
                "C07.gate",
                &list(vec![st(*root), st(*use_stmt), atom(*what), atom(format!("luau-{bname}")), st(&inside), st(&outside)]),
                &list(vec![show(&r.0), show(&r.1), show(&r.2), show(&r.3), show(&r.4), show(&r.5)]),
            );
        }
    }
}
