//! S-expression printing (the exchange format read by the Lean driver).
#[derive(Clone, Debug, PartialEq, Eq)]
pub enum Sx {
    Atom(String),
    Str(String),
    List(Vec<Sx>),
}

pub fn atom<S: Into<String>>(s: S) -> Sx {
    Sx::Atom(s.into())
}
pub fn st<S: Into<String>>(s: S) -> Sx {
    Sx::Str(s.into())
}
pub fn list(xs: Vec<Sx>) -> Sx {
    Sx::List(xs)
}
pub fn num<N: std::fmt::Display>(n: N) -> Sx {
    Sx::Atom(n.to_string())
}
pub fn boolean(b: bool) -> Sx {
    Sx::Atom(if b { "true" } else { "false" }.to_owned())
}
pub fn tagged(tag: &str, mut xs: Vec<Sx>) -> Sx {
    let mut v = vec![atom(tag)];
    v.append(&mut xs);
    Sx::List(v)
}

pub fn quote(s: &str, out: &mut String) {
    out.push('"');
    for c in s.chars() {
        match c {
            '"' => out.push_str("\\\""),
            '\\' => out.push_str("\\\\"),
            '\n' => out.push_str("\\n"),
            '\t' => out.push_str("\\t"),
            '\r' => out.push_str("\\r"),
            // anything a line-oriented reader (Python's `splitlines`) could take for a line break, and other
            // control characters, travel as `\u{HEX}` (read back by lean/Selene/Sexp.lean)
            c if (c as u32) < 0x20 || c == '\u{7f}' || c == '\u{85}' || c == '\u{2028}' || c == '\u{2029}' => {
                out.push_str(&format!("\\u{{{:x}}}", c as u32))
            }
            c => out.push(c),
        }
    }
    out.push('"');
}

impl Sx {
    pub fn write(&self, out: &mut String) {
        match self {
            Sx::Atom(s) => out.push_str(s),
            Sx::Str(s) => quote(s, out),
            Sx::List(xs) => {
                out.push('(');
                for (i, x) in xs.iter().enumerate() {
                    if i > 0 {
                        out.push(' ');
                    }
                    x.write(out);
                }
                out.push(')');
            }
        }
    }
}

impl std::fmt::Display for Sx {
    fn fmt(&self, f: &mut std::fmt::Formatter) -> std::fmt::Result {
        let mut s = String::new();
        self.write(&mut s);
        f.write_str(&s)
    }
}
