//! Correspondence harness: runs the real selene code (working tree of /repo) on generated
//! inputs and prints, per case, the input and the implementation's canonicalised output in the
//! exchange format the Lean model driver reads.
//!
//! usage: verif-harness <group> --seed S --n N --out DIR [--tier quick|thorough]
mod libgen;
mod luagen;
mod scope;
mod twin;
mod rng;
mod sx;

mod astdump;
mod c04a;
mod c04b;
mod c05;
mod c06;
mod c07;
mod c08;
mod c11;
mod c12;
mod c15;
mod c16;
mod c17;
mod stdprog;
mod roblox;
mod clone;
mod roact;

use std::collections::BTreeMap;
use std::io::Write;

pub struct Out {
    pub cases: std::io::BufWriter<std::fs::File>,
    pub n_cases: usize,
    pub stats: BTreeMap<String, u64>,
    pub samples: Vec<String>,
}

impl Out {
    pub fn case(&mut self, cmd: &str, input: &sx::Sx, imp: &sx::Sx) {
        let line = format!("{cmd}\t{input}\t{imp}");
        if self.samples.len() < 3 || (self.n_cases % 97 == 0 && self.samples.len() < 8) {
            let mut s = line.clone();
            if s.len() > 600 {
                let cut = s.char_indices().map(|(i, _)| i).take_while(|i| *i <= 600).last().unwrap_or(0);
                s.truncate(cut);
                s.push_str("…");
            }
            self.samples.push(s);
        }
        writeln!(self.cases, "{line}").unwrap();
        self.n_cases += 1;
    }
    pub fn bump(&mut self, key: &str) {
        *self.stats.entry(key.to_owned()).or_insert(0) += 1;
    }
    pub fn add(&mut self, key: &str, n: u64) {
        *self.stats.entry(key.to_owned()).or_insert(0) += n;
    }
}

pub struct Args {
    pub seed: u64,
    pub n: usize,
    pub tier: String,
    pub out: String,
    pub rest: Vec<String>,
}

fn main() {
    let argv: Vec<String> = std::env::args().collect();
    if argv.len() < 2 {
        eprintln!("usage: verif-harness <group> --seed S --n N --out DIR");
        std::process::exit(2);
    }
    let group = argv[1].clone();
    let mut args = Args { seed: 1, n: 100, tier: "quick".into(), out: ".".into(), rest: vec![] };
    let mut i = 2;
    while i < argv.len() {
        match argv[i].as_str() {
            "--seed" => {
                args.seed = argv[i + 1].parse().unwrap();
                i += 2
            }
            "--n" => {
                args.n = argv[i + 1].parse().unwrap();
                i += 2
            }
            "--tier" => {
                args.tier = argv[i + 1].clone();
                i += 2
            }
            "--out" => {
                args.out = argv[i + 1].clone();
                i += 2
            }
            other => {
                args.rest.push(other.to_owned());
                i += 1
            }
        }
    }
    std::fs::create_dir_all(&args.out).unwrap();
    let file = std::fs::File::create(format!("{}/cases.tsv", args.out)).unwrap();
    let mut out = Out {
        cases: std::io::BufWriter::new(file),
        n_cases: 0,
        stats: BTreeMap::new(),
        samples: vec![],
    };
    // panics inside the code under test are caught per case; silence the default hook's noise
    std::panic::set_hook(Box::new(|i| { if std::env::var("VERIF_PANIC_TRACE").is_ok() { eprintln!("{i}"); } }));
    match group.as_str() {
        "c04a" => c04a::run(&args, &mut out),
        "c04b" => c04b::run(&args, &mut out),
        "c05" => c05::run(&args, &mut out),
        "c06" => c06::run(&args, &mut out),
        "c07" => c07::run(&args, &mut out),
        "c08" => c08::run(&args, &mut out),
        "c10" => c08::run_c10(&args, &mut out),
        "scope" => scope::run(&args, &mut out),
        "c11" => c11::run(&args, &mut out),
        "c12" => c12::run(&args, &mut out),
        "c13" => twin::run(&args, &mut out, "c13"),
        "c13r" => twin::run(&args, &mut out, "c13r"),
        "c14" => twin::run(&args, &mut out, "c14"),
        "c14r" => twin::run(&args, &mut out, "c14r"),
        "c14p" => twin::run(&args, &mut out, "c14p"),
        "c15" => c15::run(&args, &mut out),
        "c16" => c16::run(&args, &mut out),
        "c17" => c17::run(&args, &mut out),
        "stdprog" => stdprog::run(&args, &mut out),
        "roblox" => roblox::run(&args, &mut out),
        "clone" => clone::run(&args, &mut out),
        "roact" => roact::run(&args, &mut out),
        other => {
            eprintln!("unknown group {other}");
            std::process::exit(2);
        }
    }
    out.cases.flush().unwrap();
    let meta = serde_json::json!({
        "group": group,
        "seed": args.seed,
        "cases": out.n_cases,
        "stats": out.stats,
        "samples": out.samples,
    });
    std::fs::write(format!("{}/meta.json", args.out), serde_json::to_string_pretty(&meta).unwrap()).unwrap();
}
