//! AST exchange format: the real full_moon tree of a program printed as one S-expression that
//! lean/Selene/Lua/Read.lean reads back.  Tokens are numbered in source order; every node carries
//! the indices of its first and last token.  Anything outside the modelled Lua 5.1 subset sets
//! `unsupported` (counted by the caller, never silently dropped).
use crate::sx::*;
use full_moon::ast::{self, punctuated::Punctuated};
use full_moon::node::Node;
use full_moon::tokenizer::{TokenReference, TokenType};
use std::collections::HashMap;

pub struct Dumper {
    pub by_start: HashMap<usize, usize>,
    pub by_end: HashMap<usize, usize>,
    pub tokens: Vec<(usize, usize, usize, usize, String)>, // start, end, start line, end line, text
    pub unsupported: bool,
}

impl Dumper {
    pub fn new(ast: &ast::Ast) -> Dumper {
        let mut toks: Vec<&TokenReference> = ast.nodes().tokens().collect();
        toks.push(ast.eof());
        let mut tokens: Vec<(usize, usize, usize, usize, String)> = toks
            .iter()
            .map(|t| {
                (
                    t.token().start_position().bytes(),
                    t.token().end_position().bytes(),
                    t.token().start_position().line(),
                    t.token().end_position().line(),
                    t.token().to_string(),
                )
            })
            .collect();
        tokens.sort();
        tokens.dedup();
        let mut by_start = HashMap::new();
        let mut by_end = HashMap::new();
        for (i, t) in tokens.iter().enumerate() {
            // a zero-width token (EOF) must not shadow the real token that ends / starts at the same byte
            if t.0 == t.1 {
                by_start.entry(t.0).or_insert(i);
                by_end.entry(t.1).or_insert(i);
            } else {
                by_start.insert(t.0, i);
                by_end.insert(t.1, i);
            }
        }
        Dumper { by_start, by_end, tokens, unsupported: false }
    }

    pub fn idx_of_start(&self, byte: usize) -> Option<usize> {
        self.by_start.get(&byte).copied()
    }

    fn tok(&mut self, t: &TokenReference) -> Sx {
        let s = t.token().start_position().bytes();
        match self.by_start.get(&s) {
            Some(i) => list(vec![num(*i), st(t.token().to_string())]),
            None => {
                self.unsupported = true;
                list(vec![num(0), st("")])
            }
        }
    }

    fn span<N: Node>(&mut self, n: &N) -> (Sx, Sx) {
        match n.range() {
            Some((a, b)) => match (self.by_start.get(&a.bytes()), self.by_end.get(&b.bytes())) {
                (Some(x), Some(y)) => (num(*x), num(*y)),
                _ => {
                    self.unsupported = true;
                    (num(0), num(0))
                }
            },
            None => {
                self.unsupported = true;
                (num(0), num(0))
            }
        }
    }

    fn node(&mut self, tag: &str, n: &impl Node, mut rest: Vec<Sx>) -> Sx {
        let (a, b) = self.span(n);
        let mut v = vec![atom(tag), a, b];
        v.append(&mut rest);
        list(v)
    }

    fn exprs(&mut self, es: &Punctuated<ast::Expression>) -> Vec<Sx> {
        es.iter().map(|e| self.expr(e)).collect()
    }

    pub fn expr(&mut self, e: &ast::Expression) -> Sx {
        match e {
            ast::Expression::BinaryOperator { lhs, binop, rhs } => {
                let l = self.expr(lhs);
                let o = self.tok(binop.token());
                let r = self.expr(rhs);
                self.node("bin", e, vec![l, o, r])
            }
            ast::Expression::Parentheses { expression, .. } => {
                let i = self.expr(expression);
                self.node("paren", e, vec![i])
            }
            ast::Expression::UnaryOperator { unop, expression } => {
                let o = self.tok(unop.token());
                let i = self.expr(expression);
                self.node("un", e, vec![o, i])
            }
            ast::Expression::Function(b) => {
                let kw = self.tok(&b.0);
                let body = self.body(&b.1);
                self.node("func", e, vec![kw, body])
            }
            ast::Expression::FunctionCall(c) => {
                let c = self.fcall(c);
                list(vec![atom("call"), c])
            }
            ast::Expression::TableConstructor(t) => {
                let fs = self.fields(t);
                self.node("tbl", e, fs)
            }
            ast::Expression::Number(t) => {
                let t = self.tok(t);
                list(vec![atom("num"), t])
            }
            ast::Expression::String(t) => {
                let (qk, lit) = match t.token_type() {
                    TokenType::StringLiteral { quote_type, literal, .. } => (format!("{quote_type:?}"), literal.to_string()),
                    _ => ("?".to_owned(), String::new()),
                };
                let t = self.tok(t);
                list(vec![atom("str"), t, atom(qk), st(lit)])
            }
            ast::Expression::Symbol(t) => {
                let name = match t.token().to_string().as_str() {
                    "nil" => "nil",
                    "true" => "true",
                    "false" => "false",
                    "..." => "dots",
                    _ => {
                        self.unsupported = true;
                        "nil"
                    }
                };
                let t = self.tok(t);
                list(vec![atom(name), t])
            }
            ast::Expression::Var(v) => {
                let v = self.var(v);
                list(vec![atom("var"), v])
            }
            _ => {
                self.unsupported = true;
                self.node("unsupported", e, vec![])
            }
        }
    }

    fn fields(&mut self, t: &ast::TableConstructor) -> Vec<Sx> {
        t.fields()
            .iter()
            .map(|f| match f {
                ast::Field::ExpressionKey { key, value, .. } => {
                    let k = self.expr(key);
                    let v = self.expr(value);
                    self.node("fexpr", f, vec![k, v])
                }
                ast::Field::NameKey { key, value, .. } => {
                    let k = self.tok(key);
                    let v = self.expr(value);
                    self.node("fname", f, vec![k, v])
                }
                ast::Field::NoKey(value) => {
                    let v = self.expr(value);
                    list(vec![atom("fval"), v])
                }
                _ => {
                    self.unsupported = true;
                    self.node("unsupported", f, vec![])
                }
            })
            .collect()
    }

    pub fn var(&mut self, v: &ast::Var) -> Sx {
        match v {
            ast::Var::Name(t) => {
                let t = self.tok(t);
                list(vec![atom("vname"), t])
            }
            ast::Var::Expression(ve) => {
                let p = self.prefix(ve.prefix());
                let mut rest = vec![p];
                for s in ve.suffixes() {
                    rest.push(self.suffix(s));
                }
                self.node("vexpr", &**ve, rest)
            }
            _ => {
                self.unsupported = true;
                list(vec![atom("vname"), list(vec![num(0), st("")])])
            }
        }
    }

    fn prefix(&mut self, p: &ast::Prefix) -> Sx {
        match p {
            ast::Prefix::Name(t) => {
                let t = self.tok(t);
                list(vec![atom("pname"), t])
            }
            ast::Prefix::Expression(e) => {
                let e = self.expr(e);
                list(vec![atom("pexpr"), e])
            }
            _ => {
                self.unsupported = true;
                list(vec![atom("pname"), list(vec![num(0), st("")])])
            }
        }
    }

    fn args(&mut self, a: &ast::FunctionArgs) -> Sx {
        match a {
            ast::FunctionArgs::Parentheses { arguments, .. } => {
                let es = self.exprs(arguments);
                self.node("parens", a, es)
            }
            ast::FunctionArgs::String(t) => {
                let (qk, lit) = match t.token_type() {
                    TokenType::StringLiteral { quote_type, literal, .. } => (format!("{quote_type:?}"), literal.to_string()),
                    _ => ("?".to_owned(), String::new()),
                };
                let t = self.tok(t);
                list(vec![atom("sarg"), t, atom(qk), st(lit)])
            }
            ast::FunctionArgs::TableConstructor(t) => {
                let fs = self.fields(t);
                self.node("targ", a, fs)
            }
            _ => {
                self.unsupported = true;
                self.node("parens", a, vec![])
            }
        }
    }

    fn suffix(&mut self, s: &ast::Suffix) -> Sx {
        match s {
            ast::Suffix::Index(ast::Index::Dot { name, .. }) => {
                let t = self.tok(name);
                self.node("dot", s, vec![t])
            }
            ast::Suffix::Index(ast::Index::Brackets { expression, .. }) => {
                let e = self.expr(expression);
                self.node("idx", s, vec![e])
            }
            ast::Suffix::Call(ast::Call::AnonymousCall(a)) => {
                let a = self.args(a);
                self.node("args", s, vec![a])
            }
            ast::Suffix::Call(ast::Call::MethodCall(m)) => {
                let t = self.tok(m.name());
                let a = self.args(m.args());
                self.node("meth", s, vec![t, a])
            }
            _ => {
                self.unsupported = true;
                self.node("unsupported", s, vec![])
            }
        }
    }

    pub fn fcall(&mut self, c: &ast::FunctionCall) -> Sx {
        let p = self.prefix(c.prefix());
        let mut rest = vec![p];
        for s in c.suffixes() {
            rest.push(self.suffix(s));
        }
        self.node("fcall", c, rest)
    }

    fn body(&mut self, b: &ast::FunctionBody) -> Sx {
        let params: Vec<Sx> = b
            .parameters()
            .iter()
            .map(|p| match p {
                ast::Parameter::Name(t) => {
                    let t = self.tok(t);
                    list(vec![atom("pn"), t])
                }
                ast::Parameter::Ellipsis(t) => {
                    let t = self.tok(t);
                    list(vec![atom("pd"), t])
                }
                _ => {
                    self.unsupported = true;
                    list(vec![atom("pn"), list(vec![num(0), st("")])])
                }
            })
            .collect();
        #[allow(unused_mut)]
        let mut typed = false;
        if b.return_type().is_some() || b.type_specifiers().any(|t| t.is_some()) || b.generics().is_some() {
            typed = true;
        }
        if typed {
            self.unsupported = true;
        }
        let blk = self.block(b.block());
        self.node("body", b, vec![list(params), blk])
    }

    pub fn block(&mut self, b: &ast::Block) -> Sx {
        let span = match b.range() {
            Some(_) => {
                let (x, y) = self.span(b);
                list(vec![x, y])
            }
            None => atom("none"),
        };
        let stmts: Vec<Sx> = b.stmts().map(|s| self.stmt(s)).collect();
        let last = match b.last_stmt() {
            None => atom("none"),
            Some(ast::LastStmt::Return(r)) => {
                let es = self.exprs(r.returns());
                self.node("ret", r, es)
            }
            Some(ast::LastStmt::Break(t)) => {
                let t = self.tok(t);
                list(vec![atom("break"), t])
            }
            Some(_) => {
                self.unsupported = true;
                atom("none")
            }
        };
        list(vec![atom("block"), span, list(stmts), last])
    }

    fn stmt(&mut self, s: &ast::Stmt) -> Sx {
        match s {
            ast::Stmt::Assignment(a) => {
                let vars: Vec<Sx> = a.variables().iter().map(|v| self.var(v)).collect();
                let es = self.exprs(a.expressions());
                self.node("assign", a, vec![list(vars), list(es)])
            }
            ast::Stmt::LocalAssignment(l) => {
                let names: Vec<Sx> = l.names().iter().map(|t| self.tok(t)).collect();
                let es = self.exprs(l.expressions());
                if l.attributes().any(|a| a.is_some()) || l.type_specifiers().any(|t| t.is_some()) {
                    self.unsupported = true;
                }
                self.node("local", l, vec![list(names), list(es)])
            }
            ast::Stmt::FunctionCall(c) => {
                let c = self.fcall(c);
                list(vec![atom("scall"), c])
            }
            ast::Stmt::Do(d) => {
                let b = self.block(d.block());
                self.node("do", d, vec![b])
            }
            ast::Stmt::While(w) => {
                let c = self.expr(w.condition());
                let b = self.block(w.block());
                self.node("while", w, vec![c, b])
            }
            ast::Stmt::Repeat(r) => {
                let b = self.block(r.block());
                let c = self.expr(r.until());
                self.node("repeat", r, vec![b, c])
            }
            ast::Stmt::If(i) => {
                let c = self.expr(i.condition());
                let b = self.block(i.block());
                let elifs: Vec<Sx> = i
                    .else_if()
                    .map(|v| {
                        v.iter()
                            .map(|ei| {
                                let c = self.expr(ei.condition());
                                let b = self.block(ei.block());
                                self.node("elif", ei, vec![c, b])
                            })
                            .collect()
                    })
                    .unwrap_or_default();
                let els = match i.else_block() {
                    Some(b) => self.block(b),
                    None => atom("none"),
                };
                self.node("if", i, vec![c, b, list(elifs), els])
            }
            ast::Stmt::NumericFor(n) => {
                let v = self.tok(n.index_variable());
                let comma = self.tok(n.start_end_comma());
                let a = self.expr(n.start());
                let e = self.expr(n.end());
                let st_ = match n.step() {
                    Some(s) => self.expr(s),
                    None => atom("none"),
                };
                if n.type_specifier().is_some() {
                    self.unsupported = true;
                }
                let b = self.block(n.block());
                self.node("nfor", n, vec![v, comma, a, e, st_, b])
            }
            ast::Stmt::GenericFor(g) => {
                let names: Vec<Sx> = g.names().iter().map(|t| self.tok(t)).collect();
                let es = self.exprs(g.expressions());
                if g.type_specifiers().any(|t| t.is_some()) {
                    self.unsupported = true;
                }
                let b = self.block(g.block());
                self.node("gfor", g, vec![list(names), list(es), b])
            }
            ast::Stmt::FunctionDeclaration(f) => {
                let names: Vec<Sx> = f.name().names().iter().map(|t| self.tok(t)).collect();
                let m = match f.name().method_name() {
                    Some(t) => self.tok(t),
                    None => atom("none"),
                };
                let (na, nb) = self.span(f.name());
                let body = self.body(f.body());
                self.node("func", f, vec![list(vec![atom("fname"), na, nb, list(names), m]), body])
            }
            ast::Stmt::LocalFunction(f) => {
                let t = self.tok(f.name());
                let body = self.body(f.body());
                self.node("lfunc", f, vec![t, body])
            }
            _ => {
                self.unsupported = true;
                self.node("unsupported", s, vec![])
            }
        }
    }

    pub fn layout_sx(&self) -> Sx {
        list(
            self.tokens
                .iter()
                .map(|(s, e, l1, l2, _)| list(vec![num(*s), num(*e), num(*l1), num(*l2)]))
                .collect(),
        )
    }
}

/// `(chunk <block> <layout>)`, plus whether the tree is inside the modelled subset
pub fn dump(ast: &ast::Ast) -> (Sx, bool, Dumper) {
    let mut d = Dumper::new(ast);
    let b = d.block(ast.nodes());
    let l = d.layout_sx();
    let ok = !d.unsupported;
    (list(vec![atom("chunk"), b, l]), ok, d)
}
