//! C13 / C14 (and part of C11 / C12): relational runs — a program and a twin that differs only in
//! trivia (C13) or in the spelling of script-introduced names (C14); diagnostics are compared in
//! token space, so the induced shift of positions is factored out.
use crate::astdump::{self, Dumper};
use crate::rng::Rng;
use crate::scope::programs;
use crate::sx::*;
use crate::{Args, Out};
use selene_lib::standard_library::StandardLibrary;
use selene_lib::{Checker, CheckerConfig, CheckerDiagnostic};
use std::collections::{HashMap, HashSet};

fn norm_ws(s: &str) -> String {
    s.split_whitespace().collect::<Vec<_>>().join("")
}

/// one diagnostic in token space: code, primary span, message, secondary spans (+ messages), notes modulo whitespace
pub fn canon(d: &CheckerDiagnostic, dump: &Dumper, rename_back: &dyn Fn(&str) -> String) -> String {
    let span = |r: (u32, u32)| -> String {
        match (dump.by_start.get(&(r.0 as usize)), dump.by_end.get(&(r.1 as usize))) {
            (Some(a), Some(b)) => format!("{a}-{b}"),
            _ => {
                // inside a token (bad_string_escape) or at a trivia boundary: token containing the start + offset inside it
                let mut best = None;
                for (i, t) in dump.tokens.iter().enumerate() {
                    if t.0 <= r.0 as usize && (r.0 as usize) < t.1.max(t.0 + 1) {
                        best = Some((i, r.0 as usize - t.0, r.1 as usize - t.0));
                    }
                }
                match best {
                    Some((i, a, b)) => format!("in{i}+{a}..{b}"),
                    None => format!("byte{}..{}", r.0, r.1),
                }
            }
        }
    };
    let mut sec: Vec<String> = d
        .diagnostic
        .secondary_labels
        .iter()
        .map(|l| format!("{}:{}", span(l.range), rename_back(l.message.as_deref().unwrap_or(""))))
        .collect();
    sec.sort();
    let notes: Vec<String> = d.diagnostic.notes.iter().map(|n| norm_ws(&rename_back(n))).collect();
    format!(
        "{}|{}|{:?}|{}|[{}]|[{}]",
        d.diagnostic.code,
        span(d.diagnostic.primary_label.range),
        d.severity,
        rename_back(&d.diagnostic.message),
        sec.join(";"),
        notes.join(";")
    )
}

pub fn run_checker(checker: &Checker<toml::value::Value>, src: &str) -> Option<(Vec<String>, String, Dumper)> {
    let ast = full_moon::parse(src).ok()?;
    let (chunk, _supported, d) = astdump::dump(&ast);
    let diags = std::panic::catch_unwind(std::panic::AssertUnwindSafe(|| checker.test_on(&ast))).ok()?;
    let id = |s: &str| s.to_owned();
    let mut v: Vec<String> = diags.iter().map(|x| canon(x, &d, &id)).collect();
    v.sort();
    // the tree without the layout element: `(chunk <block> <layout>)`
    let tree = match &chunk {
        Sx::List(xs) if xs.len() == 3 => xs[1].to_string(),
        other => other.to_string(),
    };
    Some((v, tree, d))
}

/// rebuild a source text from its tokens, with new inter-token gaps / token texts
fn rebuild(src: &str, d: &Dumper, gap: &mut dyn FnMut(usize, &str) -> String, text: &mut dyn FnMut(usize, &str) -> String) -> String {
    let mut out = String::new();
    let mut pos = 0usize;
    for (i, t) in d.tokens.iter().enumerate() {
        let g = &src[pos..t.0];
        out.push_str(&gap(i, g));
        out.push_str(&text(i, &src[t.0..t.1]));
        pos = t.1;
    }
    out.push_str(&src[pos..]);
    out
}

pub fn trivia_twin(src: &str, d: &Dumper, r: &mut Rng, stats: &mut Out) -> String {
    let rate = 1 + r.below(6);
    let mut id = |_: usize, s: &str| s.to_owned();
    let mut gapf = |i: usize, g: &str| -> String {
        if i == 0 {
            // before the first token: only blank lines / an ordinary comment line
            return if r.chance(1, 4) { format!("-- header comment\n\n{g}") } else { g.to_owned() };
        }
        if !r.chance(rate, 12) {
            return g.to_owned();
        }
        match r.below(6) {
            0 | 1 => {
                stats.bump("rewrite_space_before");
                format!("{g} ")
            }
            2 => {
                stats.bump("rewrite_space_after_prev");
                format!(" {g}")
            }
            3 => {
                stats.bump("rewrite_block_comment");
                format!("{g}--[[ c ]] ")
            }
            4 => {
                if g.contains('\n') && !g.contains("--") {
                    stats.bump("rewrite_blank_line");
                    g.replacen('\n', "\n\n", 1)
                } else {
                    stats.bump("rewrite_tab");
                    format!("{g}\t")
                }
            }
            _ => {
                if g.contains('\n') && !g.contains("--") {
                    stats.bump("rewrite_reindent");
                    format!("{g}    ")
                } else {
                    stats.bump("rewrite_space_before");
                    format!("{g}  ")
                }
            }
        }
    };
    rebuild(src, d, &mut gapf, &mut id)
}

/// token indices in variable positions (declarations, name expressions / prefixes, the root of a function name)
fn variable_tokens(sx: &Sx, acc: &mut Vec<usize>) {
    fn tok_idx(t: &Sx) -> Option<usize> {
        if let Sx::List(v) = t {
            if let Some(Sx::Atom(a)) = v.first() {
                return a.parse().ok();
            }
        }
        None
    }
    if let Sx::List(v) = sx {
        if let Some(Sx::Atom(tag)) = v.first() {
            match tag.as_str() {
                "vname" | "pname" | "pn" => {
                    if let Some(i) = v.get(1).and_then(tok_idx) {
                        acc.push(i);
                    }
                }
                "local" | "gfor" => {
                    if let Some(Sx::List(names)) = v.get(3) {
                        for n in names {
                            if let Some(i) = tok_idx(n) {
                                acc.push(i);
                            }
                        }
                    }
                }
                "nfor" | "lfunc" => {
                    if let Some(i) = v.get(3).and_then(tok_idx) {
                        acc.push(i);
                    }
                }
                "fname" => {
                    if let Some(Sx::List(names)) = v.get(3) {
                        if let Some(i) = names.first().and_then(tok_idx) {
                            acc.push(i);
                        }
                    }
                }
                _ => {}
            }
        }
        for x in v {
            variable_tokens(x, acc);
        }
    }
}

const SPECIAL: &[&str] = &["self", "_G", "shared", "type", "typeof", "Roact", "React", "game", "script", "workspace", "_", "_ENV", "arg"];

/// an injective renaming of script-introduced names; returns (twin source, new→old map)
pub fn rename_twin(src: &str, ast: &full_moon::ast::Ast, d: &Dumper, chunk: &Sx, std: &StandardLibrary, r: &mut Rng, stats: &mut Out) -> Option<(String, HashMap<String, String>)> {
    let mut var_toks = Vec::new();
    variable_tokens(chunk, &mut var_toks);
    let var_set: HashSet<usize> = var_toks.iter().copied().collect();
    // names: spelling -> is every variable occurrence script-bound?
    let ctx = selene_lib::lints::AstContext::from_ast(ast);
    let sm = &ctx.scope_manager;
    let mut script_bound: HashMap<String, bool> = HashMap::new();
    for i in &var_toks {
        let t = &d.tokens[*i];
        script_bound.entry(t.4.clone()).or_insert(true);
    }
    // an occurrence that is a reference and unresolved (or resolved to a hoisted global) makes the name "not introduced by the script" when it is a library root
    for (_, reference) in sm.references.iter() {
        let unresolved = match reference.resolved {
            None => true,
            Some(v) => sm.variables[v].is_global,
        };
        if unresolved && std.global_has_fields(&reference.name) {
            script_bound.insert(reference.name.clone(), false);
        }
    }
    // everything spelled anywhere in the file (string literals, field names, comments are avoided by the fresh prefix)
    let all_text: HashSet<String> = d.tokens.iter().map(|t| t.4.clone()).collect();
    let mut candidates: Vec<String> = script_bound
        .iter()
        .filter(|(n, ok)| **ok && !SPECIAL.contains(&n.as_str()) && *n != "..." && !n.is_empty())
        .map(|(n, _)| n.clone())
        .collect();
    candidates.sort();
    if candidates.is_empty() {
        return None;
    }
    let mut map: HashMap<String, String> = HashMap::new();
    let mut back: HashMap<String, String> = HashMap::new();
    let mut k = 0;
    for n in candidates {
        if !r.chance(2, 3) {
            continue;
        }
        k += 1;
        let long = r.chance(1, 4);
        let base = if long {
            stats.bump("rename_to_long_name");
            format!("zq{}_a_very_long_fresh_identifier_name_beyond_32", k)
        } else {
            format!("zq{}v", k)
        };
        let fresh = if n.starts_with('_') { format!("_{base}") } else { base };
        if all_text.contains(&fresh) || src.contains(&fresh) || std.global_has_fields(&fresh) {
            continue;
        }
        if std.global_has_fields(&n) {
            stats.bump("renamed_name_is_library_root_but_script_bound");
        }
        back.insert(fresh.clone(), n.clone());
        map.insert(n, fresh);
    }
    if map.is_empty() {
        return None;
    }
    stats.add("renamed_names", map.len() as u64);
    let mut id = |_: usize, g: &str| g.to_owned();
    let mut textf = |i: usize, t: &str| -> String {
        if var_set.contains(&i) {
            if let Some(f) = map.get(t) {
                return f.clone();
            }
        }
        t.to_owned()
    };
    Some((rebuild(src, d, &mut id, &mut textf), back))
}

pub fn run(args: &Args, out: &mut Out, kind: &str) {
    let mut rng = Rng::new(args.seed ^ 0x7717);
    let std51 = StandardLibrary::from_name("lua51").unwrap();
    let checker: Checker<toml::value::Value> = Checker::new(CheckerConfig::default(), std51.clone()).unwrap();
    let corpus = format!("/verif/corpus/{kind}");
    for (origin, src) in programs(args, out, &mut rng, &corpus) {
        if src.contains("selene:") {
            out.bump("skipped_has_filter_comments");
            continue;
        }
        let ast = match full_moon::parse(&src) {
            Ok(a) => a,
            Err(_) => continue,
        };
        let (chunk, _supported, d) = astdump::dump(&ast);
        let base = match run_checker(&checker, &src) {
            Some(b) => b,
            None => {
                out.bump("base_run_panicked");
                continue;
            }
        };
        let reps = if kind == "c13" { 2 } else { 1 };
        for _ in 0..reps {
            let (twin_src, back) = if kind == "c13" {
                (trivia_twin(&src, &d, &mut rng, out), HashMap::new())
            } else {
                match rename_twin(&src, &ast, &d, &chunk, &std51, &mut rng, out) {
                    Some(x) => x,
                    None => {
                        out.bump("nothing_to_rename");
                        continue;
                    }
                }
            };
            if twin_src == src {
                out.bump("twin_identical");
                continue;
            }
            let twin_ast = match full_moon::parse(&twin_src) {
                Ok(a) => a,
                Err(_) => {
                    out.bump("twin_does_not_parse");
                    continue;
                }
            };
            let (_c2, _s2, d2) = astdump::dump(&twin_ast);
            let diags2 = match std::panic::catch_unwind(std::panic::AssertUnwindSafe(|| checker.test_on(&twin_ast))) {
                Ok(x) => x,
                Err(_) => {
                    out.case(&format!("REL.{kind}"), &list(vec![st(&origin), st(&src), st(&twin_src)]), &atom("twin-panicked"));
                    continue;
                }
            };
            let rename_back = |s: &str| -> String {
                let mut t = s.to_owned();
                let mut keys: Vec<&String> = back.keys().collect();
                keys.sort_by_key(|k| std::cmp::Reverse(k.len()));
                for k in keys {
                    t = t.replace(k.as_str(), &back[k]);
                }
                t
            };
            let mut v2: Vec<String> = diags2.iter().map(|x| canon(x, &d2, &rename_back)).collect();
            v2.sort();
            let same_tokens = d.tokens.len() == d2.tokens.len();
            if !base.0.is_empty() {
                out.bump("twin_pairs_with_diagnostics");
            }
            out.case(
                &format!("REL.{kind}"),
                &list(vec![st(&origin), st(&src), st(&twin_src)]),
                &list(vec![boolean(same_tokens), list(base.0.iter().map(st).collect()), list(v2.iter().map(st).collect())]),
            );
        }
    }
}
