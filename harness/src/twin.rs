//! C13 / C14 (and part of C11 / C12): relational runs — a program and a twin that differs only in
//! trivia (C13) or in the spelling of script-introduced names (C14); diagnostics are compared in
//! token space, so the induced shift of positions is factored out.
use crate::astdump::{self, Dumper};
use crate::rng::Rng;
use crate::scope::programs;
use crate::sx::*;
use crate::{Args, Out};
use selene_lib::standard_library::StandardLibrary;
use selene_lib::{Checker, CheckerConfig, CheckerDiagnostic};
use std::collections::{HashMap, HashSet};

fn norm_ws(s: &str) -> String {
    s.split_whitespace().collect::<Vec<_>>().join("")
}

/// one diagnostic in token space: code, primary span, message, secondary spans (+ messages), notes modulo whitespace
pub fn canon(d: &CheckerDiagnostic, dump: &Dumper, rename_back: &dyn Fn(&str) -> String) -> String {
    // a position: on a token boundary, inside a token (offset kept), or somewhere in the trivia after a token
    let pos = |b: usize, is_end: bool| -> String {
        if is_end {
            if let Some(i) = dump.by_end.get(&b) {
                return format!("e{i}");
            }
        } else if let Some(i) = dump.by_start.get(&b) {
            return format!("s{i}");
        }
        let mut last_before = None;
        for (i, t) in dump.tokens.iter().enumerate() {
            if t.0 < b && b < t.1 {
                return format!("in{i}+{}", b - t.0);
            }
            if t.1 <= b {
                last_before = Some(i);
            }
        }
        match last_before {
            Some(i) => format!("trivia-after{i}"),
            None => "trivia-before0".to_owned(),
        }
    };
    let span = |r: (u32, u32)| -> String { format!("{}..{}", pos(r.0 as usize, false), pos(r.1 as usize, true)) };
    let mut sec: Vec<String> = d
        .diagnostic
        .secondary_labels
        .iter()
        .map(|l| format!("{}:{}", span(l.range), rename_back(l.message.as_deref().unwrap_or(""))))
        .collect();
    sec.sort();
    let notes: Vec<String> = d.diagnostic.notes.iter().map(|n| norm_ws(&rename_back(n))).collect();
    format!(
        "{}|{}|{:?}|{}|[{}]|[{}]",
        d.diagnostic.code,
        span(d.diagnostic.primary_label.range),
        d.severity,
        rename_back(&d.diagnostic.message),
        sec.join(";"),
        notes.join(";")
    )
}

pub fn run_checker(checker: &Checker<toml::value::Value>, src: &str) -> Option<(Vec<String>, String, Dumper)> {
    let ast = full_moon::parse(src).ok()?;
    let (chunk, _supported, d) = astdump::dump(&ast);
    let diags = std::panic::catch_unwind(std::panic::AssertUnwindSafe(|| checker.test_on(&ast))).ok()?;
    let id = |s: &str| s.to_owned();
    let mut v: Vec<String> = diags.iter().map(|x| canon(x, &d, &id)).collect();
    v.sort();
    // the tree without the layout element: `(chunk <block> <layout>)`
    let tree = match &chunk {
        Sx::List(xs) if xs.len() == 3 => xs[1].to_string(),
        other => other.to_string(),
    };
    Some((v, tree, d))
}

/// rebuild a source text from its tokens, with new inter-token gaps / token texts
fn rebuild(src: &str, d: &Dumper, gap: &mut dyn FnMut(usize, &str) -> String, text: &mut dyn FnMut(usize, &str) -> String) -> String {
    let mut out = String::new();
    let mut pos = 0usize;
    for (i, t) in d.tokens.iter().enumerate() {
        let g = &src[pos..t.0];
        out.push_str(&gap(i, g));
        out.push_str(&text(i, &src[t.0..t.1]));
        pos = t.1;
    }
    out.push_str(&src[pos..]);
    out
}

pub fn trivia_twin(src: &str, d: &Dumper, r: &mut Rng, stats: &mut Out) -> String {
    let rate = 1 + r.below(6);
    let mut id = |_: usize, s: &str| s.to_owned();
    let mut gapf = |i: usize, g: &str| -> String {
        if i == 0 {
            // before the first token: only blank lines / an ordinary comment line
            return if r.chance(1, 4) { format!("-- header comment\n\n{g}") } else { g.to_owned() };
        }
        if !r.chance(rate, 12) {
            return g.to_owned();
        }
        match r.below(6) {
            0 | 1 => {
                stats.bump("rewrite_space_before");
                format!("{g} ")
            }
            2 => {
                stats.bump("rewrite_space_after_prev");
                format!(" {g}")
            }
            3 => {
                stats.bump("rewrite_block_comment");
                format!("{g}--[[ c ]] ")
            }
            4 => {
                if g.contains('\n') && !g.contains("--") && r.chance(1, 2) {
                    // an ordinary comment on a line of its own
                    stats.bump("rewrite_comment_line");
                    // … one time in three a comment that merely looks like a filter (an extra dash: an ordinary comment)
                    let text = match r.below(6) {
                        0 => format!("--- selene: allow({})", r.pick(&["unused_variable", "undefined_variable", "manual_table_clone", "divide_by_zero", "shadowing", "empty_if"])),
                        1 => "---- selene: deny(unused_variable)".to_owned(),
                        _ => "-- note".to_owned(),
                    };
                    g.replacen('\n', &format!("\n{text}\n"), 1)
                } else if g.contains('\n') && !g.contains("--") {
                    stats.bump("rewrite_blank_line");
                    g.replacen('\n', "\n\n", 1)
                } else {
                    stats.bump("rewrite_tab");
                    format!("{g}\t")
                }
            }
            _ => {
                if g.contains('\n') && !g.contains("--") {
                    stats.bump("rewrite_reindent");
                    format!("{g}    ")
                } else {
                    stats.bump("rewrite_space_before");
                    format!("{g}  ")
                }
            }
        }
    };
    rebuild(src, d, &mut gapf, &mut id)
}

/// a twin that *removes* blanks: gaps made of spaces / tabs only (no line break, no comment) are closed where the two
/// neighbouring characters cannot merge into another token (`f (x)` → `f(x)`, `g() h()` → `g()h()`, `t = {} u()` →
/// `t = {}u()`); a result that does not tokenise to the same sequence is discarded by the caller
pub fn squeeze_twin(src: &str, d: &Dumper, r: &mut Rng, stats: &mut Out) -> String {
    let rate = 4 + r.below(9);
    let toks: Vec<(usize, usize)> = d.tokens.iter().map(|t| (t.0, t.1)).collect();
    let mut id = |_: usize, s: &str| s.to_owned();
    let is_word = |c: char| c.is_alphanumeric() || c == '_';
    let mut gapf = |i: usize, g: &str| -> String {
        if i == 0 || g.is_empty() || !g.chars().all(|c| c == ' ' || c == '\t') || !r.chance(rate, 12) {
            return g.to_owned();
        }
        let prev = src[..toks[i - 1].1].chars().last().unwrap_or(' ');
        let next = src[toks[i].0..].chars().next().unwrap_or(' ');
        let closer = |c: char| matches!(c, ')' | ']' | '}' | '"' | '\'');
        let opener = |c: char| matches!(c, '(' | '{' | '"' | '\'');
        let safe = (closer(prev) && (is_word(next) || opener(next) || closer(next) || next == ',' || next == ';'))
            || (is_word(prev) && (opener(next) || closer(next) || next == ',' || next == ';'))
            || ((prev == ',' || prev == ';' || prev == '(' || prev == '{') && (is_word(next) || opener(next) || next == '{'))
            || (prev == '=' && (opener(next) || is_word(next)))
            || (is_word(prev) && next == '=' );
        if safe {
            stats.bump("squeeze_gap_closed");
            String::new()
        } else {
            g.to_owned()
        }
    };
    rebuild(src, d, &mut gapf, &mut id)
}

/// a twin that removes the indentation of lines (gaps that contain a line break and no comment keep their line breaks only),
/// or — `indent` — gives every such line a fixed deep indentation
pub fn reindent_twin(src: &str, d: &Dumper, indent: bool, stats: &mut Out) -> String {
    let mut id = |_: usize, s: &str| s.to_owned();
    let mut gapf = |i: usize, g: &str| -> String {
        if i == 0 || !g.contains('\n') || g.contains("--") {
            return g.to_owned();
        }
        stats.bump(if indent { "reindent_line_indented" } else { "reindent_line_dedented" });
        let cut = g.rfind('\n').unwrap() + 1;
        if indent { format!("{}\t    \t", &g[..cut]) } else { g[..cut].to_owned() }
    };
    rebuild(src, d, &mut gapf, &mut id)
}

/// deterministic twins: an ordinary comment is put between every existing comment and the token that follows it
/// (`same_line`: `… --[[ c ]] token`; otherwise a comment line of its own) — e.g. between a filter comment and its code
pub fn comment_after_comments_twin(src: &str, d: &Dumper, same_line: bool, stats: &mut Out) -> String {
    let mut id = |_: usize, s: &str| s.to_owned();
    let mut gapf = |_: usize, g: &str| -> String {
        if !g.contains("--") {
            return g.to_owned();
        }
        stats.bump("comment_inserted_after_comment");
        if same_line {
            format!("{g}--[[ c ]] ")
        } else if g.ends_with('\n') || g.trim_end_matches([' ', '\t']).ends_with('\n') {
            // keep the indentation that follows the last line break in front of the token
            let cut = g.rfind('\n').map(|i| i + 1).unwrap_or(g.len());
            format!("{}-- c\n{}", &g[..cut], &g[cut..])
        } else {
            format!("{g}--[[ c ]] ")
        }
    };
    rebuild(src, d, &mut gapf, &mut id)
}

/// token indices in variable positions (declarations, name expressions / prefixes, the root of a function name)
fn variable_tokens(sx: &Sx, acc: &mut Vec<usize>) {
    fn tok_idx(t: &Sx) -> Option<usize> {
        if let Sx::List(v) = t {
            if let Some(Sx::Atom(a)) = v.first() {
                return a.parse().ok();
            }
        }
        None
    }
    if let Sx::List(v) = sx {
        if let Some(Sx::Atom(tag)) = v.first() {
            match tag.as_str() {
                "vname" | "pname" | "pn" => {
                    if let Some(i) = v.get(1).and_then(tok_idx) {
                        acc.push(i);
                    }
                }
                "local" | "gfor" => {
                    if let Some(Sx::List(names)) = v.get(3) {
                        for n in names {
                            if let Some(i) = tok_idx(n) {
                                acc.push(i);
                            }
                        }
                    }
                }
                "nfor" | "lfunc" => {
                    if let Some(i) = v.get(3).and_then(tok_idx) {
                        acc.push(i);
                    }
                }
                "fname" => {
                    if let Some(Sx::List(names)) = v.get(3) {
                        if let Some(i) = names.first().and_then(tok_idx) {
                            acc.push(i);
                        }
                    }
                }
                _ => {}
            }
        }
        for x in v {
            variable_tokens(x, acc);
        }
    }
}

/// tokens in field-name position: `{ name = … }`, `.name`, `:name(…)`, and the trailing names of `function a.b.c:m`
fn field_tokens(sx: &Sx, acc: &mut Vec<usize>) {
    fn tok_idx(t: &Sx) -> Option<usize> {
        if let Sx::List(v) = t {
            if let Some(Sx::Atom(a)) = v.first() {
                return a.parse().ok();
            }
        }
        None
    }
    if let Sx::List(v) = sx {
        if let Some(Sx::Atom(tag)) = v.first() {
            match tag.as_str() {
                "dot" | "meth" => {
                    if let Some(i) = v.get(3).and_then(tok_idx) {
                        acc.push(i);
                    }
                }
                "fname" => match v.get(3) {
                    // function name: (fname a b (names…) method)
                    Some(Sx::List(names)) if !matches!(names.first(), Some(Sx::Atom(_))) => {
                        for n in names.iter().skip(1) {
                            if let Some(i) = tok_idx(n) {
                                acc.push(i);
                            }
                        }
                        if let Some(i) = v.get(4).and_then(tok_idx) {
                            acc.push(i);
                        }
                    }
                    // table field: (fname a b (idx "key") value)
                    Some(k) => {
                        if let Some(i) = tok_idx(k) {
                            acc.push(i);
                        }
                    }
                    None => {}
                },
                _ => {}
            }
        }
        for x in v {
            field_tokens(x, acc);
        }
    }
}

fn std_segments(std: &StandardLibrary) -> HashSet<String> {
    let mut s = HashSet::new();
    for k in std.globals.keys() {
        for seg in k.split('.') {
            s.insert(seg.to_owned());
        }
    }
    for st in std.structs.values() {
        for k in st.keys() {
            for seg in k.split('.') {
                s.insert(seg.to_owned());
            }
        }
    }
    // the class table is part of the library too: class names, their properties and events (what
    // roblox_incorrect_roact_usage looks a field name up in)
    for (name, class) in std.roblox_classes.iter() {
        s.insert(name.clone());
        s.insert(class.superclass.clone());
        s.extend(class.properties.iter().cloned());
        s.extend(class.events.iter().cloned());
    }
    s
}

// `pairs` / `ipairs` / `next`: manual_table_clone recognises iteration through these three spellings (Props/C14: C14_clone_shape_invariant)
const SPECIAL: &[&str] = &["self", "_G", "shared", "type", "typeof", "Roact", "React", "game", "script", "workspace", "_", "_ENV", "arg", "pairs", "ipairs", "next",
    // field names that createElement of React treats specially (roblox_incorrect_roact_usage)
    "ref", "key", "children"];

/// an injective renaming of script-introduced names; returns (twin source, new→old map)
pub fn rename_twin(src: &str, ast: &full_moon::ast::Ast, d: &Dumper, chunk: &Sx, std: &StandardLibrary, r: &mut Rng, stats: &mut Out, keep_underscore: bool) -> Option<(String, HashMap<String, String>)> {
    let mut var_toks = Vec::new();
    variable_tokens(chunk, &mut var_toks);
    let var_set: HashSet<usize> = var_toks.iter().copied().collect();
    // names: spelling -> is every variable occurrence script-bound?
    let ctx = selene_lib::lints::AstContext::from_ast(ast);
    let sm = &ctx.scope_manager;
    let mut script_bound: HashMap<String, bool> = HashMap::new();
    for i in &var_toks {
        let t = &d.tokens[*i];
        script_bound.entry(t.4.clone()).or_insert(true);
    }
    // a name some occurrence of which is unresolved (an undefined or library global) or denotes a global the
    // file assigns is not "introduced by the script" in the sense of C14: only purely local spellings are renamed
    for (_, reference) in sm.references.iter() {
        let unresolved = match reference.resolved {
            None => true,
            Some(v) => sm.variables[v].is_global,
        };
        if unresolved {
            script_bound.insert(reference.name.clone(), false);
        }
    }
    // everything spelled anywhere in the file (string literals, field names, comments are avoided by the fresh prefix)
    let all_text: HashSet<String> = d.tokens.iter().map(|t| t.4.clone()).collect();
    let mut candidates: Vec<String> = script_bound
        .iter()
        .filter(|(n, ok)| **ok && !SPECIAL.contains(&n.as_str()) && *n != "..." && !n.is_empty())
        .map(|(n, _)| n.clone())
        .collect();
    candidates.sort();
    // field names the script introduces: spellings that occur in field position only (never as a variable, never
    // inside a string literal) and nowhere in the library; every field-position occurrence is renamed
    let mut field_toks = Vec::new();
    field_tokens(chunk, &mut field_toks);
    let field_set: HashSet<usize> = field_toks.iter().copied().collect();
    // the old spelling must be unknown to every library selene knows of: `possible_std` notes ("was found in the
    // roblox standard library") look a field name up in all of them
    let mut segs = std_segments(std);
    for name in ["lua51", "lua52", "lua53", "lua54", "luau"] {
        if let Some(l) = StandardLibrary::from_name(name) {
            segs.extend(std_segments(&l));
        }
    }
    segs.extend(std_segments(&StandardLibrary::roblox_base()));
    let var_names: HashSet<String> = var_toks.iter().map(|i| d.tokens[*i].4.clone()).collect();
    let mut field_names: Vec<String> = field_toks.iter().map(|i| d.tokens[*i].4.clone()).collect();
    field_names.sort();
    field_names.dedup();
    let field_candidates: Vec<String> = field_names
        .into_iter()
        .filter(|n| {
            !var_names.contains(n)
                && !segs.contains(n)
                && !SPECIAL.contains(&n.as_str())
                && !n.starts_with("__")
                && !d.tokens.iter().enumerate().any(|(i, t)| !field_set.contains(&i) && t.4.contains(n.as_str()))
        })
        .collect();
    if candidates.is_empty() && field_candidates.is_empty() {
        return None;
    }
    let mut map: HashMap<String, String> = HashMap::new();
    let mut back: HashMap<String, String> = HashMap::new();
    let mut k = 0;
    for n in candidates {
        if !r.chance(2, 3) {
            continue;
        }
        k += 1;
        let long = r.chance(1, 4);
        let base = if long {
            stats.bump("rename_to_long_name");
            format!("zq{}_a_very_long_fresh_identifier_name_beyond_32", k)
        } else {
            format!("zq{}v", k)
        };
        let fresh = if n.starts_with('_') && keep_underscore { format!("_{base}") } else { base };
        if all_text.contains(&fresh) || src.contains(&fresh) || std.global_has_fields(&fresh) {
            continue;
        }
        if std.global_has_fields(&n) {
            stats.bump("renamed_name_is_library_root_but_script_bound");
        }
        back.insert(fresh.clone(), n.clone());
        map.insert(n, fresh);
    }
    let mut fmap: HashMap<String, String> = HashMap::new();
    for n in field_candidates {
        if !r.chance(1, 2) {
            continue;
        }
        k += 1;
        let fresh = format!("zq{}f", k);
        if all_text.contains(&fresh) || src.contains(&fresh) || segs.contains(&fresh) {
            continue;
        }
        stats.bump("renamed_field_name");
        back.insert(fresh.clone(), n.clone());
        fmap.insert(n, fresh);
    }
    if map.is_empty() && fmap.is_empty() {
        return None;
    }
    stats.add("renamed_names", (map.len() + fmap.len()) as u64);
    let mut id = |_: usize, g: &str| g.to_owned();
    let mut textf = |i: usize, t: &str| -> String {
        if var_set.contains(&i) {
            if let Some(f) = map.get(t) {
                return f.clone();
            }
        }
        if field_set.contains(&i) {
            if let Some(f) = fmap.get(t) {
                return f.clone();
            }
        }
        t.to_owned()
    };
    Some((rebuild(src, d, &mut id, &mut textf), back))
}

pub fn run(args: &Args, out: &mut Out, kind: &str) {
    let mut rng = Rng::new(args.seed ^ 0x7717);
    let std51 = StandardLibrary::from_name("lua51").unwrap();
    // C13 runs under lua51 plus a few deprecated / parameter-deprecated entries and a `global_usage` ignore pattern,
    // and every program gets a prologue with the shapes whose handling used to look at source text with its trivia
    let (std51, checker): (StandardLibrary, Checker<toml::value::Value>) = if kind == "c13" {
        let mut custom: StandardLibrary = serde_yaml::from_str(
            "globals:\n  oldfn:\n    args:\n      - type: any\n      - type: any\n        required: false\n    deprecated:\n      message: old\n      replace:\n        - newfn(%1)\n  oldvalue:\n    property: read-only\n    deprecated:\n      message: gone\n  depr_param:\n    args:\n      - type: any\n        required: false\n        deprecated:\n          message: no more\n      - type: any\n        required: false\n  lib.oldfield:\n    property: read-only\n    deprecated:\n      message: gone\n",
        )
        .unwrap();
        custom.extend(std51);
        let mut config: HashMap<String, toml::value::Value> = HashMap::new();
        let mut t = toml::value::Table::new();
        t.insert("ignore_pattern".to_owned(), toml::value::Value::String("^allowed_[a-z]*$".to_owned()));
        config.insert("global_usage".to_owned(), toml::value::Value::Table(t));
        let c = Checker::new(CheckerConfig { config, ..CheckerConfig::default() }, custom.clone()).unwrap();
        (custom, c)
    } else if kind == "c13r" || kind == "c14r" {
        // the Roblox base library under the name the Roblox-only code paths test for (`Context::is_roblox`), with a small class
        // table (roblox_incorrect_roact_usage returns early without one) and the two element constructors
        let mut rb = StandardLibrary::roblox_base();
        let extra: StandardLibrary = serde_yaml::from_str(
            "name: roblox\nglobals:\n  Roact.createElement:\n    args:\n      - type: any\n      - type: any\n        required: false\n      - type: any\n        required: false\n  React.createElement:\n    args:\n      - type: any\n      - type: any\n        required: false\n      - type: any\n        required: false\n  Roact.Event:\n    any: true\n  React.Event:\n    any: true\nroblox_classes:\n  Frame:\n    superclass: GuiObject\n    properties: []\n    events: []\n  GuiObject:\n    superclass: Instance\n    properties:\n      - Size\n    events:\n      - InputBegan\n  Instance:\n    superclass: \"<<<ROOT>>>\"\n    properties:\n      - Name\n    events:\n      - Changed\n",
        )
        .unwrap();
        let mut rbx = extra;
        rbx.extend(rb.clone());
        rb = rbx;
        let c = Checker::new(CheckerConfig::default(), rb.clone()).unwrap();
        (rb, c)
    } else if kind == "c14p" {
        // end-anchored ignore patterns: only the bare `_` is ignored, so a name that merely starts with `_` matches no pattern
        // before or after any renaming, and the renamer does not keep the prefix
        let mut config: HashMap<String, toml::value::Value> = HashMap::new();
        for lint in ["unused_variable", "shadowing", "unscoped_variables"] {
            let mut t = toml::value::Table::new();
            t.insert("ignore_pattern".to_owned(), toml::value::Value::String("^_$".to_owned()));
            config.insert(lint.to_owned(), toml::value::Value::Table(t));
        }
        let c = Checker::new(CheckerConfig { config, ..CheckerConfig::default() }, std51.clone()).unwrap();
        (std51, c)
    } else {
        let c = Checker::new(CheckerConfig::default(), std51.clone()).unwrap();
        (std51, c)
    };
    const PROLOGUE_R: &str = "local function _verif_prologue_r(vx)\n  local c = Color3.new(255, 0, 0)\n  local c2 = Color3.new(1, 0.5, 0)\n  local u = UDim2.new(1, 0, 1, 0)\n  local u2 = UDim2.new(0, 5, 0, 5)\n  local u3 = UDim2.new(1, 2)\n  local u4 = UDim2.new(0.5, 0, 0.5, 0)\n  local e = Roact.createElement\n  local f1 = e(\"Frame\", { Name = vx .. \"s\", Size = u, Colour = c })\n  local f2 = Roact.createElement(\"Frame\", {\n    Name = \"hello\",\n    [Roact.Event.InputBegan] = print,\n    [Roact.Event.Clicked] = print,\n  })\n  local f3 = React.createElement(\"Frame\", { Name = \"two words\", key = 1 })\n  local f4 = React.createElement(\"Window\", { Name = vx })\n  return c, c2, u, u2, u3, u4, vx, f1, f2, f3, f4\nend\n";
    const PROLOGUE: &str = "local function _verif_prologue(vx, vy)\n  if type(vx == \"string\") then end\n  local _o = oldvalue\n  print(oldvalue, vx)\n  oldfn(vx, vy)\n  depr_param(nil, vx)\n  depr_param(vx)\n  _G.allowed_name = vx\n  _G.other_name = vy\n  if vx == 0/0 then end\n  return lib.oldfield, oldvalue\nend\n";
    let corpus = format!("/verif/corpus/{}", if kind == "c13r" { "c13" } else if kind == "c14r" || kind == "c14p" { "c14" } else { kind });
    let rel = if kind == "c13r" { "c13" } else if kind == "c14r" || kind == "c14p" { "c14" } else { kind };
    let is_c14 = kind == "c14" || kind == "c14r" || kind == "c14p";
    for (origin, src) in programs(args, out, &mut rng, &corpus) {
        // filter comments stay where they are (the trivia twin only *adds* blanks and ordinary comments, also between
        // a filter comment and the code it precedes); the renaming twin leaves such files alone
        if src.contains("selene:") {
            if is_c14 {
                out.bump("skipped_has_filter_comments");
                continue;
            }
            out.bump("program_with_filter_comments");
        }
        let src = if kind == "c13" {
            format!("{PROLOGUE}{src}")
        } else if kind == "c13r" {
            format!("{PROLOGUE_R}{src}")
        } else if kind == "c14r" {
            format!("{PROLOGUE_R}{src}")
        } else {
            src
        };
        let ast = match full_moon::parse(&src) {
            Ok(a) => a,
            Err(_) => continue,
        };
        let (chunk, supported, d) = astdump::dump(&ast);
        if is_c14 && !supported {
            // the renamer needs every variable-position token, i.e. a fully dumped tree
            out.bump("unsupported_syntax");
            continue;
        }
        let base = match run_checker(&checker, &src) {
            Some(b) => b,
            None => {
                out.bump("base_run_panicked");
                continue;
            }
        };
        let reps = if origin.starts_with("corpus") { 12 } else { 2 };
        for rep_i in 0..reps + 6 {
            if rep_i >= reps && rep_i < reps + 2 && !((kind == "c13" || kind == "c13r") && src.contains("--")) {
                continue;
            }
            if rep_i >= reps + 2 && !(kind == "c13" || kind == "c13r") {
                continue;
            }
            let (twin_src, back) = if rep_i >= reps + 4 {
                (reindent_twin(&src, &d, rep_i == reps + 4, out), HashMap::new())
            } else if rep_i >= reps + 2 {
                (squeeze_twin(&src, &d, &mut rng, out), HashMap::new())
            } else if rep_i >= reps {
                (comment_after_comments_twin(&src, &d, rep_i == reps, out), HashMap::new())
            } else if kind == "c13" || kind == "c13r" {
                (trivia_twin(&src, &d, &mut rng, out), HashMap::new())
            } else {
                match rename_twin(&src, &ast, &d, &chunk, &std51, &mut rng, out, kind != "c14p") {
                    Some(x) => x,
                    None => {
                        out.bump("nothing_to_rename");
                        continue;
                    }
                }
            };
            if twin_src == src {
                out.bump("twin_identical");
                continue;
            }
            let twin_ast = match full_moon::parse(&twin_src) {
                Ok(a) => a,
                Err(_) => {
                    out.bump("twin_does_not_parse");
                    continue;
                }
            };
            let (_c2, _s2, d2) = astdump::dump(&twin_ast);
            let diags2 = match std::panic::catch_unwind(std::panic::AssertUnwindSafe(|| checker.test_on(&twin_ast))) {
                Ok(x) => x,
                Err(_) => {
                    out.case(&format!("REL.{rel}"), &list(vec![st(&origin), st(&src), st(&twin_src)]), &atom("twin-panicked"));
                    continue;
                }
            };
            let rename_back = |s: &str| -> String {
                let mut t = s.to_owned();
                let mut keys: Vec<&String> = back.keys().collect();
                keys.sort_by_key(|k| std::cmp::Reverse(k.len()));
                for k in keys {
                    t = t.replace(k.as_str(), &back[k]);
                }
                t
            };
            let mut v2: Vec<String> = diags2.iter().map(|x| canon(x, &d2, &rename_back)).collect();
            v2.sort();
            let same_tokens = d.tokens.len() == d2.tokens.len()
                && (is_c14 || d.tokens.iter().zip(d2.tokens.iter()).all(|(a, b)| a.4 == b.4));
            if !same_tokens {
                // the rewrite was not a pure trivia / spelling change (e.g. a line comment swallowed the inserted text): not a twin
                out.bump("twin_changed_the_token_sequence");
                continue;
            }
            if !base.0.is_empty() {
                out.bump("twin_pairs_with_diagnostics");
            }
            out.case(
                &format!("REL.{rel}"),
                &list(vec![st(&origin), st(&src), st(&twin_src)]),
                &list(vec![boolean(same_tokens), list(base.0.iter().map(st).collect()), list(v2.iter().map(st).collect())]),
            );
        }
    }
}
