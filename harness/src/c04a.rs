//! C04 (half A): the expression-level closed-form lints — divide_by_zero, compare_nan,
//! suspicious_reverse_loop, duplicate_keys, mixed_table, constant_table_comparison,
//! type_check_inside_call, bad_string_escape, parenthese_conditions.
//!
//! Every program (repo fixtures, luagen programs, per-lint template families with literals re-spelled
//! in every equivalent form, plugged into random enclosing contexts) is parsed with full_moon, dumped in
//! the AST exchange format and checked by the real `Checker` twice: with the `lua51` library and with
//! the same library named `roblox` (which is what `Context::is_roblox` looks at).
use crate::astdump;
use crate::luagen;
use crate::rng::Rng;
use crate::sx::*;
use crate::{Args, Out};
use selene_lib::standard_library::StandardLibrary;
use selene_lib::{Checker, CheckerConfig};

pub const CODES: [&str; 9] = [
    "divide_by_zero",
    "compare_nan",
    "suspicious_reverse_loop",
    "duplicate_keys",
    "mixed_table",
    "constant_table_comparison",
    "type_check_inside_call",
    "bad_string_escape",
    "parenthese_conditions",
];

const ZEROS: [&str; 10] = ["0", "0.0", "0x0", "0e0", "00", ".0", "0.", "0E5", "0x00", "1e-400"];
const ONES: [&str; 8] = ["1", "1.0", "0x1", "1e0", "01", "1.", "10e-1", "0.1e1"];
const OTHER_NUMS: [&str; 14] = ["2", "0x10", "1.5", "1.00000001", "1.0000001", "0.5", "1e1", "16", "0xA", "1.00000006", "1.0000000000000001", "3", "0x2", "1e-3"];
const OPERANDS: [&str; 14] = ["x", "t.a", "t[i]", "f()", "(x)", "x + 1", "#t", "\"s\"", "nil", "-x", "a.b.c", "t:m()", "-1", "x.y[1]"];

fn zero(r: &mut Rng) -> String {
    if r.chance(1, 3) { "0".to_owned() } else { r.pick(&ZEROS).to_string() }
}
fn anynum(r: &mut Rng) -> String {
    match r.below(3) {
        0 => r.pick(&ZEROS).to_string(),
        1 => r.pick(&ONES).to_string(),
        _ => r.pick(&OTHER_NUMS).to_string(),
    }
}
fn operand(r: &mut Rng) -> String {
    r.pick(&OPERANDS).to_string()
}

/// an expression pattern placed in a random statement
fn expr_stmt(r: &mut Rng, e: &str) -> String {
    match r.below(12) {
        0 => format!("local v = {e}"),
        1 => format!("print({e})"),
        2 => format!("x = {e}"),
        3 => format!("t[{e}] = 1"),
        4 => format!("if {e} then end"),
        5 => format!("local u = {{ {e} }}"),
        6 => format!("f(1, {e})"),
        7 => format!("local y = not ({e})"),
        8 => format!("while {e} do break end"),
        9 => format!("local w = {{ k = {e} }}"),
        10 => format!("local a, b = 1, {e}"),
        _ => format!("g(function() return {e} end)"),
    }
}

const FILLERS: [&str; 6] = ["local a = 1", "print(x)", "x = x", "f()", "local q", "t.k = nil"];

/// plug a statement into a random one-hole context (any block position, any nesting)
fn plug(r: &mut Rng, stmt: &str, ret: Option<&str>) -> String {
    let mut cur = String::new();
    // innermost block: fillers, the statement, fillers, optional last statement
    for _ in 0..r.below(2) {
        cur.push_str(*r.pick(&FILLERS));
        cur.push('\n');
    }
    cur.push_str(stmt);
    cur.push('\n');
    for _ in 0..r.below(2) {
        cur.push_str(*r.pick(&FILLERS));
        cur.push('\n');
    }
    if let Some(x) = ret {
        cur.push_str(x);
        cur.push('\n');
    }
    let depth = r.below(4);
    for _ in 0..depth {
        let inner = cur;
        let framed = match r.below(12) {
            0 => format!("do\n{inner}end\n"),
            1 => format!("while c do\n{inner}end\n"),
            2 => format!("repeat\n{inner}until c\n"),
            3 => format!("if c then\n{inner}end\n"),
            4 => format!("if c then\nelse\n{inner}end\n"),
            5 => format!("if c then\nelseif d then\n{inner}elseif e then\nend\n"),
            6 => format!("for i = 1, 2 do\n{inner}end\n"),
            7 => format!("for k, v in pairs(t) do\n{inner}end\n"),
            8 => format!("function m.n()\n{inner}end\n"),
            9 => format!("local function g()\n{inner}end\n"),
            10 => format!("local h = function()\n{inner}end\n"),
            _ => format!("local p, q = 1, function(...)\n{inner}end, 2\n"),
        };
        let mut outer = String::new();
        for _ in 0..r.below(2) {
            outer.push_str(*r.pick(&FILLERS));
            outer.push('\n');
        }
        outer.push_str(&framed);
        for _ in 0..r.below(2) {
            outer.push_str(*r.pick(&FILLERS));
            outer.push('\n');
        }
        cur = outer;
    }
    cur
}

fn plug_expr(r: &mut Rng, e: &str) -> String {
    if r.chance(1, 8) {
        let ret = format!("return {e}");
        return plug(r, "local z = 1", Some(&ret));
    }
    let s = expr_stmt(r, e);
    plug(r, &s, None)
}

fn fam_divide(r: &mut Rng) -> String {
    let l = if r.chance(1, 2) { anynum(r) } else { operand(r) };
    let z = if r.chance(3, 4) { zero(r) } else { anynum(r) };
    let op = if r.chance(9, 10) { "/" } else { *r.pick(&["%", "*", "+"]) };
    let e = match r.below(6) {
        0 => format!("{l}/{z}"),
        1 => format!("({l}) {op} {z}"),
        2 => format!("{l} {op} ({z})"),
        3 => format!("{l} {op} {z} {op} {z}"),
        _ => format!("{l} {op} {z}"),
    };
    plug_expr(r, &e)
}

fn fam_nan(r: &mut Rng) -> String {
    let v = if r.chance(2, 3) { r.pick(&["x", "t.a", "t[i]", "a.b.c", "x.y[1]", "t[1][2]"]).to_string() } else { operand(r) };
    let op = *r.pick(&["==", "~=", "==", "~=", "==", "~=", "<", ">=", "+"]);
    let n = match r.below(10) {
        0 => "(0/0)".to_owned(),
        1 => format!("{}/{}", zero(r), zero(r)),
        2 => format!("{} / {}", anynum(r), anynum(r)),
        3 => "0 * 0".to_owned(),
        4 => "0/0/0".to_owned(),
        _ => "0/0".to_owned(),
    };
    let e = if r.chance(1, 8) { format!("{n} {op} {v}") } else { format!("{v} {op} {n}") };
    plug_expr(r, &e)
}

fn fam_reverse(r: &mut Rng) -> String {
    let s = *r.pick(&["#t", "#t", "#t", "#t.a", "# t", "(#t)", "#t + 0", "n", "#f()", "#{1, 2}", "-#t"]);
    let e = if r.chance(5, 6) { anynum(r) } else { r.pick(&["x", "-1", "(1)", "1 + 0", "#t"]).to_string() };
    let step = match r.below(5) {
        0 => ", -1",
        1 => ", 1",
        _ => "",
    };
    let body = if r.chance(1, 2) { "print(i)\n" } else { "" };
    let stmt = format!("for i = {s}, {e}{step} do\n{body}end");
    plug(r, &stmt, None)
}

const KEYS: [&str; 30] = [
    "a =", "b =", "[\"a\"] =", "['a'] =", "[ [[a]] ] =", "[\"\\97\"] =", "[\"\\n\"] =", "[ [[\\n]] ] =", "['\\n'] =", "[\"b\"] =",
    "[1] =", "[1.0] =", "[0x1] =", "[2] =", "[1e0] =", "[x] =",
    // different numbers that coincide in single precision, or overflow it
    "[16777216] =", "[16777217] =", "[0.1] =", "[0.10000000001] =", "[1e39] =", "[1e40] =", "[1234567890] =", "[1234567891] =", "[\"\\65\"] =", "[ [[\\65]] ] =", "[\"A\"] =", "[f()] =", "[02] =", "[ [==[a]==] ] =",
];

fn table(r: &mut Rng, depth: usize) -> String {
    let n = r.below(6);
    let mut fs: Vec<String> = Vec::new();
    let keyed_bias = r.below(3); // 0: array-like, 1: dictionary-like, 2: mixed
    for _ in 0..n {
        let v = if depth > 0 && r.chance(1, 6) { table(r, depth - 1) } else { r.pick(&["1", "x", "\"v\"", "f()", "nil", "{}"]).to_string() };
        let keyed = match keyed_bias {
            0 => r.chance(1, 8),
            1 => r.chance(7, 8),
            _ => r.chance(1, 2),
        };
        if keyed {
            fs.push(format!("{} {}", r.pick(&KEYS), v));
        } else {
            fs.push(v);
        }
    }
    let sep = if r.chance(1, 5) { "; " } else { ", " };
    let trailing = if !fs.is_empty() && r.chance(1, 4) { "," } else { "" };
    format!("{{ {}{} }}", fs.join(sep), trailing)
}

fn fam_table(r: &mut Rng) -> String {
    let t = table(r, 2);
    if r.chance(1, 6) {
        let s = format!("f{t}");
        return plug(r, &s, None);
    }
    if r.chance(1, 8) {
        let s = format!("x:m {t}");
        return plug(r, &s, None);
    }
    plug_expr(r, &t)
}

fn fam_ctc(r: &mut Rng) -> String {
    let side = |r: &mut Rng| -> String {
        match r.below(7) {
            0 => "{}".to_owned(),
            1 => "{ 1, 2 }".to_owned(),
            2 => "{ a = 1 }".to_owned(),
            3 => "({})".to_owned(),
            4 => "{ }".to_owned(),
            _ => operand(r),
        }
    };
    let l = side(r);
    let rr = side(r);
    let op = *r.pick(&["==", "~=", "<", ">", "<=", ">=", "==", "~=", "..", "+", "and", "or"]);
    let e = format!("{l} {op} {rr}");
    plug_expr(r, &e)
}

fn fam_typecheck(r: &mut Rng) -> String {
    let f = *r.pick(&["type", "type", "type", "type", "type", "type", "typeof", "typeof", "foo", "t.type", "(type)", "type2"]);
    let a = operand(r);
    let s = *r.pick(&["\"number\"", "\"number\"", "'number'", "'string'", "[[number]]", "[==[nil]==]", "(\"number\")", "y", "nil", "\"a\" .. \"b\""]);
    let op = *r.pick(&["==", "==", "==", "==", "==", "~=", "<"]);
    let e = match r.below(16) {
        0 => format!("{f}({a}) {op} {s}"),
        1 => format!("{f}({a} {op} {s}, 1)"),
        2 => format!("{f}(1, {a} {op} {s})"),
        3 => format!("{f}({s} {op} {a})"),
        4 => format!("{f}({a} {op} {s}).n"),
        5 => format!("{f}({a} {op} {s})(2)"),
        6 => format!("{f} \"number\""),
        7 => format!("a:{}({a} {op} {s})", f.trim_matches(|c| c == '(' || c == ')').replace('.', "_")),
        8 => format!("{f}(({a} {op} {s}))"),
        _ => format!("{f}({a} {op} {s})"),
    };
    if r.chance(1, 4) && !e.starts_with('(') {
        // statement position (a FunctionCall that is not an Expression)
        let e2 = if e.ends_with(".n") || e.contains(") ==") || e.contains(") ~=") || e.contains(") <") { format!("local _ = {e}") } else { e };
        return plug(r, &e2, None);
    }
    plug_expr(r, &e)
}

const PIECES: [&str; 40] = [
    "a", "b", " ", "0", "f", "}", "{", "x", "\\n", "\\t", "\\\\", "\\a", "\\m", "\\'", "\\\"", "\\065", "\\65", "\\256", "\\300", "\\3a0", "\\30a",
    "\\255", "\\2556", "\\x41", "\\x4", "\\x414", "\\x", "\\u{41}", "\\u{110000}", "\\u{12", "\\u{}", "\\z  ", "\\z", "\\\\m", "\\1", "\\12", "\\9", "\\u", "\\\n",
    "\\q}",
];

fn fam_string(r: &mut Rng) -> String {
    let n = 1 + r.below(4);
    let mut body = String::new();
    for _ in 0..n {
        body.push_str(*r.pick(&PIECES));
    }
    let lit = match r.below(7) {
        0 | 1 | 2 => format!("\"{}\"", body.replace("\\\"", "\\\"")),
        3 | 4 | 5 => format!("'{body}'"),
        _ => format!("[[{}]]", body.replace("]]", "")),
    };
    // an unescaped delimiter inside would end the literal early; keep only bodies without a bare one
    let bare_quote = |s: &str, q: char| -> bool {
        let cs: Vec<char> = s.chars().collect();
        let mut i = 0;
        while i < cs.len() {
            if cs[i] == '\\' {
                i += 2;
                continue;
            }
            if cs[i] == q {
                return true;
            }
            i += 1;
        }
        false
    };
    if (lit.starts_with('"') && bare_quote(&body, '"')) || (lit.starts_with('\'') && bare_quote(&body, '\'')) {
        return fam_string(r);
    }
    if r.chance(1, 8) {
        let s = format!("print {lit}");
        return plug(r, &s, None);
    }
    if r.chance(1, 8) {
        let s = format!("local t = {{ [ {lit} ] = 1 }}");
        return plug(r, &s, None);
    }
    plug_expr(r, &lit)
}

fn fam_paren(r: &mut Rng) -> String {
    let cond = |r: &mut Rng| -> String {
        match r.below(9) {
            0 => "x".to_owned(),
            1 => "(x) and y".to_owned(),
            2 => "((x))".to_owned(),
            3 => "(f)()".to_owned(),
            4 => "(x).y".to_owned(),
            5 => "not (x)".to_owned(),
            6 => "(x == 1)".to_owned(),
            7 => "( x )".to_owned(),
            _ => "(x)".to_owned(),
        }
    };
    let stmt = match r.below(6) {
        0 => format!("while {} do\nbreak\nend", cond(r)),
        1 => format!("repeat\nx = 1\nuntil {}", cond(r)),
        2 => format!("if {} then\nelseif {} then\nelseif {} then\nelse\nend", cond(r), cond(r), cond(r)),
        3 => format!("if {} then\nelse\nend", cond(r)),
        4 => format!("local v = {}", cond(r)),
        _ => format!("if {} then\nend", cond(r)),
    };
    plug(r, &stmt, None)
}

fn fixed_cases() -> Vec<(&'static str, String)> {
    vec![
        ("fixed:reverse-hex", "for i = #t, 0x10 do\nend\n".to_owned()),
        ("fixed:reverse-round", "for i = #t, 1.00000001 do\nend\n".to_owned()),
        ("fixed:reverse-canon", "for _ = #x, 1 do\nend\n".to_owned()),
        ("fixed:escape-3a0", "print(\"\\3a0\")\n".to_owned()),
        ("fixed:escape-256", "print(\"\\256\")\n".to_owned()),
        ("fixed:escape-canon", "print(\"\\m\")\nprint(\"don\\'t\")\nprint('\\\"foo\\\"')\n".to_owned()),
        ("fixed:escape-crlf", "local s = \"a\\\r\nb\"\r\n".to_owned()),
        ("fixed:escape-roblox", "print(\"\\x1\")\nprint(\"\\u{1234\")\nprint(\"\\u{110000}\")\nprint(\"\\x414\")\n".to_owned()),
        ("fixed:dup-quote-kinds", "local t = {[\"\\n\"]=1, [ [[\\n]] ]=2}\n".to_owned()),
        ("fixed:dup-canon", "local foo = {\n a = 1,\n b = 5,\n [\"a\"] = 3,\n c = 3,\n b = 1,\n}\nlocal bar = {\n \"foo\",\n \"bar\",\n [1524] = \"hello\",\n \"baz\",\n \"foobar\",\n [2] = \"goodbye\",\n}\n".to_owned()),
        // keys of different types that are spelled alike: the boolean true and the string "true", nil-like and number-like strings
        ("fixed:dup-other-key-types", "local t = { [true] = 1, [\"true\"] = 2, [false] = 3, [\"false\"] = 4, [\"nil\"] = 5, [\"1\"] = 6, [1] = 7, [\"...\"] = 8 }\nlocal u = { [true] = 1, [true] = 2, [false] = 3, [(false)] = 4 }\nlocal v = { [f] = 1, [\"f\"] = 2, f = 3, [f()] = 4, [\"f()\"] = 5 }\n".to_owned()),
        ("fixed:dup-by-value", "local t = {[1] = 1, [1.0] = 2, \"x\", [0x1] = 3}\n".to_owned()),
        ("fixed:distinct-in-double-precision", "local t = {[16777216] = 1, [16777217] = 2}\nlocal u = {[0.1] = 1, [0.10000000001] = 2, [1e39] = 3, [1e40] = 4}\nlocal ids = {[1234567890] = \"a\", [1234567891] = \"b\", [1234567892] = \"c\"}\n".to_owned()),
        ("fixed:div-zero-spellings", "print(0.0 / 0)\nprint(0x0 / 0)\nprint(1 / 0.0)\nprint(1 / 0)\nprint(-1 / 0)\nprint(0 / 0)\n".to_owned()),
        ("fixed:nan-canon", "print(x == 0/0)\nprint(x ~= 0/0)\nprint(x == 0.0/0)\nprint(f() == 0/0)\n".to_owned()),
        ("fixed:mixed-canon", "local foo = {\n \"array field\",\n bar = \"dictionary field\",\n}\n".to_owned()),
        ("fixed:ctc-canon", "if x == { \"a\", \"b\", \"c\" } then\nend\nif x == {} then\nend\n".to_owned()),
        ("fixed:typecheck-canon", "return type(foo == \"number\")\n".to_owned()),
        // the canonical patterns with trivia attached to the very tokens the lints look at (callee, operator, operands)
        ("fixed:typecheck-trivia", "return type (foo == \"number\"), type --[[ c ]] (foo ~= \"x\"), type\n  (foo == \"y\")\n".to_owned()),
        ("fixed:div-zero-trivia", "print(1 --[[ a ]] / --[[ b ]] 0)\nprint(1 /\n  0)\nprint( 0 / 0 )\n".to_owned()),
        ("fixed:nan-trivia", "print(x == 0 --[[ c ]] / 0)\nprint(x --[[ c ]] ~= 0/0)\n".to_owned()),
        ("fixed:reverse-trivia", "for i = # t , 1 do\nend\nfor i = #t --[[ c ]], 1 do\nend\n".to_owned()),
        ("fixed:paren-canon", "if (x) then\nend\nrepeat\nuntil (x)\nwhile (x) do\nend\n".to_owned()),
    ]
}

fn diag_span(d: &astdump::Dumper, code: &str, range: (u32, u32)) -> Sx {
    let (a, b) = (range.0 as usize, range.1 as usize);
    if code == "bad_string_escape" {
        // the label lies inside a string token: token index + byte offsets from the token's start
        for (i, t) in d.tokens.iter().enumerate() {
            if t.0 <= a && a < t.1 {
                return list(vec![atom("sub"), num(i), num(a - t.0), num(b - t.0)]);
            }
        }
        return list(vec![atom("byte"), num(a), num(b)]);
    }
    match (d.by_start.get(&a), d.by_end.get(&b)) {
        (Some(x), Some(y)) => list(vec![num(*x), num(*y)]),
        _ => list(vec![atom("byte"), num(a), num(b)]),
    }
}

fn diags_sx(checker: &Checker<toml::value::Value>, ast: &full_moon::ast::Ast, d: &astdump::Dumper) -> Sx {
    let diags = checker.verif_test_on_unfiltered(ast);
    let mut v: Vec<(u32, u32, String, Sx)> = Vec::new();
    for x in diags.iter().filter(|x| CODES.contains(&x.diagnostic.code)) {
        let code = x.diagnostic.code;
        let secondary: Vec<Sx> = x.diagnostic.secondary_labels.iter().map(|l| diag_span(d, "", l.range)).collect();
        v.push((
            x.diagnostic.primary_label.range.0,
            x.diagnostic.primary_label.range.1,
            code.to_owned(),
            list(vec![st(code), diag_span(d, code, x.diagnostic.primary_label.range), st(&x.diagnostic.message), list(secondary)]),
        ));
    }
    v.sort_by(|a, b| (a.0, a.1, &a.2).cmp(&(b.0, b.1, &b.2)));
    list(v.into_iter().map(|x| x.3).collect())
}

pub fn run(args: &Args, out: &mut Out) {
    let mut rng = Rng::new(args.seed);
    let std51 = StandardLibrary::from_name("lua51").unwrap();
    let mut std_rbx = std51.clone();
    std_rbx.name = Some("roblox".to_owned());
    let checker51: Checker<toml::value::Value> = Checker::new(CheckerConfig::default(), std51).unwrap();
    let checker_rbx: Checker<toml::value::Value> = Checker::new(CheckerConfig::default(), std_rbx).unwrap();

    let mut programs: Vec<(String, String)> = Vec::new();
    for (name, src) in fixed_cases() {
        programs.push((name.to_owned(), src));
        out.bump("fixed");
    }
    for p in luagen::fixture_files() {
        if let Ok(s) = std::fs::read_to_string(&p) {
            programs.push((format!("fixture:{}", p.display()), s));
            out.bump("fixture");
        }
    }
    if let Ok(rd) = std::fs::read_dir("/verif/corpus/c04") {
        let mut paths: Vec<_> = rd.filter_map(|e| e.ok()).map(|e| e.path()).collect();
        paths.sort();
        for p in paths {
            if let Ok(s) = std::fs::read_to_string(&p) {
                programs.push((format!("corpus:{}", p.display()), s));
                out.bump("corpus");
            }
        }
    }
    let families: [(&str, fn(&mut Rng) -> String); 8] = [
        ("divide_by_zero", fam_divide),
        ("compare_nan", fam_nan),
        ("suspicious_reverse_loop", fam_reverse),
        ("tables", fam_table),
        ("constant_table_comparison", fam_ctc),
        ("type_check_inside_call", fam_typecheck),
        ("bad_string_escape", fam_string),
        ("parenthese_conditions", fam_paren),
    ];
    for i in 0..args.n {
        for (name, f) in families.iter() {
            let mut src = f(&mut rng);
            // sometimes several patterns in one program
            if rng.chance(1, 5) {
                let (_, g) = *rng.pick(&families);
                // (a `return` must stay the last statement of its block)
                src = format!("do\n{src}end\n{}", g(&mut rng));
            }
            if rng.chance(1, 12) {
                src = src.replace('\n', "\r\n");
            }
            programs.push((format!("template:{name}:{i}"), src));
            out.bump(&format!("template_{name}"));
        }
    }
    for i in 0..(args.n / 4).max(10) {
        let (budget, depth) = [(8, 2), (20, 3), (40, 5)][i % 3];
        let (src, _) = luagen::gen_program(&mut rng, budget, depth);
        programs.push((format!("gen:{i}"), src));
        out.bump("luagen");
    }

    // every template program is also checked in a second layout (line breaks, indentation and comments
    // between its tokens): the lints must not depend on the trivia carried by the tokens they look at
    let mut queue: std::collections::VecDeque<(String, String)> = programs.into();
    while let Some((origin, src)) = queue.pop_front() {
        let ast = match full_moon::parse(&src) {
            Ok(a) => a,
            Err(_) => {
                out.bump("does_not_parse");
                if origin.starts_with("template") || origin.starts_with("fixed") {
                    out.bump("template_does_not_parse");
                    if std::env::var("VERIF_C04A_DEBUG").is_ok() {
                        eprintln!("NOPARSE {origin}: {src:?}");
                    }
                }
                continue;
            }
        };
        let (chunk, supported, d) = astdump::dump(&ast);
        if !supported {
            out.bump("unsupported_syntax");
            continue;
        }
        if origin.starts_with("template") && !origin.ends_with(":layout") && !src.contains('\r') {
            let twin = crate::twin::trivia_twin(&src, &d, &mut rng, out);
            if twin != src {
                queue.push_back((format!("{origin}:layout"), twin));
                out.bump("layout_variant");
            }
        }
        let result = std::panic::catch_unwind(std::panic::AssertUnwindSafe(|| list(vec![diags_sx(&checker51, &ast, &d), diags_sx(&checker_rbx, &ast, &d)])));
        match result {
            Ok(diags) => out.case("C04A.prog", &list(vec![chunk, st(&origin), st(&src)]), &diags),
            Err(_) => out.case("C04A.prog", &list(vec![chunk, st(&origin), st(&src)]), &atom("panic")),
        }
    }
}
