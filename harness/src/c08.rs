//! C08 / C09 / C10: inline lint filters, invalid filters, configured severities.
use crate::rng::Rng;
use crate::sx::*;
use crate::{Args, Out};
use full_moon::node::Node;
use full_moon::tokenizer::TokenType;
use selene_lib::lints::Severity;
use selene_lib::standard_library::StandardLibrary;
use selene_lib::verif_hooks::{self, FilterRange};
use selene_lib::{Checker, CheckerConfig, CheckerDiagnostic, LintVariation};
use std::collections::HashMap;

pub const LINTS: &[&str] = &[
    "unused_variable",
    "undefined_variable",
    "empty_if",
    "empty_loop",
    "divide_by_zero",
    "shadowing",
];

pub fn sev_sx(s: Severity) -> Sx {
    atom(match s {
        Severity::Allow => "allow",
        Severity::Error => "error",
        Severity::Warning => "warning",
    })
}

fn gen_filter_comment(r: &mut Rng, stats: &mut Out) -> String {
    let variation = *r.pick(&["allow", "deny", "warn"]);
    let lint = |r: &mut Rng| -> String {
        if r.chance(1, 12) {
            "nonexistent_lint".to_owned()
        } else if r.chance(1, 10) {
            // a valid filter for the lint that reports invalid filters: such reports are not subject to filters
            "invalid_lint_filter".to_owned()
        } else {
            (*r.pick(LINTS)).to_owned()
        }
    };
    let global = if r.chance(1, 8) { "#" } else { "" };
    match r.below(16) {
        0 | 1 | 2 | 3 | 4 | 5 => {
            stats.bump("comment_single");
            format!("--{global} selene: {variation}({})", lint(r))
        }
        6 | 7 => {
            stats.bump("comment_list");
            format!("--{global} selene: {variation}({}, {})", lint(r), lint(r))
        }
        8 | 9 => {
            stats.bump("comment_block");
            format!("--[[{global} selene: {variation}({}) ]]", lint(r))
        }
        10 => {
            stats.bump("comment_block_two_lines");
            format!("--[[\n  selene: {variation}({})\n  selene: {}({})\n]]", lint(r), r.pick(&["allow", "deny", "warn"]), lint(r))
        }
        11 => {
            stats.bump("comment_duplicate");
            let l = lint(r);
            format!("-- selene: {variation}({l})\n-- selene: {}({l})", r.pick(&["allow", "deny", "warn"]))
        }
        12 => {
            stats.bump("comment_malformed");
            (*r.pick(&[
                "-- selene: allow(",
                "-- selene: alow(unused_variable)",
                "-- selene allow(unused_variable)",
                "-- selene: allow()",
                "-- selene: (unused_variable)",
                "-- selene:allow(unused_variable))",
                "-- SELENE: allow(unused_variable)",
                "-- selene: allow(unused_variable, )",
                "-- selene : a l l o w ( unused _ variable )",
                "-- not a filter",
            ]))
            .to_owned()
        }
        13 => {
            stats.bump("comment_spaced");
            format!("--   selene :  {variation} ( {} ) trailing words", lint(r))
        }
        _ => {
            stats.bump("comment_plain");
            "-- just a comment".to_owned()
        }
    }
}

struct Gen<'a> {
    r: &'a mut Rng,
    out: String,
    names: Vec<&'static str>,
    filter_rate: usize,
}

impl Gen<'_> {
    fn indent(&mut self, depth: usize) {
        for _ in 0..depth {
            self.out.push_str("  ");
        }
    }
    fn maybe_filter(&mut self, depth: usize, stats: &mut Out) {
        let n = if self.r.chance(self.filter_rate, 10) { 1 + self.r.below(2) } else { 0 };
        for _ in 0..n {
            let c = gen_filter_comment(self.r, stats);
            for line in c.split('\n') {
                self.indent(depth);
                self.out.push_str(line);
                self.out.push('\n');
            }
        }
    }
    fn inline_filter(&mut self, stats: &mut Out) -> String {
        if self.r.chance(1, 6) {
            let lint = *self.r.pick(LINTS);
            stats.bump("comment_inside_expression");
            format!("--[[ selene: {}({lint}) ]] ", self.r.pick(&["allow", "deny", "warn"]))
        } else {
            String::new()
        }
    }
    fn expr(&mut self, stats: &mut Out) -> String {
        let f = self.inline_filter(stats);
        let n = *self.r.pick(&self.names.clone());
        match self.r.below(5) {
            0 => format!("{f}{n}"),
            1 => format!("{f}{n} / 0"),
            2 => format!("{f}undefined_{n}"),
            3 => format!("{f}f({n})"),
            _ => "1".to_owned(),
        }
    }
    fn block(&mut self, depth: usize, budget: &mut usize, stats: &mut Out) {
        let n = self.r.below(4);
        for _ in 0..n {
            if *budget == 0 {
                break;
            }
            *budget -= 1;
            self.stmt(depth, budget, stats);
        }
    }
    fn stmt(&mut self, depth: usize, budget: &mut usize, stats: &mut Out) {
        self.maybe_filter(depth, stats);
        self.indent(depth);
        let n = *self.r.pick(&self.names.clone());
        match self.r.below(9) {
            0 | 1 => {
                let e = self.expr(stats);
                self.out.push_str(&format!("local {n} = {e}\n"));
            }
            2 => {
                let e = self.expr(stats);
                self.out.push_str(&format!("print({e})\n"));
            }
            3 => {
                let e = self.expr(stats);
                self.out.push_str(&format!("if {e} then\n"));
                self.block(depth + 1, budget, stats);
                if self.r.chance(1, 3) {
                    // a filter comment in front of `else`: no node starts there
                    if self.r.chance(1, 3) {
                        self.maybe_filter(depth, stats);
                        stats.bump("comment_before_else");
                    }
                    self.indent(depth);
                    self.out.push_str("else\n");
                    self.block(depth + 1, budget, stats);
                }
                if self.r.chance(1, 6) {
                    self.maybe_filter(depth, stats);
                    stats.bump("comment_before_end");
                }
                self.indent(depth);
                self.out.push_str("end\n");
            }
            4 => {
                self.out.push_str("do\n");
                self.block(depth + 1, budget, stats);
                self.indent(depth);
                self.out.push_str("end\n");
            }
            5 => {
                let e = self.expr(stats);
                self.out.push_str(&format!("while {e} do\n"));
                self.block(depth + 1, budget, stats);
                self.indent(depth);
                self.out.push_str("end\n");
            }
            6 => {
                self.out.push_str(&format!("local function {n}()\n"));
                self.block(depth + 1, budget, stats);
                self.indent(depth);
                self.out.push_str("end\n");
            }
            7 => {
                let e = self.expr(stats);
                self.out.push_str(&format!("{n} = {e}\n"));
            }
            _ => {
                let e = self.expr(stats);
                let e2 = self.expr(stats);
                self.out.push_str(&format!("f({e}, {e2})\n"));
            }
        }
    }
}

/// the byte at which the first token of the file starts (`None` for a file without code)
pub fn first_code_independent(ast: &full_moon::ast::Ast) -> Option<usize> {
    use full_moon::node::Node;
    ast.nodes().tokens().next().and_then(|t| t.start_position()).map(|p| p.bytes())
}

pub fn gen_program(r: &mut Rng, stats: &mut Out, filter_rate: usize) -> String {
    let mut g = Gen { r, out: String::new(), names: vec!["a", "b", "c"], filter_rate };
    // global filters before any code
    if g.r.chance(1, 3) {
        let lint = if g.r.chance(1, 6) { "invalid_lint_filter" } else { *g.r.pick(LINTS) };
        let v = *g.r.pick(&["allow", "deny", "warn"]);
        g.out.push_str(&format!("--# selene: {v}({lint})\n"));
        stats.bump("global_filter_top");
        if g.r.chance(1, 3) {
            let lint2 = *g.r.pick(LINTS);
            g.out.push_str(&format!("--# selene: {}({lint2})\n", g.r.pick(&["allow", "deny", "warn"])));
        }
    }
    let mut budget = 3 + g.r.below(10);
    let top = 1 + g.r.below(5);
    for _ in 0..top {
        g.stmt(0, &mut budget, stats);
    }
    // a chunk that ends in a top-level `return` (the block's last statement is no `Stmt`), sometimes with a filter
    // comment — global ones included, which are late here — right before it
    if g.r.chance(1, 4) {
        if g.r.chance(1, 2) {
            let c = if g.r.chance(1, 2) {
                format!("--# selene: {}({})", g.r.pick(&["allow", "deny", "warn"]), g.r.pick(LINTS))
            } else {
                gen_filter_comment(g.r, stats)
            };
            g.out.push_str(&c);
            g.out.push('\n');
            stats.bump("comment_before_top_level_return");
        }
        g.out.push_str(*g.r.pick(&["return\n", "return 1\n", "return undefined_at_end\n", "return 1 / 0\n"]));
        stats.bump("top_level_return");
    }
    if g.r.chance(1, 6) {
        let c = gen_filter_comment(g.r, stats);
        g.out.push_str(&c);
        g.out.push('\n');
        stats.bump("comment_at_eof");
    }
    g.out
}

/// filters for ONE lint at every level: an optional file-wide filter, then nested blocks each of which may
/// carry its own filter for the same lint, with a statement the lint reports before, inside and after each
/// level. The innermost enclosing filter decides (C08); which one that is only shows when several levels
/// name the same lint with different variations.
pub fn gen_nest_program(r: &mut Rng, stats: &mut Out) -> String {
    let (lint, trigger): (&str, fn(usize) -> String) = match r.below(5) {
        // a diagnostic that starts with the statement's first byte, on a statement that ends in `)`
        4 => ("undefined_variable", |i| format!("undefined_{i}()")),
        0 => ("unused_variable", |i| format!("local unused_{i} = {i}")),
        1 => ("divide_by_zero", |i| format!("print({i} / 0)")),
        2 => ("undefined_variable", |i| format!("print(undefined_{i})")),
        _ => ("empty_if", |i| format!("if cond_{i} == nil then end")),
    };
    let variations = ["allow", "deny", "warn"];
    let mut out = String::new();
    let mut counter = 0usize;
    if r.chance(3, 4) {
        out.push_str(&format!("--# selene: {}({lint})\n", r.pick(&variations)));
        stats.bump("nest_global_filter");
    }
    let depth = 1 + r.below(4);
    stats.bump(&format!("nest_depth_{depth}"));
    let mut closers: Vec<(String, String)> = Vec::new();
    for d in 0..depth {
        let pad = "  ".repeat(d);
        counter += 1;
        out.push_str(&format!("{pad}{}\n", trigger(counter)));
        if r.chance(4, 5) {
            out.push_str(&format!("{pad}-- selene: {}({lint})\n", r.pick(&variations)));
            stats.bump("nest_level_filter");
        }
        let (open, close) = match r.below(5) {
            0 => ("do".to_owned(), "end".to_owned()),
            1 => (format!("if level_{d} == nil then"), "end".to_owned()),
            2 => (format!("while level_{d} == nil do"), "end".to_owned()),
            3 => (format!("local function level_{d}()"), "end".to_owned()),
            _ => ("repeat".to_owned(), format!("until level_{d} == nil")),
        };
        out.push_str(&format!("{pad}{open}\n"));
        closers.push((pad, close));
    }
    let pad = "  ".repeat(depth);
    counter += 1;
    if r.chance(1, 2) {
        out.push_str(&format!("{pad}-- selene: {}({lint})\n", r.pick(&variations)));
        stats.bump("nest_level_filter");
    }
    // statements glued to each other (`f()g()`): the filtered node ends on the very byte the next one starts with
    let glued = trigger(0).ends_with(')') && r.chance(1, 2);
    if glued {
        stats.bump("nest_glued_statements");
    }
    out.push_str(&format!("{pad}{}{}", trigger(counter), if glued { "" } else { "\n" }));
    counter += 1;
    out.push_str(&format!("{}{}\n", if glued { "" } else { pad.as_str() }, trigger(counter)));
    while let Some((pad, close)) = closers.pop() {
        out.push_str(&format!("{pad}{close}\n"));
        counter += 1;
        out.push_str(&format!("{pad}{}\n", trigger(counter)));
    }
    out
}

pub fn comment_sx(tok: &full_moon::tokenizer::Token) -> Option<Sx> {
    let text = match tok.token_type() {
        TokenType::SingleLineComment { comment } => comment.to_string(),
        TokenType::MultiLineComment { comment, .. } => comment.to_string(),
        _ => return None,
    };
    Some(list(vec![
        num(tok.start_position().bytes()),
        num(tok.end_position().bytes()),
        list(text.lines().map(st).collect()),
    ]))
}

pub fn nodes_sx(ast: &full_moon::ast::Ast) -> Sx {
    let mut nodes: Vec<Sx> = Vec::new();
    verif_hooks::visit_nodes(ast, &mut |node: &dyn Node, ty: String| {
        let (s, e) = match node.range() {
            Some((a, b)) => (a.bytes(), b.bytes()),
            None => (0, 0),
        };
        let comments: Vec<Sx> = node.surrounding_trivia().0.iter().filter_map(|t| comment_sx(t)).collect();
        nodes.push(list(vec![boolean(ty == "VisitBlock"), num(s), num(e), list(comments), atom(ty)]));
    });
    list(nodes)
}

/// every comment that sits in the *leading* trivia of any token (incl. EOF): "a comment placed before" something
pub fn all_leading_comments_sx(ast: &full_moon::ast::Ast) -> Sx {
    let mut res: Vec<Sx> = Vec::new();
    let mut seen: std::collections::HashSet<usize> = std::collections::HashSet::new();
    let mut handle = |tr: &full_moon::tokenizer::TokenReference| {
        for t in tr.leading_trivia() {
            if let Some(c) = comment_sx(t) {
                if seen.insert(t.start_position().bytes()) {
                    res.push(list(vec![c, st(tr.token().to_string())]));
                }
            }
        }
    };
    for tr in ast.nodes().tokens() {
        handle(tr);
    }
    handle(ast.eof());
    list(res)
}

pub fn diag_sx(d: &CheckerDiagnostic) -> Sx {
    list(vec![
        st(d.diagnostic.code),
        num(d.diagnostic.primary_label.range.0),
        sev_sx(d.severity),
        st(format!("{}|{}", d.diagnostic.primary_label.range.1, d.diagnostic.message)),
    ])
}

pub fn failure_sx(d: &CheckerDiagnostic) -> Sx {
    let r = d.diagnostic.primary_label.range;
    let kind = if d.diagnostic.message.starts_with("no lint named") {
        let name = d.diagnostic.message.split('`').nth(1).unwrap_or("").to_owned();
        return tagged("unknown", vec![num(r.0), num(r.1), st(name)]);
    } else if d.diagnostic.message.starts_with("global filters must come") {
        "late"
    } else if d.diagnostic.message.starts_with("filter conflicts") {
        let s = &d.diagnostic.secondary_labels[0].range;
        return tagged("conflict", vec![num(r.0), num(r.1), num(s.0), num(s.1)]);
    } else {
        "other"
    };
    tagged(kind, vec![num(r.0), num(r.1)])
}

pub fn entries_sx(ast: &full_moon::ast::Ast) -> Sx {
    list(
        verif_hooks::filter_ranges(ast)
            .into_iter()
            .map(|e| match e {
                FilterRange::Accepted { global, lint, severity, comment_range, range } => tagged(
                    "ok",
                    vec![
                        boolean(global),
                        st(lint),
                        sev_sx(severity),
                        num(comment_range.0),
                        num(comment_range.1),
                        num(range.0),
                        num(range.1),
                    ],
                ),
                FilterRange::Rejected { comment_range, message } => tagged(
                    "rejected",
                    vec![num(comment_range.0), num(comment_range.1), st(message.split('`').nth(1).unwrap_or(""))],
                ),
            })
            .collect(),
    )
}

pub fn random_config(r: &mut Rng) -> (CheckerConfig<toml::value::Value>, Sx) {
    let mut lints = HashMap::new();
    let mut sx = Vec::new();
    for l in selene_lib::verif_all_lints() {
        let v = match r.below(6) {
            0 => Some(LintVariation::Allow),
            1 => Some(LintVariation::Warn),
            2 => Some(LintVariation::Deny),
            _ => None,
        };
        if let Some(v) = v {
            lints.insert(l.to_owned(), v);
            sx.push(list(vec![st(l), sev_sx(v.to_severity())]));
        }
    }
    (CheckerConfig { lints, ..CheckerConfig::default() }, list(sx))
}

pub fn run(args: &Args, out: &mut Out) {
    let mut rng = Rng::new(args.seed);
    let std = StandardLibrary::from_name("lua51").unwrap();
    let mut programs: Vec<String> = Vec::new();
    let mut n_corpus = 0usize;
    // corpus first
    if let Ok(rd) = std::fs::read_dir("/verif/corpus/C08") {
        let mut paths: Vec<_> = rd.filter_map(|e| e.ok()).map(|e| e.path()).collect();
        paths.sort();
        for p in paths {
            if let Ok(s) = std::fs::read_to_string(&p) {
                programs.push(s);
                n_corpus += 1;
                out.bump("corpus");
            }
        }
    }
    // the repo's own filtering fixtures
    for f in ["lint_filtering.lua", "just_comments.lua", "deny_allowed_in_config.lua", "manual_table_clone.lua"] {
        if let Ok(s) = std::fs::read_to_string(format!("/repo/selene-lib/tests/full_run/lint_filtering/{f}")) {
            programs.push(s);
            out.bump("fixture");
        }
    }
    for i in 0..args.n {
        let rate = [2, 4, 7][i % 3];
        programs.push(gen_program(&mut rng, out, rate));
        if i % 4 == 0 {
            programs.push(gen_nest_program(&mut rng, out));
        }
    }
    // every corpus program runs under a fixed family of configurations (generated ones under a random one each)
    let fixed_configs: Vec<Vec<(&str, LintVariation)>> = vec![
        vec![],
        vec![("invalid_lint_filter", LintVariation::Allow)],
        vec![("invalid_lint_filter", LintVariation::Warn)],
        vec![("unused_variable", LintVariation::Allow), ("invalid_lint_filter", LintVariation::Deny), ("empty_if", LintVariation::Deny)],
    ];
    let mut work: Vec<(String, Option<usize>)> = Vec::new();
    for (i, src) in programs.into_iter().enumerate() {
        if i < n_corpus {
            for k in 0..fixed_configs.len() {
                work.push((src.clone(), Some(k)));
            }
        } else {
            work.push((src, None));
        }
    }
    for (src, fixed) in work {
        let ast = match full_moon::parse(&src) {
            Ok(a) => a,
            Err(_) => {
                out.bump("generated_program_did_not_parse");
                continue;
            }
        };
        let (config, cfg_sx) = if let Some(k) = fixed {
            let mut lints = HashMap::new();
            let mut sx = Vec::new();
            for (l, v) in &fixed_configs[k] {
                lints.insert((*l).to_owned(), *v);
                sx.push(list(vec![st(*l), sev_sx(v.to_severity())]));
            }
            (CheckerConfig { lints, ..CheckerConfig::default() }, list(sx))
        } else if rng.chance(1, 2) {
            (CheckerConfig::default(), list(vec![]))
        } else {
            random_config(&mut rng)
        };
        let checker: Checker<toml::value::Value> = Checker::new(config, std.clone()).unwrap();
        let result = std::panic::catch_unwind(std::panic::AssertUnwindSafe(|| {
            let unfiltered = checker.verif_test_on_unfiltered(&ast);
            let filtered = checker.test_on(&ast);
            (unfiltered, filtered)
        }));
        // where the code of the file begins, taken from the token stream itself (the first token that is not trivia) —
        // not from selene's own `first_code`, so that an error there shows as a misjudged global filter
        let first_code = match first_code_independent(&ast) {
            Some(s) => num(s),
            None => atom("none"),
        };
        if verif_hooks::first_code(&ast).map(|(s, _)| s) != first_code_independent(&ast) {
            out.bump("selene_first_code_differs_from_first_token");
        }
        let input_common = |unf: Vec<Sx>| {
            list(vec![nodes_sx(&ast), first_code.clone(), list(unf), cfg_sx.clone(), sev_sx(checker.verif_invalid_lint_filter_severity()), st(&src), all_leading_comments_sx(&ast)])
        };
        match result {
            Err(_) => {
                out.case("C08.filter", &input_common(vec![]), &atom("panic"));
            }
            Ok((unfiltered, filtered)) => {
                let unf: Vec<Sx> = unfiltered.iter().map(diag_sx).collect();
                let (fails, lintd): (Vec<&CheckerDiagnostic>, Vec<&CheckerDiagnostic>) =
                    filtered.iter().partition(|d| d.diagnostic.code == "invalid_lint_filter");
                if !fails.is_empty() {
                    out.bump("program_with_invalid_filter");
                }
                if lintd.len() != unfiltered.len() {
                    out.bump("program_where_filtering_removed_something");
                }
                let imp = list(vec![
                    entries_sx(&ast),
                    list(lintd.iter().map(|d| diag_sx(d)).collect()),
                    list(fails.iter().map(|d| failure_sx(d)).collect()),
                    list(fails.iter().map(|d| sev_sx(d.severity)).collect()),
                ]);
                out.case("C08.filter", &input_common(unf), &imp);
            }
        }
    }
    run_dialects(out);
}

// ---- statements of the other dialects: a filter comment directly before ANY statement covers that statement ----------

/// (library, text before, the statement, text after, lint reported inside the statement)
const DIALECT_STMTS: &[(&str, &str, &str, &str, &str)] = &[
    ("lua52", "local x = 1\n", "goto done", "\ndo print(x) end\n::done::\n", ""),
    // the comment stands at the start of its line (full_moon attaches a comment that follows a token on the same line to
    // THAT token, as trailing trivia: such a comment is not "before" the next statement)
    ("lua52", "do\n  print(1)\n  ", "goto done", " end\n::done::\n", "multiple_statements"),
    ("lua52", "do\n  print(1)\n  ", "::first::", " end\ngoto first\n", "multiple_statements"),
    ("lua52", "::a::\ndo\n  goto a\n  ", "::b::", " end\n", "multiple_statements"),
    ("lua52", "", "local unused_a = 1", "\n::l:: goto l\n", "unused_variable"),
    ("lua52", "::top::\n", "if undefined_b then goto top end", "\n", "undefined_variable"),
    ("luau", "", "type function build()\n  local unused_c = 1\n  return nil\nend", "\n", "unused_variable"),
    ("luau", "", "export type function build()\n  local unused_d = 1\n  return nil\nend", "\n", "unused_variable"),
    ("luau", "local n = 1\n", "n += undefined_e", "\nprint(n)\n", "undefined_variable"),
    ("luau", "", "type Pair = { first: number, second: typeof(undefined_f) }", "\n", "undefined_variable"),
    ("luau", "for i = 1, 2 do\n  ", "if i == undefined_g then continue end", "\nend\n", "undefined_variable"),
    ("luau", "", "local unused_h: number = 1", "\n", "unused_variable"),
    ("lua51", "", "local unused_i = 1", "\n", "unused_variable"),
    ("lua51", "do\n  print(1)\n  ", "print(2)", " end\n", "multiple_statements"),
    // one statement per lint name: whatever the name looks like (digits, length), a filter naming it covers its diagnostics
    ("lua51", "local a, b = 1, 2\n", "a = b b = a", "\nprint(a, b)\n", "almost_swapped"),
    ("lua51", "", "print(\"\\q\")", "\n", "bad_string_escape"),
    ("lua51", "local x = 1\n", "print(x == 0/0)", "\n", "compare_nan"),
    ("lua51", "local x = 1\n", "print(x == {})", "\n", "constant_table_comparison"),
    ("lua51", "local x = {}\n", "print(table.getn(x))", "\n", "deprecated"),
    ("lua51", "", "print({ a = 1, a = 2 })", "\n", "duplicate_keys"),
    ("lua51", "local x = 1\n", "if x then end", "\n", "empty_if"),
    ("lua51", "local x = 1\n", "while x do end", "\n", "empty_loop"),
    ("lua51", "", "_G.some_field = 1", "\n", "global_usage"),
    ("lua51", "local x = 1\n", "if x then print(1) else print(1) end", "\n", "if_same_then_else"),
    ("lua51", "local x = 1\n", "if x then print(1) elseif x then print(2) end", "\n", "ifs_same_cond"),
    ("lua51", "", "print(math.floor())", "\n", "incorrect_standard_library_use"),
    ("lua51", "local function f(a) return a end\n", "f(1, 2)", "\n", "mismatched_arg_count"),
    ("lua51", "", "print({ 1, a = 2 })", "\n", "mixed_table"),
    ("lua51", "local co = nil\n", "coroutine.status(co)", "\n", "must_use"),
    ("lua51", "local x = 1\n", "if (x) then print(1) end", "\n", "parenthese_conditions"),
    ("lua51", "local x = 1\nprint(x)\n", "local x = 2", "\nprint(x)\n", "shadowing"),
    ("lua51", "local x = {}\n", "for i = #x, 1 do print(i) end", "\n", "suspicious_reverse_loop"),
    ("lua51", "local x = 1\n", "print(type(x == \"a\"))", "\n", "type_check_inside_call"),
    ("lua51", "", "local p, q = 1, 2, 3", "\nprint(p, q)\n", "unbalanced_assignments"),
    ("lua51", "", "print(undefined_j)", "\n", "undefined_variable"),
    ("lua51", "", "unscoped_k = 1", "\n", "unscoped_variables"),
    ("luau", "local src = {}\n", "local t = {}", "\nfor k, v in pairs(src) do t[k] = v end\nprint(t)\n", "manual_table_clone"),
    ("roblox+", "", "local c = Color3.new(255, 0, 0)", "\nprint(c)\n", "roblox_incorrect_color3_new_bounds"),
    ("roblox+", "", "local e = Roact.createElement(\"Frame\", { Bogus = 1 })", "\nprint(e)\n", "roblox_incorrect_roact_usage"),
    ("roblox+", "", "local u = UDim2.new(1, 0, 1, 0)", "\nprint(u)\n", "roblox_manual_fromscale_or_fromoffset"),
    ("roblox+", "", "local u = UDim2.new(1, 1)", "\nprint(u)\n", "roblox_suspicious_udim2_new"),
];

fn canon_diag(d: &CheckerDiagnostic, shift_from: usize, shift: i64) -> String {
    let mv = |p: u32| -> i64 { if (p as usize) >= shift_from { p as i64 + shift } else { p as i64 } };
    format!("{}|{}..{}|{:?}|{}", d.diagnostic.code, mv(d.diagnostic.primary_label.range.0), mv(d.diagnostic.primary_label.range.1), d.severity, d.diagnostic.message)
}

/// the same program without and with `--[[ selene: V(L) ]]` directly before one statement: exactly the diagnostics of L that
/// start inside that statement change (removed / re-labelled), whatever kind of statement it is and whatever the dialect
pub fn run_dialects(out: &mut Out) {
    for (libname, before, stmt, after, lint) in DIALECT_STMTS {
        let lib = if *libname == "roblox+" {
            // the Roblox base library under the name the Roblox-only lints test for, with a class table and the element constructors
            let mut extra: StandardLibrary = serde_yaml::from_str(
                "name: roblox\nglobals:\n  Roact.createElement:\n    args:\n      - type: any\n      - type: any\n        required: false\nroblox_classes:\n  Frame:\n    superclass: Instance\n    properties: []\n    events: []\n  Instance:\n    superclass: \"<<<ROOT>>>\"\n    properties:\n      - Name\n    events: []\n",
            )
            .unwrap();
            extra.extend(StandardLibrary::roblox_base());
            extra
        } else {
            match StandardLibrary::from_name(libname) {
                Some(l) => l,
                None => continue,
            }
        };
        let (version, _) = lib.lua_version();
        let checker: Checker<toml::value::Value> = Checker::new(CheckerConfig::default(), lib).unwrap();
        let plain = format!("{before}{stmt}{after}");
        let lints: Vec<&str> = if lint.is_empty() { vec!["unused_variable"] } else { vec![lint, "divide_by_zero"] };
        for l in lints {
            for variation in ["allow", "deny"] {
                let comment = format!("--[[ selene: {variation}({l}) ]] ");
                let filtered = format!("{before}{comment}{stmt}{after}");
                let run = |src: &str| -> Option<Vec<CheckerDiagnostic>> {
                    let ast = std::panic::catch_unwind(|| full_moon::parse_fallible(src, version).into_result()).ok()?.ok()?;
                    std::panic::catch_unwind(std::panic::AssertUnwindSafe(|| checker.test_on(&ast))).ok()
                };
                let (a, b) = match (run(&plain), run(&filtered)) {
                    (Some(a), Some(b)) => (a, b),
                    _ => {
                        out.bump("dialect_template_did_not_parse_or_panicked");
                        continue;
                    }
                };
                let (s0, s1) = (before.len(), before.len() + stmt.len());
                let mut expected: Vec<String> = Vec::new();
                for d in &a {
                    let start = d.diagnostic.primary_label.range.0 as usize;
                    let inside = d.diagnostic.code == l && start >= s0 && start < s1;
                    if inside && variation == "allow" {
                        continue;
                    }
                    let mut c = canon_diag(d, s0, comment.len() as i64);
                    if inside {
                        c = c.replace(&format!("|{:?}|", d.severity), "|Error|");
                    }
                    expected.push(c);
                }
                expected.sort();
                let mut got: Vec<String> = b.iter().map(|d| canon_diag(d, 0, 0)).collect();
                got.sort();
                if a.iter().any(|d| d.diagnostic.code == l && (d.diagnostic.primary_label.range.0 as usize) >= s0 && (d.diagnostic.primary_label.range.0 as usize) < s1) {
                    out.bump("dialect_filter_covers_a_diagnostic");
                }
                out.case(
                    "C08.direct",
                    &list(vec![st(*libname), st(*stmt), st(l), st(variation), st(&filtered)]),
                    &list(vec![list(got.iter().map(st).collect()), list(expected.iter().map(st).collect())]),
                );
            }
        }
    }
}

/// C10: the same program under several severity assignments
pub fn run_c10(args: &Args, out: &mut Out) {
    let mut rng = Rng::new(args.seed ^ 0xC10);
    let std = StandardLibrary::from_name("lua51").unwrap();
    // the filter corpus first (under fixed assignments that include `invalid_lint_filter = allow`), then generated programs
    let mut corpus: Vec<String> = Vec::new();
    if let Ok(rd) = std::fs::read_dir("/verif/corpus/C08") {
        let mut paths: Vec<_> = rd.filter_map(|e| e.ok()).map(|e| e.path()).collect();
        paths.sort();
        for p in paths {
            if let Ok(s) = std::fs::read_to_string(&p) {
                corpus.push(s);
                out.bump("corpus");
            }
        }
    }
    let n_corpus = corpus.len();
    for i in 0..n_corpus + args.n {
        let is_corpus = i < n_corpus;
        let src = if is_corpus {
            corpus[i].clone()
        } else if i % 5 == 4 {
            gen_nest_program(&mut rng, out)
        } else {
            gen_program(&mut rng, out, [0, 2, 5][i % 3])
        };
        let ast = match full_moon::parse(&src) {
            Ok(a) => a,
            Err(_) => continue,
        };
        let mut runs: Vec<Sx> = Vec::new();
        // the same non-default lint options under every severity assignment: what a lint finds is a matter of its options,
        // never of the severity it is configured with (an allowed lint still runs, and an inline filter may re-enable it)
        let mut options: HashMap<String, toml::value::Value> = HashMap::new();
        let mut opt = |lint: &str, key: &str, v: toml::value::Value, r: &mut Rng| {
            if r.chance(1, 2) {
                let mut t = toml::value::Table::new();
                t.insert(key.to_owned(), v);
                options.insert(lint.to_owned(), toml::value::Value::Table(t));
            }
        };
        opt("unused_variable", "ignore_pattern", toml::value::Value::String("^a".to_owned()), &mut rng);
        opt("shadowing", "ignore_pattern", toml::value::Value::String("^b".to_owned()), &mut rng);
        opt("high_cyclomatic_complexity", "maximum_complexity", toml::value::Value::Integer(1), &mut rng);
        opt("empty_if", "comments_count", toml::value::Value::Boolean(true), &mut rng);
        opt("empty_loop", "comments_count", toml::value::Value::Boolean(true), &mut rng);
        opt("unscoped_variables", "ignore_pattern", toml::value::Value::String("^c".to_owned()), &mut rng);
        if !options.is_empty() {
            out.bump("program_with_lint_options");
        }
        for k in 0..4 {
            let fixed = |pairs: &[(&str, LintVariation)]| -> (CheckerConfig<toml::value::Value>, Sx) {
                let mut lints = HashMap::new();
                let mut sx = Vec::new();
                for (l, v) in pairs {
                    lints.insert((*l).to_owned(), *v);
                    sx.push(list(vec![st(*l), sev_sx(v.to_severity())]));
                }
                (CheckerConfig { lints, ..CheckerConfig::default() }, list(sx))
            };
            let (config, cfg_sx) = if k == 0 {
                (CheckerConfig::default(), list(vec![]))
            } else if is_corpus && k == 1 {
                fixed(&[("invalid_lint_filter", LintVariation::Allow)])
            } else if is_corpus && k == 2 {
                fixed(&[("invalid_lint_filter", LintVariation::Allow), ("unused_variable", LintVariation::Deny), ("undefined_variable", LintVariation::Warn)])
            } else {
                random_config(&mut rng)
            };
            let config = CheckerConfig { config: options.clone(), ..config };
            let checker: Checker<toml::value::Value> = Checker::new(config, std.clone()).unwrap();
            let unf = checker.verif_test_on_unfiltered(&ast);
            let filtered = checker.test_on(&ast);
            runs.push(list(vec![
                cfg_sx,
                list(unf.iter().map(diag_sx).collect()),
                list(filtered.iter().filter(|d| d.diagnostic.code != "invalid_lint_filter").map(|d| diag_sx(d)).collect()),
            ]));
        }
        out.case("C10.same", &list(vec![list(runs), nodes_sx(&ast), match first_code_independent(&ast) { Some(s) => num(s), None => atom("none") }, st(&src)]), &atom("ok"));
    }
}
