//! C12: determinism — one shared checker driven by shuffled sequences and by threads, compared with
//! fresh single runs; repeated lookups through one library instance (the lazily built tree).
use crate::libgen::*;
use crate::rng::Rng;
use crate::scope::programs;
use crate::sx::*;
use crate::{Args, Out};
use selene_lib::standard_library::StandardLibrary;
use selene_lib::{Checker, CheckerConfig, CheckerDiagnostic};
use std::sync::Arc;

/// everything a consumer can observe, in the order the checker returned it
pub fn exact(d: &CheckerDiagnostic) -> String {
    let sec: Vec<String> = d
        .diagnostic
        .secondary_labels
        .iter()
        .map(|l| format!("{}-{}:{}", l.range.0, l.range.1, l.message.as_deref().unwrap_or("")))
        .collect();
    format!(
        "{}|{}-{}|{:?}|{}|[{}]|[{}]",
        d.diagnostic.code,
        d.diagnostic.primary_label.range.0,
        d.diagnostic.primary_label.range.1,
        d.severity,
        d.diagnostic.message,
        sec.join(";"),
        d.diagnostic.notes.join(";")
    )
}

fn lint(checker: &Checker<toml::value::Value>, src: &str) -> Option<Vec<String>> {
    let ast = full_moon::parse(src).ok()?;
    let diags = std::panic::catch_unwind(std::panic::AssertUnwindSafe(|| checker.test_on(&ast))).ok()?;
    Some(diags.iter().map(exact).collect())
}

const MULTI_DEF: &str = "local function foo(a) end\nfoo = function(a, b) end\nfoo = function() end\nfunction foo(a, b, c) end\nlocal bar = foo\nfoo(1, 2, 3, 4, 5)\nfoo(1, 2, 3, 4, 5, 6)\nlocal t = { a = 1, a = 2, a = 3, b = 1, b = 2 }\nprint(t, bar, undefined_one, undefined_two, undefined_one)\n";

const CUSTOM_LIB: &str = "globals:\n  oldfn:\n    args:\n      - type: any\n        required: false\n    deprecated:\n      message: old\n      replace:\n        - newfn(%1)\n  oldvalue:\n    property: read-only\n    deprecated:\n      message: gone\n  depr_param:\n    args:\n      - type: any\n        required: false\n      - type: any\n        required: false\n        deprecated:\n          message: no more\n  depr_first:\n    args:\n      - type: any\n        required: false\n        deprecated:\n          message: first is gone\n      - type: number\n        required: false\n  pure2:\n    must_use: true\n    args:\n      - type: any\n        required: false\n      - type: any\n        required: false\n  choose:\n    args:\n      - type:\n          - left\n          - right\n      - type: string\n        required: false\n  lib.oldfield:\n    property: read-only\n    deprecated:\n      message: gone\n  lib.newfield:\n    property: new-fields\n";

/// (callee, nominal number of arguments)
const FAMILY_CALLEES: &[(&str, usize)] = &[
    ("oldfn", 1), ("depr_param", 2), ("depr_param", 1), ("depr_first", 2), ("pure2", 2), ("choose", 2), ("choose", 1),
    ("math.floor", 1), ("table.insert", 2), ("table.insert", 3), ("string.format", 2), ("tostring", 1), ("table.getn", 1),
    ("math.max", 2), ("select", 2), ("collectgarbage", 1),
];
const FAMILY_ARGS: &[&str] = &["nil", "1", "\"left\"", "\"up\"", "\"count\"", "x", "t", "{}", "x()", "...", "true", "(nil)", "\"%d\""];

pub fn run(args: &Args, out: &mut Out) {
    let mut rng = Rng::new(args.seed ^ 0xC12);
    // lua51 plus entries that exercise every library-driven lint (deprecated functions / fields / parameters,
    // must_use, constants, structs): state remembered across files would have to be keyed on all of it
    let base51 = StandardLibrary::from_name("lua51").unwrap();
    let mut std51: StandardLibrary = serde_yaml::from_str(CUSTOM_LIB).unwrap();
    std51.extend(base51);
    let mut progs: Vec<(String, String)> = vec![("multi-definition".to_owned(), MULTI_DEF.to_owned())];
    // families of small files that use the same library names with the same shapes but different contents
    let nfam = if args.tier == "thorough" { 160 } else { 48 };
    for k in 0..nfam {
        let mut src = String::from("local x, t = 1, {}\n");
        for _ in 0..1 + rng.below(3) {
            let (callee, arity) = *rng.pick(FAMILY_CALLEES);
            let argc = if rng.chance(1, 4) { rng.below(arity + 2) } else { arity };
            let argv: Vec<&str> = (0..argc).map(|_| *rng.pick(FAMILY_ARGS)).collect();
            match rng.below(3) {
                0 => src.push_str(&format!("{callee}({})\n", argv.join(", "))),
                1 => src.push_str(&format!("local _v = {callee}({})\n", argv.join(", "))),
                _ => src.push_str(&format!("if {callee}({}) then end\n", argv.join(", "))),
            }
        }
        if rng.chance(1, 3) {
            src.push_str(*rng.pick(&["local _f = lib.oldfield\n", "local _g = oldvalue\n", "lib.newfield = 1\n", "local _h = lib.nope\n"]));
        }
        out.bump("family_program");
        progs.push((format!("family-{k}"), src));
    }
    // systematic pairs: the same call with `nil` and with a value at each argument position, in separate files
    for (ci, (callee, arity)) in FAMILY_CALLEES.iter().enumerate() {
        for p in 0..*arity {
            for (vi, v) in ["nil", "1", "\"left\"", "x"].iter().enumerate() {
                let argv: Vec<&str> = (0..*arity).map(|k| if k == p { *v } else { *rng.pick(&["x", "1", "t"]) }).collect();
                out.bump("pair_program");
                progs.push((format!("pair-{ci}-{p}-{vi}"), format!("local x, t = 1, {{}}\nlocal _v = {callee}({})\n", argv.join(", "))));
            }
        }
    }
    progs.extend(programs(args, out, &mut rng, "/verif/corpus/c12"));
    let progs: Vec<(String, String)> = progs.into_iter().filter(|(_, s)| full_moon::parse(s).is_ok()).collect();
    // two setups: the default configuration; and a configuration that names every built-in library in `std` while the
    // effective library is an outdated copy lacking some of their names (the "you may have an outdated copy" advice of
    // undefined_variable / incorrect_standard_library_use is produced only then)
    let all_names: Vec<String> = {
        let mut v: Vec<String> = StandardLibrary::all_default_standard_libraries().keys().map(|k| (*k).to_owned()).collect();
        v.push("roblox".to_owned());
        v.sort();
        v
    };
    let mut stale = std51.clone();
    for k in ["tostring", "math.floor", "table.insert", "select", "string.format"] {
        stale.globals.remove(k);
    }
    for (label, lib, std_setting) in [("", std51.clone(), None), ("stale-copy:", stale, Some(all_names.join("+")))] {
        let mk_config = || CheckerConfig::<toml::value::Value> { std: std_setting.clone(), ..CheckerConfig::default() };
        // reference: a fresh checker per program
        let fresh: Vec<Option<Vec<String>>> = progs
            .iter()
            .map(|(_, src)| {
                // … on a thread of its own: whatever a lint keeps per thread starts empty
                let c: Checker<toml::value::Value> = Checker::new(mk_config(), lib.clone()).unwrap();
                let src = src.clone();
                std::thread::spawn(move || lint(&c, &src)).join().unwrap_or(None)
            })
            .collect();
        let shared: Arc<Checker<toml::value::Value>> = Arc::new(Checker::new(mk_config(), lib.clone()).unwrap());
        let mut verdict: Vec<Vec<String>> = vec![Vec::new(); progs.len()];
        // (a) repeated and shuffled sequences through the shared checker
        for round in 0..3 {
            let mut order: Vec<usize> = (0..progs.len()).collect();
            for i in (1..order.len()).rev() {
                let j = rng.below(i + 1);
                order.swap(i, j);
            }
            for i in order {
                let r = lint(&shared, &progs[i].1);
                if r != fresh[i] {
                    verdict[i].push(format!("shared checker, round {round}: differs from a fresh single run"));
                }
            }
        }
        // (b) the same program twice in a row
        for i in 0..progs.len() {
            let a = lint(&shared, &progs[i].1);
            let b = lint(&shared, &progs[i].1);
            if a != b {
                verdict[i].push("two consecutive runs in one process differ".to_owned());
            }
        }
        // (c) eight threads over one Arc<Checker>
        let progs_arc = Arc::new(progs.clone());
        let fresh_arc = Arc::new(fresh.clone());
        let mut handles = Vec::new();
        for t in 0..8u64 {
            let shared = Arc::clone(&shared);
            let progs = Arc::clone(&progs_arc);
            let fresh = Arc::clone(&fresh_arc);
            let seed = args.seed ^ (t + 1) * 7919;
            handles.push(std::thread::spawn(move || {
                let mut r = Rng::new(seed);
                let mut bad: Vec<usize> = Vec::new();
                let mut order: Vec<usize> = (0..progs.len()).collect();
                for i in (1..order.len()).rev() {
                    let j = r.below(i + 1);
                    order.swap(i, j);
                }
                for i in order {
                    if lint(&shared, &progs[i].1) != fresh[i] {
                        bad.push(i);
                    }
                }
                bad
            }));
        }
        for h in handles {
            if let Ok(bad) = h.join() {
                for i in bad {
                    verdict[i].push("run on a worker thread sharing the checker differs from a fresh single run".to_owned());
                }
            }
        }
        for (i, (origin, src)) in progs.iter().enumerate() {
            let n = fresh[i].as_ref().map(|v| v.len()).unwrap_or(0);
            out.case(
                "C12.same",
                &list(vec![st(format!("{label}{origin}")), num(n), st(if src.len() < 1500 { src.as_str() } else { "(long)" })]),
                &list(verdict[i].iter().map(st).collect()),
            );
        }

    }
    // (d) lookups through one library instance: the tree cache is built by the first query
    let gen = LibGen { max_depth: 3, max_keys: 6, allow_removed: false, ..LibGen::default() };
    let names = ["a", "b", "c", "d", "*"];
    for _ in 0..args.n {
        let lib = gen.gen_lib(&mut rng);
        let nq = 2 + rng.below(8);
        let queries: Vec<Vec<String>> = (0..nq)
            .map(|_| (0..1 + rng.below(4)).map(|_| (*rng.pick(&names)).to_owned()).collect())
            .collect();
        // every query goes through the SAME library value (one OnceCell)
        let results: Vec<Sx> = queries
            .iter()
            .map(|q| match std::panic::catch_unwind(std::panic::AssertUnwindSafe(|| lib.find_global(q).cloned())) {
                Ok(Some(f)) => tagged("found", vec![field_sx(&f)]),
                Ok(None) => atom("absent"),
                Err(_) => atom("panic"),
            })
            .collect();
        out.case(
            "C12.history",
            &list(vec![lib_sx(&lib), list(queries.iter().map(|q| crate::c06::path_sx(q)).collect())]),
            &list(results),
        );
    }
}
