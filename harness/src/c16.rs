//! C16: `StandardLibrary::lua_version()` and the dialect-construct acceptance matrix.
use crate::libgen::*;
use crate::rng::Rng;
use crate::sx::*;
use crate::{Args, Out};
use selene_lib::standard_library::*;

pub fn dialects_sx(v: full_moon::LuaVersion) -> Sx {
    tagged(
        "dialects",
        vec![
            boolean(v.has_luau()),
            boolean(v.has_lua52()),
            boolean(v.has_lua53()),
            boolean(v.has_lua54()),
            boolean(v.has_luajit()),
        ],
    )
}

fn version_result(lib: &StandardLibrary) -> Sx {
    let (v, errors) = lib.lua_version();
    let errs: Vec<Sx> = errors
        .iter()
        .map(|e| match e {
            LuaVersionError::Unknown(s) => st(*s),
            LuaVersionError::FeatureNotEnabled(s) => tagged("feature-not-enabled", vec![st(*s)]),
        })
        .collect();
    list(vec![dialects_sx(v), list(errs)])
}

pub const CONSTRUCTS: &[(&str, &str)] = &[
    ("goto_", "goto top"),
    ("label", "::top::"),
    ("intDiv", "local x = 7 // 2"),
    ("bitwise", "local x = a & 3"),
    ("bitwise", "local x = a | 3"),
    ("bitwise", "local x = a << 3"),
    ("bitwise", "local x = ~a"),
    ("attrib", "local x <const> = 1"),
    ("luauType", "local x: number = 1"),
    ("luauType", "type T = { a: number }"),
    ("compoundAssign", "x += 1"),
    ("interpString", "local s = `a{1}b`"),
    ("continue_", "while true do continue end"),
    ("luajitLiteral", "local x = 1LL"),
    ("luajitLiteral", "local x = 2ULL"),
    ("luauIfExpr", "local x = if a then 1 else 2"),
    ("floorDivAssign", "x //= 2"),
    ("plain51", "local x = a % 3"),
    ("plain51", "for i = 1, 2 do print(i) end"),
];

const CONTEXTS: &[(&str, &str)] = &[
    ("", ""),
    ("do ", " end"),
    ("local function f(a, x)\n  ", "\nend"),
    ("if a then\n", "\nelse x = 1 end"),
    ("local a, x = 1, 2\nwhile a do\n  ", "\n  break end"),
    ("return function(...)\n", "\nend"),
];

fn parse_outcome(src: &str, v: full_moon::LuaVersion) -> &'static str {
    let src = src.to_owned();
    match std::panic::catch_unwind(move || full_moon::parse_fallible(&src, v).into_result().is_ok()) {
        Ok(true) => "accepted",
        Ok(false) => "rejected",
        Err(_) => "panic",
    }
}

pub fn run(args: &Args, out: &mut Out) {
    let mut rng = Rng::new(args.seed);
    // built-ins
    for name in ["lua51", "lua52", "lua53", "luau"] {
        let lib = StandardLibrary::from_name(name).unwrap();
        out.case("C16.builtin", &st(name), &version_result(&lib));
    }
    out.case("C16.builtin", &st("roblox_base"), &version_result(&StandardLibrary::roblox_base()));

    // every subset / order of declared versions, with unknown names mixed in
    let all = [
        LuaVersion::Lua51,
        LuaVersion::Lua52,
        LuaVersion::Lua53,
        LuaVersion::Lua54,
        LuaVersion::Luau,
        LuaVersion::LuaJIT,
        LuaVersion::Unknown("lua55".to_owned()),
        LuaVersion::Unknown("".to_owned()),
    ];
    let mut version_lists: Vec<Vec<LuaVersion>> = Vec::new();
    for mask in 0u32..64 {
        version_lists.push((0..6).filter(|i| mask & (1 << i) != 0).map(|i| all[i].clone()).collect());
    }
    for _ in 0..args.n {
        let n = rng.below(5);
        version_lists.push((0..n).map(|_| rng.pick(&all).clone()).collect());
    }
    for vs in &version_lists {
        let mut lib = StandardLibrary::default();
        lib.lua_versions = vs.clone();
        out.case("C16.version", &list(vs.iter().map(version_sx).collect()), &version_result(&lib));
    }

    // base chains over an exhaustive small set of declared-version lists
    let small: Vec<Vec<LuaVersion>> = vec![
        vec![],
        vec![LuaVersion::Lua51],
        vec![LuaVersion::Lua52],
        vec![LuaVersion::Luau],
        vec![LuaVersion::Lua51, LuaVersion::Lua53],
        vec![LuaVersion::Unknown("lua55".to_owned())],
    ];
    for a in &small {
        for b in &small {
            for c in &small {
                let mk = |vs: &Vec<LuaVersion>| {
                    let mut l = StandardLibrary::default();
                    l.lua_versions = vs.clone();
                    l
                };
                let mut inner = mk(b);
                inner.extend(mk(c));
                let mut outer = mk(a);
                outer.extend(inner);
                out.case(
                    "C16.chain",
                    &list([a, b, c].iter().map(|vs| list(vs.iter().map(version_sx).collect())).collect()),
                    &version_result(&outer),
                );
            }
        }
    }

    // base chains: the effective library's dialects (extend, then lua_version)
    let gen = LibGen { max_depth: 1, max_keys: 2, ..LibGen::default() };
    for _ in 0..args.n {
        let len = 1 + rng.below(4);
        let libs: Vec<StandardLibrary> = (0..len).map(|_| gen.gen_lib(&mut rng)).collect();
        let mut acc = libs[len - 1].clone();
        for l in libs[..len - 1].iter().rev() {
            let mut d = l.clone();
            d.extend(acc);
            acc = d;
        }
        out.case(
            "C16.chain",
            &list(libs.iter().map(|l| list(l.lua_versions.iter().map(version_sx).collect())).collect()),
            &version_result(&acc),
        );
    }

    // construct matrix × version subsets × embedding contexts
    let subsets: Vec<Vec<LuaVersion>> = if args.tier == "thorough" {
        version_lists[..64].to_vec()
    } else {
        let mut s: Vec<Vec<LuaVersion>> = (0..6).map(|i| vec![all[i].clone()]).collect();
        s.push(vec![]);
        for _ in 0..6 {
            s.push(version_lists[rng.below(64)].clone());
        }
        s
    };
    for vs in &subsets {
        let mut lib = StandardLibrary::default();
        lib.lua_versions = vs.clone();
        let (v, _) = lib.lua_version();
        for (kind, code) in CONSTRUCTS {
            let contexts: Vec<&(&str, &str)> = if args.tier == "thorough" {
                CONTEXTS.iter().collect()
            } else {
                vec![&CONTEXTS[0], rng.pick(CONTEXTS)]
            };
            for (pre, post) in contexts {
                let src = format!("{pre}{code}{post}\n");
                let outcome = parse_outcome(&src, v);
                out.bump(&format!("parse_{outcome}"));
                out.case(
                    "C16.accept",
                    &list(vec![list(vs.iter().map(version_sx).collect()), atom(*kind), st(&src)]),
                    &atom(outcome),
                );
            }
        }
    }
}
