//! C15: `StandardLibrary::extend`, built-in base chains.
use crate::libgen::*;
use crate::rng::Rng;
use crate::sx::*;
use crate::{Args, Out};
use selene_lib::standard_library::*;

fn raw_builtin(name: &str) -> Option<StandardLibrary> {
    let path = format!("/repo/selene-lib/default_std/{name}.yml");
    let text = std::fs::read_to_string(path).ok()?;
    serde_yaml::from_str(&text).ok()
}

pub fn run(args: &Args, out: &mut Out) {
    let mut rng = Rng::new(args.seed);

    // shipped chains: raw YAML of every ancestor vs the effective library the code builds
    for name in ["lua51", "lua52", "lua53", "luau"] {
        let mut chain = Vec::new();
        let mut cur = Some(name.to_owned());
        while let Some(n) = cur {
            let lib = raw_builtin(&n).expect("builtin yml");
            cur = lib.base.clone();
            chain.push(lib);
        }
        let effective = StandardLibrary::from_name(name).unwrap();
        out.case(
            "C15.chain",
            &list(chain.iter().map(lib_sx).collect()),
            &lib_sx(&effective),
        );
        out.bump("builtin_chain");
    }
    {
        // roblox_base is only reachable through its own constructor
        let mut chain = Vec::new();
        let mut cur = Some("roblox_base".to_owned());
        while let Some(n) = cur {
            let lib = raw_builtin(&n).expect("builtin yml");
            cur = lib.base.clone();
            chain.push(lib);
        }
        let effective = StandardLibrary::roblox_base();
        out.case("C15.chain", &list(chain.iter().map(lib_sx).collect()), &lib_sx(&effective));
        out.bump("builtin_chain");
    }

    // lua_versions: every pair from a small exhaustive set (explicit lua51, unknown names, multi)
    let version_sets: Vec<Vec<LuaVersion>> = vec![
        vec![],
        vec![LuaVersion::Lua51],
        vec![LuaVersion::Lua52],
        vec![LuaVersion::Luau],
        vec![LuaVersion::Lua51, LuaVersion::Lua53],
        vec![LuaVersion::Unknown("lua55".to_owned())],
        vec![LuaVersion::LuaJIT, LuaVersion::Lua51],
    ];
    for dv in &version_sets {
        for bv in &version_sets {
            let mut d = StandardLibrary::default();
            d.lua_versions = dv.clone();
            let mut b = StandardLibrary::default();
            b.lua_versions = bv.clone();
            let mut merged = d.clone();
            merged.extend(b.clone());
            out.case("C15.extend", &list(vec![lib_sx(&d), lib_sx(&b)]), &lib_sx(&merged));
            out.bump("version_pair_exhaustive");
            for cv in &version_sets {
                let mut c = StandardLibrary::default();
                c.lua_versions = cv.clone();
                // d based on b based on c
                let mut inner = b.clone();
                inner.extend(c.clone());
                let mut outer = d.clone();
                outer.extend(inner);
                out.case("C15.chain", &list(vec![lib_sx(&d), lib_sx(&b), lib_sx(&c)]), &lib_sx(&outer));
            }
        }
    }

    // generated pairs over a small shared key space
    let gen = LibGen { max_depth: 2, max_keys: 5, segments: vec!["a", "b", "c", "*"], ..LibGen::default() };
    for _ in 0..args.n {
        let d = gen.gen_lib(&mut rng);
        let b = gen.gen_lib(&mut rng);
        let mut merged = d.clone();
        merged.extend(b.clone());
        let overlap = d.globals.keys().filter(|k| b.globals.contains_key(*k)).count();
        if overlap > 0 {
            out.bump("pair_with_shared_key");
        }
        if d.globals.values().any(|f| f.field_kind == FieldKind::Removed) {
            out.bump("pair_derived_has_removed");
        }
        if !d.lua_versions.is_empty() && !b.lua_versions.is_empty() {
            out.bump("pair_both_have_versions");
        }
        out.case("C15.extend", &list(vec![lib_sx(&d), lib_sx(&b)]), &lib_sx(&merged));
    }

    // generated chains of length 2..4 (right-nested, as the base recursion does) and `+` folds
    for _ in 0..args.n / 2 {
        let len = 2 + rng.below(3);
        let libs: Vec<StandardLibrary> = (0..len).map(|_| gen.gen_lib(&mut rng)).collect();
        // right-nested
        let mut acc = libs[len - 1].clone();
        for l in libs[..len - 1].iter().rev() {
            let mut d = l.clone();
            d.extend(acc);
            acc = d;
        }
        out.case("C15.chain", &list(libs.iter().map(lib_sx).collect()), &lib_sx(&acc));
        out.bump(&format!("chain_len_{len}"));
        // left fold (`a+b+c`)
        let mut acc = libs[0].clone();
        for l in &libs[1..] {
            acc.extend(l.clone());
        }
        out.case("C15.plus", &list(libs.iter().map(lib_sx).collect()), &lib_sx(&acc));
    }
}
