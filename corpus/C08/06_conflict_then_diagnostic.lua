-- selene: allow(unused_variable)
-- selene: warn(unused_variable)
local never_used = 1
-- selene: deny(empty_if, empty_if)
if never_used then
end
