-- nothing in this file is diagnosed by any lint: only the misplaced file-wide filter is
local value = 1
--# selene: allow(unused_variable)
print(value)
