--# selene: allow(invalid_lint_filter)
local value = 1
do
    -- selene: allow(invalid_lint_filter)
    do
        -- selene: allow(not_a_lint_at_all)
        print(value)
        --# selene: deny(unused_variable)
        print(value)
    end
end
