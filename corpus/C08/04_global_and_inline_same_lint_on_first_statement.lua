--# selene: allow(unused_variable)
-- selene: deny(unused_variable)
local first = 1
local second = 2
