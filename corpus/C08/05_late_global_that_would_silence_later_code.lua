local used = 1
print(used)
--# selene: allow(unused_variable)
local never_used = 2
--# selene: allow(undefined_variable)
print(not_defined_anywhere)
