local value = 1
-- selene: allow(not_a_lint_at_all)
print(value)
