-- selene: allow(empty_if)
-- selene: deny(empty_if)
local value = 1
print(value)
