-- calls spread over several lines, one argument per line, at several indentations: what a lint reads as the text of
-- an argument is the argument, not the blanks in front of it
local shade = Color3.new(
255,
    0,
	0.5
)
local dim = UDim2.new(
        1,
    0,
1,
            0
)
local off = UDim2.new(
0,
  5,
    0,
      5
)
depr_param(
    nil,
  shade
)
depr_param(
nil
)
oldfn(
      dim,
  off
)
if type(
  shade ==
    "string"
) then
end
local t = {
      a = 1,
  a = 2,
}
return shade, dim, off, t
