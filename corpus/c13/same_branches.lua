-- branches that repeat each other token for token, each of several statements on several lines
local function report(value, retries)
    if value then
        retries = retries + 1
        print(value, retries)
    elseif retries > 3 then
        print(retries)
    else
        retries = retries + 1
        print(value, retries)
    end
    if retries then
        print(value,
            retries)
        return value
    elseif value then
        print(value,
            retries)
        return value
    end
end

report(true, 0)
