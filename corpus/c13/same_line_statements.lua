-- two statements on one line: what follows a filtered piece of code on the same line is outside the filter, however
-- close it stands (`f() g()` and `f()g()` are the same two statements)
local t = {}
-- selene: allow(undefined_variable)
setup_a() teardown_a()
-- selene: allow(undefined_variable)
t.x = {} teardown_b()
-- selene: allow(undefined_variable)
print "x" teardown_c()
-- selene: deny(undefined_variable)
local u = setup_d() local v = teardown_d()
do
  -- selene: allow(unused_variable)
  local unused_e = 1 local unused_f = 2
end
-- selene: allow(divide_by_zero)
print(1 / 0) print(2 / 0)
-- selene: warn(empty_if)
if t then end if u then end
-- selene: allow(undefined_variable, multiple_statements)
first_g() ; second_g()
return t, u, v
