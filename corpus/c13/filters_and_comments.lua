-- selene: allow(unused_variable)
local kept = 1
-- selene: allow(manual_table_clone)
for k, v in pairs(source) do
  copy[k] = v
end
local t = {}
-- selene: allow(manual_table_clone)
for k, v in pairs(source) do
  t[k] = v
end
-- selene: allow(empty_if)
if kept then
end
-- selene: deny(divide_by_zero)
-- selene: allow(shadowing)
local kept = 1 / 0
local function f(a)
  -- selene: allow(unused_variable, shadowing)
  local a = 2
  return 1
end
print(f, t, copy)
