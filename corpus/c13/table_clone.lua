local source = { 1, 2, 3 }
local t = {}
-- selene: allow(manual_table_clone)
for k, v in pairs(source) do
  t[k] = v
end
local u = {}
for i, v in ipairs(source) do
  u[i] = v
end
-- an ordinary comment above the loop
local w = {}
for k, v in pairs(source) do
  w[k] = v
end
print(t, u, w)
