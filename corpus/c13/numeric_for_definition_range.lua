for f = function() end, 2 do
  f(1, 2)
end
for i = 1, 2 do
  local i = i
  print(i)
end
