--# selene: allow(unused_variable)
local hidden_g = 1
local hidden_h = 2
