-- guards, offset 2
local v0 = 0
local v1 = 1
if cond0 then
    return
end
if cond1 then
    print(1)
end
if cond2 then
    return
end
if cond3 then
    print(3)
end
if cond4 then
    return
end
if cond5 then
    print(5)
end
if cond6 then
    return
end
if cond7 then
    print(7)
end
if cond8 then
    return
end
if cond9 then
    print(9)
end
if cond10 then
    return
end
if cond11 then
    print(11)
end
if cond12 then
    return
end
if cond13 then
    print(13)
end
if cond14 then
    return
end
if cond15 then
    print(15)
end
if cond16 then
    return
end
if cond17 then
    print(17)
end
if cond18 then
    return
end
if cond19 then
    print(19)
end
if cond20 then
    return
end
if cond21 then
    print(21)
end
if cond22 then
    return
end
if cond23 then
    print(23)
end
if cond24 then
    return
end
