-- a
-- bb
-- kkkkkkkkkkkkkkkkkkkkkkkkkkkkkk
local shown_k = 1
