-- ggggggggggggggggggggggggggggggg
print(2)
