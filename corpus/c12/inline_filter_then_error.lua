-- selene: allow(unused_variable)
local hidden_i = 1
print(undefined_after_filter)
