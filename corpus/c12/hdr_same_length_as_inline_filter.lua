-- hhhhhhhhhhhhhhhhhhhhhhhhhhhhhh
print(1)
