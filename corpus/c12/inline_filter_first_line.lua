-- selene: allow(unused_variable)
local hidden_f = 1
