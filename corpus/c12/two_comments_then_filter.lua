-- a
-- bb
-- selene: allow(unused_variable)
local hidden_j = 1
