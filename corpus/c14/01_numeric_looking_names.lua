-- field names whose spelling reads like something else: number words, exponent letters, case variants
local limits = { inf = math.huge, Inf = math.huge, infinity = 1, nan = 0, NaN = 0, e = 2, E = 3, x1e5 = 4 }
local other = { nan = 1, nan = 2, inf = 3 }
print(limits.inf, limits.Inf, limits.nan, limits.NaN, other.nan)
print(limits.e, limits.E, limits.x1e5, limits.infinity)
