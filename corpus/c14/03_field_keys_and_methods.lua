local obj = { alpha = 1, beta = 2, alpha = 3, gamma = { delta = 1, delta = 2 } }
function obj.alpha_method(x) return x end
function obj:beta_method(y) return self, y end
obj.alpha_method()
obj:beta_method(1, 2)
print(obj.alpha, obj.beta, obj.gamma.delta, obj.epsilon)
local cfg = { ["alpha"] = 1, alpha = 2, [1] = "a", [1.0] = "b", one = 1 }
print(cfg.alpha, cfg.one)
