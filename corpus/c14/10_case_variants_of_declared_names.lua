-- undefined names that differ from a declared variable only in letter case (and the other way round): unrelated names
local value = 1
local Count = 2
local function helper(Item)
	return item, Item
end
print(Value, count, value, Count, HELPER, helper)
