-- names that start with an underscore without being the bare `_`: whether an ignore pattern covers them depends on the pattern
local _key, _value = 1, 2
local function _helper(_first, _second)
	local _inner = _first
	return _second
end
for _index, _item in pairs({}) do
	local _ = _index
end
local _key = 3
_G._setting = _helper
return _value
