-- names that differ in case only, are prefixes / suffixes of one another, or resemble keywords and lint names
local value, Value, VALUE, val, value2, value_ = 1, 2, 3, 4, 5, 6
local tbl = { key = 1, Key = 2, KEY = 3, key2 = 4, ke = 5, key = 6 }
local Nil, True, False, And, Or, Not, End = 1, 2, 3, 4, 5, 6, 7
local unused_variable, shadowing, allow, deny = 1, 2, 3, 4
print(value, Value, VALUE, val, value2, value_, tbl.key, tbl.Key, tbl.KEY, tbl.key2, tbl.ke)
print(Nil, True, False, And, Or, Not, End, unused_variable, shadowing, allow, deny)
local function swap(aa, Aa)
  aa = Aa
  Aa = aa
  return aa, Aa
end
local function f(first, second) end
f(1)
f(1, 2, 3)
tbl.method = function(selfish, n) return selfish, n end
function tbl.other(a, b) return a end
tbl.other(1)
print(swap(1, 2))
