local inf, Inf, nan, NaN = 1, 2, 3, 4
local e1, E1, x0, X0 = 5, 6, 7, 8
print(inf, Inf, nan, NaN, e1, E1, x0, X0)
local function infinity(nan, NaN)
  return nan + NaN
end
local t = { [inf] = 1, [Inf] = 2 }
print(infinity(1, 2), t)
