-- names that spell the same characters as a neighbouring expression with its blanks removed: comparing code by text
-- with the separators dropped would confuse them
local ready, done, x, a, b = true, false, 1, 2, 3
local readyanddone = ready and done
local aorb = a or b
local notx = not x
local ab, a_b = a, b
local function pick()
  if ready and done then
    return 1
  elseif readyanddone then
    return 2
  elseif a or b then
    return 3
  elseif aorb then
    return 4
  elseif not x then
    return 5
  elseif notx then
    return 6
  end
  if a .. b then return 7 elseif ab then return 8 elseif a_b then return 9 end
  local t = { ab = 1, [a .. b] = 2, a_b = 3 }
  if a == b then t.x = ab else t.x = a_b end
  return t
end
return pick, readyanddone, aorb, notx
