-- script-defined functions whose names merely end in / start with a name some lint treats specially
-- (`pairs`, `ipairs`, `next`, `type`, `require`, `self`): nothing about them is special
local function spairs(source, order)
	local keys = {}
	for key in pairs(source) do
		table.insert(keys, key)
	end
	table.sort(keys, order)
	local index = 0
	return function()
		index = index + 1
		local key = keys[index]
		if key ~= nil then
			return key, source[key]
		end
		return nil
	end
end

local function opairs(source)
	return spairs(source, nil)
end

local function xipairs(list)
	return ipairs(list)
end

local function nextpairs(a, b, c)
	return next, a, b or c
end

local function descending(left, right)
	return left > right
end

local function snapshot(scores)
	local copy = {}
	for name, score in spairs(scores, descending) do
		copy[name] = score
	end
	return copy
end

local function snapshot_one(scores)
	local copy = {}
	for name, score in opairs(scores) do
		copy[name] = score
	end
	return copy
end

local function snapshot_list(list)
	local copy = {}
	for index, value in xipairs(list) do
		copy[index] = value
	end
	return copy
end

local function snapshot_three(a, b, c)
	local copy = {}
	for k, v in nextpairs(a, b, c) do
		copy[k] = v
	end
	return copy
end

local function real(scores)
	local copy = {}
	for name, score in pairs(scores) do
		copy[name] = score
	end
	return copy
end

local function mytype(v)
	return type(v)
end

local function xrequire(name)
	return name
end

local selfish = mytype(1) == "number"
local util = xrequire("util")

return { snapshot, snapshot_one, snapshot_list, snapshot_three, real, selfish, util }
