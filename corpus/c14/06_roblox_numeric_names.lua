-- variables handed to the Roblox numeric constructors: what is reported about a call must not depend on how the
-- script spells the variables it passes (a name is not a numeral, whatever it looks like)
local inf, nan, infinity = 0.5, 0.25, 1
local NaN, Inf, e1 = 0, 1, 0.5
local amount, half = 2, 0.5
local function shade(level, inf2)
  local a = Color3.new(inf, nan, infinity)
  local b = Color3.new(amount, half, level)
  local c = Color3.new(NaN, Inf, e1)
  local d = Color3.new(inf2, 0, 1)
  return a, b, c, d
end
local function place(nan2)
  local u = UDim2.new(inf, half)
  local v = UDim2.new(nan2, 0, infinity, 0)
  local w = UDim2.new(amount, 0, half, 0)
  local x = UDim2.new(0, inf, 0, nan)
  return u, v, w, x
end
return shade, place
