local a, b = 1, a
local f = function() return f end
local q = 1, zzz
x = 1, yyy
local t = 5
u = 1, t
