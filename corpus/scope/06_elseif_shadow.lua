local mode = os.getenv("MODE")
if flag then
    local mode = "forced"
    print(mode)
elseif mode then
    print("mode set")
elseif table.getn(t) > 0 then
    local table = 1
else
    local mode
end
