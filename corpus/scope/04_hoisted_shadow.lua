x = 1
local x = 2
print(x)
local string = 1
local unused_std_named = string
