local i = 1
for i = i, 10 do print(i) end
for j = j, 2 do end
