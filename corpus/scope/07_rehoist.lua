local function f()
  state = 1
end
print(state)
state = 2
function later() end
later()
