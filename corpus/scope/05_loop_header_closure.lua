for x in function() return x end do end
for i = (function(i) return i end)(1), 2 do end
