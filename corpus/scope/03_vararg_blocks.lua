do print(...) end
if ... then return ... end
local function g() return ... end
local function h(...) do return ... end end
