-- distinct names of equal length whose cheap hashes (h*31 ^ b, h*31 + b, h*33 + b, sum, xor) coincide:
-- each read must reach the declaration of its own spelling
local dt = 0.25
local as, e1, aa, ab, a1 = 1, 2, 3, 4, 5
local function advance(f2, c1, gs)
  local speed = f2 * 2 + c1 + gs
  local bB, ba, bP = 1, 2, 3
  return speed * dt + as + e1 + aa + ab + a1 + bB + ba + bP
end
print(advance(3, 4, 5))
