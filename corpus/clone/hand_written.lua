-- loops around the shape manual_table_clone looks for, one variation each
local function plain(source)
	local copy = {}
	for key, value in pairs(source) do
		copy[key] = value
	end
	return copy
end

local function list(source)
	local copy = {}
	for index, value in ipairs(source) do
		copy[index] = value
	end
	return copy
end

local function through_next(source)
	local copy = {}
	for key, value in next, source do
		copy[key] = value
	end
	return copy
end

local function statement_between(source)
	local copy = {}
	print("copying")
	for key, value in pairs(source) do
		copy[key] = value
	end
	return copy
end

local function nested_statement_between(source)
	local copy = {}
	if source then
		print("copying")
	end
	for key, value in pairs(source) do
		copy[key] = value
	end
	return copy
end

local function used_before(source)
	local copy = {}
	copy.tag = true
	for key, value in pairs(source) do
		copy[key] = value
	end
	return copy
end

local function deeper(source)
	local copy = {}
	if source then
		for key, value in pairs(source) do
			copy[key] = value
		end
	end
	return copy
end

local function both_deeper(source)
	if source then
		local copy = {}
		for key, value in pairs(source) do
			copy[key] = value
		end
		return copy
	end
end

local function not_empty(source)
	local copy = { first = true }
	for key, value in pairs(source) do
		copy[key] = value
	end
	return copy
end

local function second_of_two(source)
	local count, copy = 0, {}
	for key, value in pairs(source) do
		copy[key] = value
	end
	return copy, count
end

local function with_return(source)
	local copy = {}
	for key, value in pairs(source) do
		copy[key] = value
		return copy
	end
end

local function filtered(source)
	local copy = {}
	-- selene: allow(manual_table_clone)
	for key, value in pairs(source) do
		copy[key] = value
	end
	return copy
end

local function own_iterator(source, order)
	local copy = {}
	for key, value in spairs(source, order) do
		copy[key] = value
	end
	return copy
end

local function shadowed_later(source)
	local copy = {}
	for key, value in pairs(source) do
		copy[key] = value
	end
	local copy = copy
	return copy
end

local function inside_closure(source)
	local copy = {}
	local fill = function()
		for key, value in pairs(source) do
			copy[key] = value
		end
	end
	fill()
	return copy
end

local function expression_source(a)
	local copy = {}
	for key, value in pairs(a.b[ 1 ].c) do
		copy[key] = value
	end
	return copy
end

return { plain, list, through_next, statement_between, nested_statement_between, used_before, deeper, both_deeper, not_empty,
	second_of_two, with_return, filtered, own_iterator, shadowed_later, inside_closure, expression_source }
