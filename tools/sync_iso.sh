#!/bin/bash
# usage: tools/sync_iso.sh <dir>   — (re)creates an isolated copy of /verif and /repo under <dir> with every absolute path
# rewritten, so that seeded changes can be applied and checked there while /repo and /verif stay free for other work
d="$1"; mkdir -p "$d"
rsync -a --delete --exclude .git --exclude replays --exclude '.work/C*' --exclude harness/target --exclude lean/.lake /verif/ "$d/verif/"
mkdir -p "$d/verif/harness/target" "$d/verif/lean/.lake"
[ -d "$d/verif/harness/target/debug" ] || rsync -a /verif/harness/target/ "$d/verif/harness/target/"
[ -d "$d/verif/lean/.lake/build" ] || rsync -a /verif/lean/.lake/ "$d/verif/lean/.lake/"
rsync -a --delete --exclude target /repo/ "$d/repo/"
cd "$d/verif" && grep -rlE '/repo|/verif' tools check harness/Cargo.toml harness/src lean/Driver 2>/dev/null | xargs sed -i "s#/verif#$d/verif#g; s#/repo#$d/repo#g"
grep -rl "$d/verif-hooks" . 2>/dev/null | xargs -r sed -i "s#$d/verif-hooks#/verif-hooks#g"
git -C "$d/repo" status --short | head -3
