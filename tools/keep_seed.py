#!/usr/bin/env python3
"""tools/keep_seed.py <seed-name> <property> <outdir> "<needs>" "<detected-by>" : store a confirmed seeded change under /verif/seeded/<seed-name>/"""
import json, os, shutil, sys
name, pid, out, needs, detected = sys.argv[1:6]
dst = os.path.join('/verif/seeded', name)
shutil.rmtree(dst, ignore_errors=True)
shutil.copytree(out, dst, ignore=shutil.ignore_patterns('PROMPT.md', 'target', '*.out'))
confirm = open(os.path.join(out, 'confirm.log')).read().strip().splitlines()
meta = {
    "breaks_property": pid,
    "needs_to_manifest": needs,
    "confirmed_by": "tools/confirm_seed.sh in a scratch worktree: " + confirm[-1] if confirm else "",
    "what_was_run": ["git apply patch.diff", "cargo test --workspace --no-fail-fast --offline (125 pass)", "demo.sh <tree> fails with the patch, passes without"],
    "detected_by": detected,
}
json.dump(meta, open(os.path.join(dst, 'meta.json'), 'w'), indent=1)
print("kept", dst)
