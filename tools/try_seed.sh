#!/bin/bash
# usage: tools/try_seed.sh <Cnn> [variant]  — confirms the seeded change in /tmp/seed/<Cnn><variant>-out independently, then applies
# it to /repo, runs the property's quick check, reverts. Prints one summary line. /repo must be clean; it is left clean.
pid="$1"; v="$2"; wt=/tmp/seed/$pid$v; out=$wt-out
cd /verif || exit 2
[ -z "$(git -C /repo status --porcelain --untracked-files=no)" ] || { echo "$pid$v: /repo is not clean"; exit 2; }
if bash tools/confirm_seed.sh "$wt" "$out" >/dev/null 2>&1; then conf=confirmed; else conf="NOT-CONFIRMED($(tail -1 $out/confirm.log))"; fi
git -C /repo apply "$out/patch.diff" || { echo "$pid$v: $conf; patch does not apply to /repo"; exit 1; }
./check "$pid" --tier quick > "$out/check_quick.out" 2>&1; rc=$?
git -C /repo checkout -- .
viol=$(grep "^VIOLATION" "$out/check_quick.out" | head -3 | tr '\n' ' ')
echo "$pid$v: $conf; check rc=$rc; ${viol:-no violation line}"
