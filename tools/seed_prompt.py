#!/usr/bin/env python3
"""prints the prompt given to a mutation-seeding sub-agent for one property (property text only)"""
import json, sys
pid = sys.argv[1]
variant = sys.argv[2] if len(sys.argv) > 2 else ""
for l in open('/verif/properties.jsonl'):
    p = json.loads(l)
    if p['id'] == pid:
        break
wt = f"/tmp/seed/{pid}{variant}"
import os
used = sorted(d[len(pid)+1:].replace('-', ' ') for d in os.listdir('/verif/seeded') if d.startswith(pid + '-'))
used_txt = ("Earlier rounds already produced changes built on these ideas - do NOT reuse them or close variants; pick a different mechanism, file or input family: " + "; ".join(used) + ".") if used else ""
print(f"""You are helping test a verification tool-chain for the open-source Lua linter `selene` (Rust; crates `selene-lib` and `selene`).
You have your own scratch git worktree of the repository at {wt} (detached HEAD). Work ONLY inside {wt} and write your deliverables to {wt}-out/ . Do not read or write /repo or /verif. There is no network: always pass --offline to cargo and set CARGO_NET_OFFLINE=true; use CARGO_TARGET_DIR={wt}/target so build output stays inside the worktree. Several source files use CRLF line endings - preserve them (edit with a tool that keeps \\r\\n, check `git diff --stat` shows only the lines you meant to change).

Here is a semantic property of selene that is supposed to hold:

  Title: {p['title']}
  Statement: {p['statement']}
  Quantified over: {p['quantifier']['text']}
  Relevant files: {', '.join(p['anchors']['files'])}

Your task: produce a realistic change to selene's source (the kind of bug a refactoring, an optimisation or a well-meant feature tweak could introduce) that BREAKS this property while the code still compiles and the existing test suite still passes unchanged:
    cd {wt} && CARGO_NET_OFFLINE=true CARGO_TARGET_DIR={wt}/target cargo test --workspace --no-fail-fast --offline
(125 tests pass on the unmodified tree). The change must need something specific to manifest - an unusual input, a multi-step sequence, a particular configuration, a particular interleaving, or two cooperating sites that each look fine alone - not something ordinary use would expose at once, and not something the golden tests catch. Keep the patch small (a few lines to a few dozen). {used_txt} Do not take the first idea that comes to mind: list three candidate changes in different files or mechanisms, then pick the one that is hardest to notice. Do not touch tests, test fixtures, docs, or anything named verif_hooks / verif_trace / `verif-hooks`.

Also write a demonstration: a small shell script `demo.sh` (plus any input files it needs, all inside {wt}-out/) that takes the path of a selene checkout as $1, builds what it needs there (cargo build --workspace --offline with CARGO_TARGET_DIR=$1/target; or a tiny Rust test/program using selene-lib by path), runs selene / the library on a concrete input, and exits 0 when the property holds on that input and non-zero when it is violated. It must FAIL with your change applied and PASS on the unmodified tree - verify both yourself (use `git stash` / `git apply -R` in the worktree to flip).

Deliverables in {wt}-out/ :
  patch.diff   - `git diff` of your change against HEAD (must apply with `git apply` to a clean checkout of the same commit)
  demo.sh      - as described (and its input files)
  notes.md     - 5-15 lines: what the change does, why the existing tests do not notice, exactly what is needed for the violation to manifest, and the commands you ran with their observed results (tests pass with patch; demo fails with patch; demo passes without)

Never use `git stash` (the stash is shared by every worktree of this repository and other agents are working in theirs at the same time): flip your change with `git diff > patch.diff`, `git apply -R patch.diff` and `git apply patch.diff`. When done, leave the worktree with your patch REVERTED (clean `git status`) but keep the target directory. Reply with a short summary (what you changed, what manifests it, confirmation of the three runs).""")
