#!/bin/bash
# usage: tools/seed_regression.sh [seed-dir ...]   — applies every kept seeded change to /repo in turn, runs the quick check
# of the property it breaks, reverts; prints one line per seed. /repo must be clean and is left clean.
cd "$(dirname "$0")/.." || exit 2
[ -z "$(git -C /repo status --porcelain --untracked-files=no)" ] || { echo "/repo is not clean"; exit 2; }
dirs=("$@"); [ ${#dirs[@]} -eq 0 ] && dirs=(seeded/*/)
missed=0
for d in "${dirs[@]}"; do
  d=${d%/}; name=$(basename "$d"); pid=${name%%-*}
  if ! git -C /repo apply "$PWD/$d/patch.diff" 2>/dev/null; then echo "$name: PATCH-DOES-NOT-APPLY"; continue; fi
  out=$(./check "$pid" --tier quick 2>&1)
  git -C /repo checkout -- .
  if echo "$out" | grep -q "^VIOLATION"; then
    if echo "$out" | grep "^VIOLATION" | grep -qv "no-failing-input-found"; then echo "$name: detected (failing input)"; else echo "$name: detected (no-failing-input-found only)"; fi
  else echo "$name: MISSED"; missed=$((missed+1)); fi
done
echo "missed=$missed"
