#!/usr/bin/env python3
"""crlf_edit.py FILE OLD NEW  — replace exactly one occurrence, preserving the file's line endings
(OLD/NEW are given with \n; the file may be CRLF)."""
import sys
p, old, new = sys.argv[1], sys.argv[2], sys.argv[3]
b = open(p, 'rb').read()
crlf = b'\r\n' in b
s = b.decode().replace('\r\n', '\n')
assert s.count(old) == 1, (s.count(old), old)
s = s.replace(old, new)
if crlf:
    s = s.replace('\n', '\r\n')
open(p, 'wb').write(s.encode())
