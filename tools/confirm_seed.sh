#!/bin/bash
# usage: tools/confirm_seed.sh <worktree> <outdir>   — confirms a seeded change independently:
#   tests pass with the patch, demo fails with it, demo passes without it. Writes <outdir>/confirm.log
wt="$1"; out="$2"
export CARGO_NET_OFFLINE=true CARGO_TARGET_DIR="$wt/target"
log="$out/confirm.log"; : > "$log"
cd "$wt" || exit 2
git checkout -q -- . ; git apply --check "$out/patch.diff" || { echo "patch does not apply" >> "$log"; exit 2; }
git apply "$out/patch.diff"
cargo test --workspace --no-fail-fast --offline 2>&1 | grep -E "^test result" >> "$log"
passed=$(grep -E "^test result" "$log" | sed -E 's/.*ok\. ([0-9]+) passed.*/\1/' | paste -sd+ | bc)
failed=$(grep -cE "^test result: FAILED" "$log")
bash "$out/demo.sh" "$wt" > "$out/demo_with_patch.out" 2>&1; rc_with=$?
git checkout -q -- .
bash "$out/demo.sh" "$wt" > "$out/demo_without_patch.out" 2>&1; rc_without=$?
echo "tests_passed_with_patch=$passed failed_suites=$failed demo_rc_with_patch=$rc_with demo_rc_without_patch=$rc_without" | tee -a "$log"
git status --short | grep -v '^??' >> "$log"
[ "$passed" = "125" ] && [ "$failed" = "0" ] && [ "$rc_with" != "0" ] && [ "$rc_without" = "0" ]
