"""Running the real `selene` binary (built from /repo's working tree with the verif-hooks feature) and parsing its output."""
import json, os, re, subprocess, random
from tools import vlib

FILE_KINDS = {
    "clean": "local x = 1\nprint(x)\n",
    "warn": "local unused_thing = 1\n",
    "warn2": "local a = 1\nlocal b = 2\n",
    "err": "print(undefined_thing)\n",
    "err2": "print(undefined_a)\nprint(undefined_b)\nlocal q = 1\n",
    "mixed": "local unused_here = 1\nprint(zzz_undefined)\n",
    "parse": "local = 1\n",
    "parse2": "x = = 1\nfoo(\n",
    "empty": "",
    "comment": "-- nothing here\n",
    "multiline": "local t = {\n  a = 1,\n  a = 2,\n}\nprint(t)\n",
    "nonascii": "local s = 'héllo wörld'\nlocal unused_é = s\n",
    "crlf": "local u1 = 1\r\nprint(undefined_crlf)\r\nlocal u2 = 2\r\n",
    "filtered": "-- selene: allow(unused_variable)\nlocal hidden = 1\nlocal shown = 2\n",
    "bigwarn": "".join(f"local v{i} = {i}\n" for i in range(60)),
}


def sq(s):
    return '"' + s.replace("\\", "\\\\").replace('"', '\\"').replace("\n", "\\n").replace("\r", "\\r").replace("\t", "\\t") + '"'


def run_selene(args, cwd, env_extra=None, timeout=120, stdin=None, nofile=None):
    """`nofile`: soft limit on open file descriptors for the child (RLIMIT_NOFILE)"""
    env = dict(os.environ)
    env.pop("SELENE_VERIF_TRACE", None)
    if env_extra:
        env.update(env_extra)
    pre = None
    if nofile:
        import resource
        def pre():
            soft, hard = resource.getrlimit(resource.RLIMIT_NOFILE)
            resource.setrlimit(resource.RLIMIT_NOFILE, (min(nofile, hard), hard))
    p = subprocess.run([vlib.SELENE_EXE] + args, cwd=cwd, capture_output=True, timeout=timeout, env=env, input=stdin, preexec_fn=pre)
    return p.returncode, p.stdout.decode("utf-8", "replace"), p.stderr.decode("utf-8", "replace")


def write_config(d, lints=None, std=None, exclude=None, name="selene.toml"):
    lines = []
    if std:
        lines.append(f'std = "{std}"')
    if exclude:
        lines.append("exclude = [" + ", ".join('"%s"' % e for e in exclude) + "]")
    if lints:
        lines.append("[lints]")
        for k, v in lints.items():
            lines.append(f'{k} = "{v}"')
    with open(os.path.join(d, name), "w") as fh:
        fh.write("\n".join(lines) + "\n")


def parse_json_lines(out):
    """json / json2 output -> (diagnostics, summary)"""
    diags, summary, bad = [], None, []
    for line in out.splitlines():
        if not line.strip():
            continue
        try:
            o = json.loads(line)
        except Exception:
            bad.append(line)
            continue
        if o.get("type") == "Summary":
            summary = o
        elif o.get("type") == "Diagnostic" or "severity" in o:
            diags.append(o)
        else:
            bad.append(line)
    return diags, summary, bad


QUIET_RE = re.compile(r"^(?P<file>.*?):(?P<line>\d+):(?P<col>\d+): (?P<sev>error|warning)\[(?P<code>[a-z_0-9]+)\]: (?P<msg>.*)$")


def parse_quiet(out):
    """quiet style: `file:line:col: severity[code]: message` + the Results block"""
    diags = []
    summary = None
    lines = out.splitlines()
    i = 0
    while i < len(lines):
        m = QUIET_RE.match(lines[i])
        if m:
            diags.append(m.groupdict())
        elif lines[i].strip() == "Results:":
            try:
                e = int(lines[i + 1].split()[0]); w = int(lines[i + 2].split()[0]); p = int(lines[i + 3].split()[0])
                summary = {"errors": e, "warnings": w, "parse_errors": p}
            except Exception:
                pass
            i += 3
        i += 1
    return diags, summary


def parse_summary_text(out):
    m = re.search(r"Results:\n(\d+) errors\n(\d+) warnings\n(\d+) parse errors", out)
    if m:
        return {"errors": int(m.group(1)), "warnings": int(m.group(2)), "parse_errors": int(m.group(3))}
    return None


def single_file_outcome(d, path, config=None):
    """outcome of one file, observed by a single-file json2 run"""
    if not os.path.exists(os.path.join(d, path)):
        return "missing", []
    args = ["--display-style", "json2", "--no-exclude", "--num-threads", "1"]
    if config:
        args += ["--config", config]
    rc, out, err = run_selene(args + [path], d)
    diags, summary, bad = parse_json_lines(out)
    n_parse = sum(1 for x in diags if x.get("code") == "parse_error")
    if n_parse:
        return f"(parse {n_parse})", diags
    sevs = [x["severity"].lower() for x in diags]
    return "(linted " + " ".join(sevs) + ")" if sevs else "(linted)", diags
