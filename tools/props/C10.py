import os, random, re, subprocess, sys
from tools import vlib, cli

RULE = ("the same generated program (with inline filters) under the default and three random {unset, allow, warn, deny} assignments over all "
        "registered lints: unfiltered findings must coincide once severity is erased, each severity must be the configured one or the built-in "
        "default of the regenerated lint table, and the filtered output must be `inline filter wins, else configured severity`; plus CLI runs of "
        "files whose only diagnostics belong to a lint configured `allow`, in all display styles and luacheck mode: nothing printed, counts 0, exit 0; "
        "non-trivial = a configured-allow lint actually fires, or an inline filter overrides the configuration")


def body(ctx):
    n = 150 if ctx.tier == "quick" else 3000
    outdir, meta = ctx.harness("c10", n)
    ctx.correspond(outdir, nontrivial_tag=lambda t: any(x in t for x in ("allow-configured-lint-fires", "inline-overrides-allow", "inline-allow-overrides-config")))
    # CLI: a lint set to `allow` contributes nothing to output, counts or exit status
    d = os.path.join(ctx.workdir, "cli")
    os.makedirs(d, exist_ok=True)
    progs = {
        "only_unused.lua": ("local never_used = 1\n", {"unused_variable": "allow"}),
        "only_undefined.lua": ("print(not_defined_anywhere)\n", {"undefined_variable": "allow"}),
        "two.lua": ("local never_used = 1\nprint(not_defined_anywhere)\n", {"undefined_variable": "allow", "unused_variable": "allow"}),
        "multi.lua": ("if x_undefined then\n\nend\n", {"undefined_variable": "allow", "empty_if": "allow"}),
    }
    for name, (src, lints) in progs.items():
        with open(os.path.join(d, name), "w") as fh:
            fh.write(src)
        cfg = name + ".toml"
        cli.write_config(d, lints=lints, name=cfg)
        for mode in (["--display-style", "quiet"], ["--display-style", "rich"], ["--display-style", "json"], ["--display-style", "json2"],
                     ["--luacheck"], ["--luacheck", "--ranges"]):
            rc, out, err = cli.run_selene(["--config", cfg, "--num-threads", "1", "--color", "never"] + mode + [name], d)
            ctx.evaluations += 1
            printed = out
            if "--luacheck" not in mode:
                printed = re.sub(r"Results:\n0 errors\n0 warnings\n0 parse errors\n", "", printed)
                printed = re.sub(r'\{"type":"Summary","errors":0,"warnings":0,"parse_errors":0\}\n', "", printed)
            if rc != 0 or printed.strip() != "":
                ctx.violation(f"implementation violates the specification: a lint configured `allow` still contributes to the output or exit status (mode {' '.join(mode)})",
                              f"file: {os.path.join(d, name)}\nconfig lints: {lints}\nmode: {mode}\nexit: {rc}\nstdout: {out!r}")
            else:
                ctx.nontrivial.add(f"cli-{name}-{'-'.join(mode)}")
    if len(ctx.samples) < 6:
        ctx.samples.append({"cli": "only_unused.lua with unused_variable=allow under 6 output modes: nothing printed, exit 0"})


def check(ctx):
    subprocess.run([sys.executable, os.path.join(vlib.VERIF, "tools", "translate.py")], check=True)
    ctx.assumptions = [
        "lint passes take no severity input: `test_on` attaches the severity afterwards (modelled as `attach`); the tie is the same-findings comparison under random assignments",
        "the CLI's per-file loop is modelled in C19 (counts) and exercised here through the binary",
    ]
    return vlib.standard_check(ctx, ["Selene.Props.C10"], body,
                               trusted=vlib.BASE_TRUST + ["tools/translate.py (regex extraction of use_lints!{} and every `const SEVERITY`, regenerated on every run)"],
                               rule=RULE, need_selene=True)
