from tools import vlib

RULE = ("(1) libraries: the shipped default_std/*.yml, every *.std.yml fixture of the repository, the effective built-in libraries, and generated "
        "libraries with every field kind, argument type, required-with-message, observes, field/argument deprecation with replace patterns, structs, "
        "wildcard / dotted / quoted keys, lua_versions incl. unknown names, last_updated (i64 extremes), roblox_classes, and YAML-hostile strings "
        "(`true`, `1e3`, `~`, ``, `a: b`, quotes, newlines, control and non-ASCII characters, random strings over YAML's special characters) in every "
        "string position: serde_yaml::to_value vs the model's ser, plus the real value and the real TEXT round trip; "
        "(2) documents: those libraries' documents intact, gently mutated (reordered entries, ignored keys, null for an empty collection, a struct given "
        "positionally, a unit variant as a one-entry map), harshly mutated (wrong types, renamed / deleted / added keys, several kind keys at once, "
        "`removed: false`), random small documents and ~90 hand-written ones: serde_yaml::from_value::<StandardLibrary> vs the model's de (ok/error and "
        "the loaded library), plus: whatever loads (also through the real text loader from_str) re-serialises to something that loads back equal; "
        "(3) the points the theorem excludes (LuaVersion::Unknown spelling a known version) executed on the real code; "
        "(4) v1: the repository's *.std.toml fixtures and generated v1 TOML (nested tables, dotted child keys that collide with nested paths, hostile names): "
        "toml::from_str::<v1::StandardLibrary> -> into() vs the model's upgrade, YAML text reload equal, find_global agreement on sampled paths, and for the "
        "first cases the real `selene upgrade-std` binary on scratch files plus the CLI's diagnostics on a generated program under the TOML and the upgraded "
        "YAML library; non-trivial = anything but a plainly rejected document")


def nontrivial(tags):
    return tags != ["de-err"]


def body(ctx):
    n = 300 if ctx.tier == "quick" else 4000
    extra = ["--selene", vlib.SELENE_EXE]
    outdir, meta = ctx.harness("c17", n, extra=extra)
    ctx.correspond(outdir, nontrivial_tag=nontrivial)
    if ctx.tier == "thorough":
        for k in range(1, 3):
            outdir, meta = ctx.harness("c17", n, extra=["--selene", "/nonexistent"], seed=ctx.seed + k, name=f"c17-{k}")
            ctx.correspond(outdir, nontrivial_tag=nontrivial)
    if ctx.stats.get("selene_binary_absent"):
        ctx.notes.append("the selene binary was not available: `selene upgrade-std` and the CLI diagnostics comparison were skipped in some runs")
    excl = ctx.tags.get("excluded-differs", 0)
    ctx.notes.append(f"excluded points executed on the real code: {ctx.tags.get('excluded-point', 0)} libraries holding LuaVersion::Unknown(<known name>); "
                     f"{excl} of them come back different (as the model predicts: the known version), none of them is reachable by loading a file")


def check(ctx):
    ctx.assumptions = [
        "the model is at serde's data-model level (serde_yaml::Value / serde's Content buffer): ser = serde_yaml::to_value, de = serde_yaml::from_value; "
        "YAML and TOML *text* emission and parsing (quoting of `*`, `true`, `1e3`, `~`, block scalars ...) are serde_yaml's and toml's and are covered "
        "only by the real text round trip executed on every generated library (stated partial)",
        "selene's file loader is serde_yaml::from_str, which differs from from_value on documents selene never writes (null for a collection is "
        "rejected, a non-string scalar is accepted where a string is expected); the reload clause is therefore also executed on from_str for every document",
        "BTreeMap is a key-sorted association list (String order = UTF-8 byte order = code-point order); serde's struct visitors are modelled by their "
        "ok/error outcome and result, not by error messages or by which error is reported first; duplicate keys cannot reach the code through "
        "serde_yaml::Value and are not exercised; floats, YAML tags and non-string keys are outside Val",
        "`identical diagnostics` follows from equality of the library values (both CLI paths then run the same extend(base) and the same lints); "
        "it is additionally executed through the real CLI on generated programs",
    ]
    return vlib.standard_check(
        ctx, ["Selene.Props.C17"], body,
        trusted=vlib.BASE_TRUST + ["serde / serde_derive 1.0.152, serde_yaml 0.9.16, toml 0.7.2 as pinned by Cargo.lock: the model was written from their source; "
                                   "an upgrade of those crates shows up as a correspondence break"],
        rule=RULE, need_selene=True)
