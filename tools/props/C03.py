from tools import vlib
from tools.props import scope_common as sc


def check(ctx):
    ctx.assumptions = list(sc.ASSUME)
    return vlib.standard_check(ctx, ["Selene.Props.C03"], sc.body_for("[C03]", ["shadowing-decl", "shadowing-reported"]),
                               trusted=vlib.BASE_TRUST + ["harness/src/astdump.rs (AST exchange format) and lean/Selene/Lua/Read.lean"],
                               rule=sc.RULE_BASE + "; non-trivial = some declaration re-uses a visible name")
