from tools import vlib

RULE = ("every fixture / corpus / generated program is linted by the real Checker together with two trivia-rewritten twins (a space or a tab "
        "before / after any token, a block comment between tokens, a blank line or re-indentation at existing line breaks; never joining or "
        "splitting code lines; twins whose token sequence changed are discarded and counted), once under lua51 extended with deprecated "
        "functions / values / parameters and a global_usage ignore pattern (plus a prologue of layout-sensitive shapes: type(x == 's'), bare "
        "deprecated names, deprecated nil parameters, _G fields, nan comparisons) and once under the roblox base library (Color3.new / "
        "UDim2.new prologue); diagnostics are compared in token space (code, primary range, severity, message, secondary labels, notes modulo "
        "whitespace); the Roblox constructor lints, manual_table_clone and roblox_incorrect_roact_usage are also run against their Lean models on programs built around their shapes; "
        "non-trivial = the pair has at least one diagnostic")


def body(ctx):
    n = 150 if ctx.tier == "quick" else 2500
    for group in ("c13", "c13r"):
        outdir, meta = ctx.harness(group, n if group == "c13" else n // 2)
        ctx.correspond(outdir, nontrivial_tag=lambda t: "diagnostics" in t, shrink_group=group)
    # the three Roblox constructor lints against their model (Selene/Lints/Roblox.lean, part of `allDiags`): numerals in every
    # spelling around the f32 rounding boundaries, negated / hexadecimal / parenthesised arguments, variables named `inf` / `nan`
    outdir, meta = ctx.harness("roblox", 250 if ctx.tier == "quick" else 6000)
    ctx.correspond(outdir, nontrivial_tag=lambda t: "silent" not in t)
    # manual_table_clone against its model (Selene/Scope/ManualTableClone.lean, part of `allDiags`): programs built around the
    # shape it looks for, with and without `table.clone` in the library
    outdir, meta = ctx.harness("clone", 100 if ctx.tier == "quick" else 1500)
    ctx.correspond(outdir, nontrivial_tag=lambda t: "reported" in t or "comment-before-loop" in t)
    # roblox_incorrect_roact_usage against its model (Selene/Lints/Roact.lean, the last lint of `allDiags`): createElement calls
    # through both libraries and through locals, known / unknown classes, properties, events, `Name` values in every spelling
    outdir, meta = ctx.harness("roact", 150 if ctx.tier == "quick" else 3000)
    ctx.correspond(outdir, nontrivial_tag=lambda t: "reported" in t)
    ctx.notes.append(f"twins discarded because the rewrite changed the token sequence: {ctx.stats.get('twin_changed_the_token_sequence', 0)}; twins that did not parse: {ctx.stats.get('twin_does_not_parse', 0)}")


def check(ctx):
    ctx.assumptions = [
        "the documented exceptions are not exercised: `comments_count` of empty_if / empty_loop keeps its default (false), programs containing filter comments are skipped, inserted comments are never filters (one in six merely looks like one: `--- selene: allow(…)` with an extra dash, an ordinary comment)",
        "every lint is modelled; the Lean theorem states layout-independence of the models, and the correspondence streams (C01-C07 and the roblox / clone / roact streams here) tie each model to the code",
        "line-sensitive lints (multiple_statements) are covered because rewrites never join or split lines",
    ]
    return vlib.standard_check(ctx, ["Selene.Props.C13"], body,
                               trusted=vlib.BASE_TRUST + ["harness/src/twin.rs (twin generator, token-space canonicaliser)"], rule=RULE)
