import os, re
from tools import vlib, cli
from tools.props import scope_common as sc


def effective_keys(std_dir, name, seen=()):
    """the keys a built-in library file supplies, read from the YAML text itself: its own entries that are not `removed: true`,
    plus what its base supplies and it neither re-defines nor removes (removal is by exact key)"""
    import yaml
    path = os.path.join(std_dir, name + ".yml")
    if name in seen or not os.path.exists(path):
        return None
    doc = yaml.safe_load(open(path, encoding="utf-8"))
    own = doc.get("globals") or {}
    keys = {k for k, v in own.items() if not (isinstance(v, dict) and v.get("removed") is True)}
    base = doc.get("base")
    if base:
        inherited = effective_keys(std_dir, base, seen + (name,))
        if inherited is None:
            return None
        keys |= {k for k in inherited if k not in own}
    return keys


def library_names(ctx):
    """under every built-in library, a read of a name the library supplies is never `undefined_variable`, and a name whose
    every entry the library removes is (the property's `or supplied by the standard library`, decided by the YAML text)"""
    std_dir = os.path.join(vlib.REPO, "selene-lib", "default_std")
    d = os.path.join(ctx.workdir, "libnames")
    os.makedirs(d, exist_ok=True)
    for lib in sorted(f[:-4] for f in os.listdir(std_dir) if f.endswith(".yml")):
        if lib.startswith("roblox"):
            continue          # roblox_base is not selectable by name; `roblox` is generated from the network
        keys = effective_keys(std_dir, lib)
        if keys is None:
            continue
        import yaml
        all_roots = set()
        n = lib
        while n:
            doc = yaml.safe_load(open(os.path.join(std_dir, n + ".yml"), encoding="utf-8"))
            all_roots |= {k.split(".")[0] for k in (doc.get("globals") or {})}
            n = doc.get("base")
        supplied = {k.split(".")[0] for k in keys}
        ident = re.compile(r"^[A-Za-z_][A-Za-z0-9_]*$")
        names = sorted(r for r in all_roots if ident.match(r))
        with open(os.path.join(d, f"{lib}.lua"), "w") as fh:
            fh.write("".join(f"print({r})\n" for r in names))
        with open(os.path.join(d, f"cfg_{lib}.toml"), "w") as fh:
            fh.write(f'std = "{lib}"\n')
        rc, out, err = cli.run_selene(["--config", f"cfg_{lib}.toml", "--display-style", "json2", "--num-threads", "1", f"{lib}.lua"], d)
        diags, summary, bad = cli.parse_json_lines(out)
        ctx.evaluations += 1
        if summary is None:
            ctx.violation(f"implementation violates the specification: [C01] the command-line tool fails on a file that reads every root name of the built-in library {lib}",
                          f"directory: {d}\nfile: {lib}.lua\nstderr (head): {err[:600]}")
            continue
        reported = {names[x["primary_label"]["span"]["start_line"]] for x in diags if x.get("code") == "undefined_variable" and x["primary_label"]["span"]["start_line"] < len(names)}
        wrong = sorted(r for r in names if (r in supplied) == (r in reported))
        if wrong:
            r = wrong[0]
            ctx.violation(f"implementation violates the specification: [C01] under std = \"{lib}\" the name `{r}` is {'reported as undefined although the library supplies it' if r in supplied else 'not reported although every entry for it is removed'}"
                          + (f" (and {len(wrong) - 1} more: {' '.join(wrong[1:6])})" if len(wrong) > 1 else ""),
                          f"directory: {d}\nconfig: cfg_{lib}.toml\nfile: {lib}.lua (line {names.index(r) + 1}: print({r}))\nsupplied by the YAML text of {lib}.yml and its base chain: {r in supplied}\nreported undefined_variable: {r in reported}")
        else:
            ctx.nontrivial.add(f"library-names-{lib}")


def check(ctx):
    ctx.assumptions = list(sc.ASSUME)
    inner = sc.body_for("[C01]", ["local-read", "global-read", "hoisted-global", "vararg", "undefined-reported"])

    def body(ctx):
        inner(ctx)
        library_names(ctx)
    return vlib.standard_check(ctx, ["Selene.Props.C01"], body,
                               trusted=vlib.BASE_TRUST + ["harness/src/astdump.rs (AST exchange format) and lean/Selene/Lua/Read.lean", "PyYAML (reads default_std/*.yml for the library-names stage)"],
                               rule=sc.RULE_BASE + "; every root name of every built-in library file read under that library through the command-line tool (supplied names silent, wholly removed names reported; expectation from the YAML text); non-trivial = the program has a read that resolves to a local, a read of a global, a hoisted global or a vararg",
                               need_selene=True)
