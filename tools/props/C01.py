from tools import vlib
from tools.props import scope_common as sc


def check(ctx):
    ctx.assumptions = list(sc.ASSUME)
    return vlib.standard_check(ctx, ["Selene.Props.C01"], sc.body_for("[C01]", ["local-read", "global-read", "hoisted-global", "vararg", "undefined-reported"]),
                               trusted=vlib.BASE_TRUST + ["harness/src/astdump.rs (AST exchange format) and lean/Selene/Lua/Read.lean"],
                               rule=sc.RULE_BASE + "; non-trivial = the program has a read that resolves to a local, a read of a global, a hoisted global or a vararg")
