"""C04, half A: the nine expression-level closed-form lints (divide_by_zero, compare_nan,
suspicious_reverse_loop, duplicate_keys, mixed_table, constant_table_comparison, type_check_inside_call,
bad_string_escape, parenthese_conditions).  `body(ctx)` is what the combined C04 check calls; `check(ctx)`
runs this half alone (`./check C04A`)."""
from tools import vlib

PROP_MODULES = ["Selene.Props.C04A"]

LINTS = ("divide_by_zero", "compare_nan", "suspicious_reverse_loop", "duplicate_keys", "mixed_table",
         "constant_table_comparison", "type_check_inside_call", "bad_string_escape", "parenthese_conditions")

RULE = ("per-lint positive and negative template families (numerals re-spelled 0 / 0.0 / 0x0 / 0e0 / 00 / .0 / 0. / 1e-400, "
        "1 / 1.0 / 0x1 / 1e0 / 10e-1, bounds on both sides of the single- and double-precision rounding gaps; string keys and "
        "escapes in \"…\", '…', [[…]]; operands from a small expression grammar incl. calls, indexing, method calls, "
        "parentheses), each plugged into a random statement / expression position and 0-3 random enclosing blocks (do, while, "
        "repeat, if/elseif/else, both for forms, function statements, local functions, function expressions), some files in CRLF; "
        "the documented examples of every lint; every `.lua` fixture of the repo's test-suite inside the modelled subset; "
        "luagen programs.  Every program is checked twice (library `lua51`, and the same library named `roblox`); the real "
        "diagnostics of the nine lints (code, label in token space or byte offsets inside the string token, message, secondary "
        "labels) are compared with the Lean models and judged by the by-value specifications Doc.* / Canon.* / ByValue.*; "
        "non-trivial = at least one of the nine lints fires")

ASSUME = [
    "full_moon's parser and Visitor (every Expression / TableConstructor / FunctionCall / statement node is visited exactly once); "
    "the AST exchange format (harness/src/astdump.rs, lean/Selene/Lua/Read.lean)",
    "Rust's `str::parse::<f64>` is correctly rounded and accepts exactly the decimal grammar of `decimalValue` on number tokens; "
    "the regex crate's leftmost-first semantics for `\\\\(u\\{|.)([\\da-fA-F]*)(\\}?)`, with `\\d` read as ASCII digits",
    "Lua stores a numeral as the nearest double (ties to even): `denotesZero`, `denotesLeOne` are the exact thresholds 2^-1075 and 1+2^-53",
    "string arguments without parentheses (`f\"…\"`) are not Expression nodes; bad_string_escape does not visit them and the specification does not judge them",
]


def nontrivial(tags):
    return any(t.split(":")[0] in LINTS for t in tags)


def body(ctx, ignore_spec=None):
    n = 60 if ctx.tier == "quick" else 2000
    outdir, meta = ctx.harness("c04a", n)
    ctx.correspond(outdir, nontrivial_tag=nontrivial, ignore_spec=ignore_spec or (lambda item: not item.startswith("[C04]")))
    if ctx.tier == "thorough":
        for k in range(1, 3):
            outdir, meta = ctx.harness("c04a", n, seed=ctx.seed + k, name=f"c04a-{k}")
            ctx.correspond(outdir, nontrivial_tag=nontrivial, ignore_spec=ignore_spec or (lambda item: not item.startswith("[C04]")))
    ctx.notes.append(f"C04A: unsupported-syntax programs skipped: {ctx.stats.get('unsupported_syntax', 0)}; not parseable: "
                     f"{ctx.stats.get('does_not_parse', 0)} (of which generated templates: {ctx.stats.get('template_does_not_parse', 0)})")


def check(ctx):
    ctx.assumptions = list(ASSUME)
    return vlib.standard_check(ctx, PROP_MODULES, body,
                               trusted=vlib.BASE_TRUST + ["harness/src/astdump.rs (AST exchange format) and lean/Selene/Lua/Read.lean"],
                               rule=RULE)
