from tools import vlib

RULE_BASE = ("every `.lua` fixture of the repo's test-suite that stays inside the modelled Lua 5.1 subset (others are counted as unsupported), "
             "corpus/scope/*.lua (minimised past failures and the shapes of the repaired defects), and grammar-generated Lua 5.1 programs over the "
             "name pool {a,b,c,d,x} + {print,math,string,G} (multi-name locals, both for forms, repeat, if/elseif/else, nested and method "
             "functions, varargs, closures in initialisers and loop headers); each case compares the real ScopeManager tables (references, "
             "variables, call statements) and the three lints' diagnostics with the Lean model, and judges the implementation's tables and "
             "diagnostics by the environment-passing Lua resolver `Spec.resolve`")


def body_for(tag, nontrivial):
    def body(ctx):
        n = 240 if ctx.tier == "quick" else 4000
        outdir, meta = ctx.harness("scope", n)
        ctx.correspond(outdir, nontrivial_tag=lambda t: any(x in t for x in nontrivial),
                       ignore_spec=lambda item: not item.startswith(tag), shrink_group="scope")
        ctx.notes.append(f"unsupported-syntax programs skipped: {ctx.stats.get('unsupported_syntax', 0)}; not parseable as Lua 5.1: {ctx.stats.get('does_not_parse_as_lua51', 0)}")
    return body


ASSUME = [
    "full_moon's parser and its Visitor traversal order (the model reproduces the order hook by hook; any divergence shows up as a table mismatch)",
    "identifier identity: the Rust keys references by the token's byte range, the model by the token index (bijective on one file)",
    "the standard library enters through an oracle computed by the real code for the names / call paths of each program (global_has_fields, `observes: write` arguments); their agreement with the library definition is C06",
    "resolution equivalence is a Lean theorem for the resolution machine of Scope/Core.lean (C01_log); the machine's log and lint output are compared with the implementation on every program, as are the full model's tables",
]
