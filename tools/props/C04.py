"""C04: the seventeen closed-form syntactic lints.  Two halves built on the same conventions:
C04A (nine expression-level lints, namespace Selene.Lints) and C04B (eight statement-level lints,
namespace Selene.LintsB).  This check proves both property modules and runs both correspondence streams."""
from tools import vlib
from tools.props import C04A, C04B

PROP_MODULES = C04A.PROP_MODULES + C04B.PROP_MODULES

RULE = "C04A: " + C04A.RULE + " || C04B: " + C04B.RULE


def body(ctx):
    C04A.body(ctx)
    C04B.body(ctx)


def check(ctx):
    ctx.assumptions = list(C04A.ASSUME) + [a for a in C04B.ASSUME if a not in C04A.ASSUME]
    return vlib.standard_check(
        ctx, PROP_MODULES, body,
        trusted=vlib.BASE_TRUST + ["harness/src/astdump.rs (AST exchange format) and lean/Selene/Lua/Read.lean",
                                   "harness/src/c04a.rs / c04b.rs: byte range -> token range mapping, table-separator indices, template generators"],
        rule=RULE)
