from tools import vlib
from tools.props import scope_common as sc

RULE = ("47 use snippets (type / count / method / no-field / not-writable / not-overridable problems, deprecated calls, expressions, fields and "
        "parameters, must_use statements) x 20 re-binding constructs (loops with function literals in their header expressions, closure-argument parameters; local, multi-local, first/second parameter, numeric and generic loop "
        "variables, local function, captured by a closure, method parameter, repeat-until local, if / else branch local) under lua51 extended "
        "with deprecated entries: the use inside the binding's scope must draw no incorrect_standard_library_use / deprecated / must_use "
        "diagnostic; the use after and before the scope must be linted exactly like the twin whose binding has a fresh name (token space); "
        "a control run shows the snippet fires without the binding; plus the whole-program stream (generated libraries over the generator's root names, which the programs also re-bind; lua51 + deprecated entries; dense call / access statements inside and after every binding construct; fixtures): every incorrect_standard_library_use / deprecated diagnostic with range and message vs the tree-level model, and judged by the Lua resolver (no diagnostic may start at an identifier Lua binds locally); plus the scope stream (must_use model vs implementation on every "
        "fixture / generated program); non-trivial = the control run fires")


def body(ctx):
    outdir, meta = ctx.harness("c07", 0)
    ctx.correspond(outdir, nontrivial_tag=lambda t: "control-fires" in t)
    # whole programs through the two tree-walking library lints: real diagnostics (ranges, messages) vs the tree-level model
    # of Selene/Std/Prog.lean; the hypothesis `firstRefCoherent` of C07_std_inside / C07_std_outside is evaluated on every program
    outdir, meta = ctx.harness("stdprog", 120 if ctx.tier == "quick" else 4000)
    ctx.correspond(outdir, nontrivial_tag=lambda t: "silent" not in t)
    n = 150 if ctx.tier == "quick" else 2000
    outdir, meta = ctx.harness("scope", n)
    # the scope stream ties the must_use / resolved-flag model to the code; its C01-C03 clauses belong to those properties
    ctx.correspond(outdir, nontrivial_tag=lambda t: "local-read" in t, ignore_spec=lambda item: not item.startswith("[C07]"))


def check(ctx):
    ctx.assumptions = list(sc.ASSUME) + [
        "incorrect_standard_library_use and deprecated are modelled over whole programs (Selene/Std/Prog.lean: traversal, gate, name path, call suffix, ranges, messages) and compared with the real diagnostics of every program; must_use is modelled over the call-statement table of the full ScopeVisitor model",
        "C07_std_inside / C07_std_outside carry the executable hypothesis firstRefCoherent (reads agree with the first reference recorded at their token), evaluated by the driver on every program of the run",
    ]
    return vlib.standard_check(ctx, ["Selene.Props.C07"], body,
                               trusted=vlib.BASE_TRUST + ["harness/src/c07.rs (program templates)"], rule=RULE)
