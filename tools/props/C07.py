from tools import vlib
from tools.props import scope_common as sc

RULE = ("26 use snippets (type / count / method / no-field / not-writable / not-overridable problems, deprecated calls, expressions, fields and "
        "parameters, must_use statements) x 13 re-binding constructs (local, multi-local, first/second parameter, numeric and generic loop "
        "variables, local function, captured by a closure, method parameter, repeat-until local, if / else branch local) under lua51 extended "
        "with deprecated entries: the use inside the binding's scope must draw no incorrect_standard_library_use / deprecated / must_use "
        "diagnostic; the use after and before the scope must be linted exactly like the twin whose binding has a fresh name (token space); "
        "a control run shows the snippet fires without the binding; plus the scope stream (must_use model vs implementation on every "
        "fixture / generated program); non-trivial = the control run fires")


def body(ctx):
    outdir, meta = ctx.harness("c07", 0)
    ctx.correspond(outdir, nontrivial_tag=lambda t: "control-fires" in t)
    n = 150 if ctx.tier == "quick" else 2000
    outdir, meta = ctx.harness("scope", n)
    # the scope stream ties the must_use / resolved-flag model to the code; its C01-C03 clauses belong to those properties
    ctx.correspond(outdir, nontrivial_tag=lambda t: "local-read" in t, ignore_spec=lambda item: not item.startswith("[C07]"))


def check(ctx):
    ctx.assumptions = list(sc.ASSUME) + [
        "the call-check and deprecated lints are modelled only up to their gate here (C05 models the call check itself); their gating is exercised by the twin programs",
    ]
    return vlib.standard_check(ctx, ["Selene.Props.C07"], body,
                               trusted=vlib.BASE_TRUST + ["harness/src/c07.rs (program templates)"], rule=RULE)
