from tools.props import C08


def check(ctx):
    C08.RULE = C08.RULE + "; for C09 additionally every comment in the leading trivia of ANY token (incl. else / end / until / EOF) is inspected: a well-formed filter naming a missing lint must be reported wherever it stands"
    return C08.check(ctx, modules=("Selene.Props.C09",))
