import os, random, re, json
from tools import vlib, cli

RULE = ("the real binary under rich | quiet | json | json2 | --luacheck | --luacheck --ranges on generated inputs with multi-line ranges, "
        "zero-width ranges (tokenizer errors), non-ASCII text before and inside diagnostics, CRLF line endings, parse errors and clean "
        "files, under the default configuration and under one that sets firing lints to allow; every style's output is parsed into rows (file, lint, severity, start line:col, message) and compared; groups of 2-6 of the files in one invocation, each style's rows compared with the union of its single-file rows; every JSON line "
        "must be one self-contained object; byte offsets and line/column of the json styles are recomputed from the source by the Lean "
        "location model and specification; non-trivial = a case with >= 2 diagnostics, a multi-line or zero-width range, CRLF, or non-ASCII text "
        "before a diagnostic")

EXTRA = {
    "multirange": "if x then\n\nend\nlocal t = {\n a = 1,\n a = 2 }\n",
    "nonascii_before": "local s = 'héllo wörld — ☃'; local unused_after = s\nprint(undefined_ü)\n",
    "nonascii_line2": "-- commentaire: éàü\nlocal ünused = 1\nlocal x = 'é' .. undefined_thing\n",
    "tokerr": "local x = 1 $ 2\n",
    "unclosed": "local s = \"abc\nprint(s)\n",
    "crlf_multi": "if a then\r\nend\r\nlocal q = 1\r\n",
    "emoji": "local t = '😀😀'; print(t, nope)\n",
    "badescape_ascii": "print(\"\\q\")\n",
    "badescape_nonascii": "print(\"\\é\")\nlocal unused_b = 1\n",
    "tokerr_nbsp": "local x = 1\u00a0+ 2\nlocal y = “q”\n",
    "tokerr_accent": "local caf\u00e9 = 1\r\nprint(undefined_z)\r\n",
    "deep": "local function f()\n  local function g()\n    return undefined_deep\n  end\n  return g\nend\nreturn f\n",
    "tabs": "\tlocal\tunused_tab = 1\n\t\tprint(undefined_tab)\n",
    # a file saved as "UTF-8 with BOM": whatever the tool makes of the mark, every style describes the bytes on disk
    # a label that spans more than a hundred lines, followed by another diagnostic (luacheck mode repeats a record per line)
    "longspan": "print(math.floor({\n" + "".join(f"  item_{i} = {i},\n" for i in range(150)) + "}))\nprint(undefined_after_long)\nlocal unused_after_long = 1\n",
    "bom": "\ufefflocal unused_bom = 1\nprint(undefined_bom)\n",
    "bom_crlf": "\ufeffprint(undefined_bom)\r\nlocal unused_bom = 1\r\n",
}


def strip_ansi(s):
    return re.sub(r"\x1b\[[0-9;]*m", "", s)


def parse_rich(out):
    rows = []
    lines = strip_ansi(out).splitlines()
    i = 0
    while i < len(lines):
        m = re.match(r"^(error|warning)\[([a-z_0-9]+)\]: (.*)$", lines[i])
        if m:
            sev, code, msg = m.groups()
            j = i + 1
            while j < len(lines) and not re.match(r"^\s*┌─ ", lines[j]):
                if re.match(r"^(error|warning)\[", lines[j]):
                    break
                j += 1
            if j < len(lines):
                mm = re.match(r"^\s*┌─ (.*):(\d+):(\d+)$", lines[j])
                if mm:
                    rows.append((mm.group(1), code, sev, int(mm.group(2)), int(mm.group(3)), msg))
            i = j
        i += 1
    return rows


def parse_luacheck(out, ranges):
    rows = []
    pat = re.compile(r"^(.*?):(\d+):(\d+)" + (r"-(\d+)" if ranges else r"") + r": \((E|W)000\) \[([a-z_0-9]+)\] (.*)$")
    for line in out.splitlines():
        m = pat.match(line)
        if m:
            g = m.groups()
            if ranges:
                f, l, c, _e, sev, code, msg = g
            else:
                f, l, c, sev, code, msg = g
            rows.append((f, code, "error" if sev == "E" else "warning", int(l), int(c), msg))
    return rows


def row_sx(r):
    f, code, sev, l, c, msg = r
    return f"({cli.sq(f)} {cli.sq(code)} {sev} {l} {c} {cli.sq(msg)})"


def crashed(err):
    return "The application panicked" in err or "panicked at" in err


def one_case(ctx, lines, d, fname, src, cfg=()):
    cfg = list(cfg)
    styles = {}
    diags_sx, locs = [], []
    full_spans = []      # (row, last line of the primary label) of every json2 diagnostic
    # json2 first: byte ranges
    rc, out, err = cli.run_selene(cfg + ["--display-style", "json2", "--num-threads", "1", "--no-summary", fname], d)
    if crashed(err):
        styles["json2"] = None
    else:
        dj, _, bad = cli.parse_json_lines(out)
        if bad:
            ctx.violation("implementation violates the specification: json2 output contains a line that is not a self-contained JSON object",
                          f"file: {os.path.join(d, fname)}\nline: {bad[0][:300]}")
        rows = []
        for x in dj:
            sp = x["primary_label"]["span"]
            sev = x["severity"].lower()
            rows.append((x["primary_label"]["filename"], x["code"], sev, sp["start_line"] + 1, sp["start_column"] + 1, x["message"]))
            full_spans.append((rows[-1], sp["end_line"] + 1))
            diags_sx.append(f"({cli.sq(x['primary_label']['filename'])} {cli.sq(x['code'])} {sev} {sp['start']} {sp['end']} {cli.sq(x['message'])})")
            locs.append(f"({sp['start']} {sp['start_line']} {sp['start_column']})")
            locs.append(f"({sp['end']} {sp['end_line']} {sp['end_column']})")
            for sl in x.get("secondary_labels", []):
                s2 = sl["span"]
                locs.append(f"({s2['start']} {s2['start_line']} {s2['start_column']})")
        styles["json2"] = rows
    rc, out, err = cli.run_selene(cfg + ["--display-style", "json", "--num-threads", "1", "--no-summary", fname], d)
    if crashed(err):
        styles["json"] = None
    else:
        dj, _, bad = cli.parse_json_lines(out)
        styles["json"] = [(x["primary_label"]["filename"], x["code"], x["severity"].lower(), x["primary_label"]["span"]["start_line"] + 1,
                           x["primary_label"]["span"]["start_column"] + 1, x["message"]) for x in dj]
    rc, out, err = cli.run_selene(cfg + ["--display-style", "quiet", "--num-threads", "1", "--no-summary", "--color", "never", fname], d)
    if crashed(err):
        styles["quiet"] = None
    else:
        q, _ = cli.parse_quiet(out)
        styles["quiet"] = [(x["file"], x["code"], x["sev"], int(x["line"]), int(x["col"]), x["msg"]) for x in q]
    rc, out, err = cli.run_selene(cfg + ["--display-style", "rich", "--num-threads", "1", "--no-summary", "--color", "never", fname], d)
    styles["rich"] = None if crashed(err) else parse_rich(out)
    # luacheck: parse errors are not printed in this mode; multi-line diagnostics are repeated once per line (first row compared)
    for name, extra in (("luacheck", []),):
        rc, out, err = cli.run_selene(cfg + ["--luacheck", "--num-threads", "1", fname] + extra, d)
        if crashed(err):
            styles[name] = None
        else:
            rows = parse_luacheck(out, False)
            ref = styles.get("quiet") or []
            # in this mode stdout consists of records only (parse errors are rendered by codespan, also here)
            if not any(r[1] == "parse_error" for r in ref):
                strict = re.compile(r"^[^:]+:\d+:\d+: \((E|W)000\) \[[a-z_0-9]+\] ")
                for line in out.splitlines():
                    if line.strip() and not strict.match(line):
                        ctx.violation("implementation violates the specification: a line of the luacheck-compatible output is not one whole record `file:line:col: (E000|W000) [lint] message`",
                                      f"file: {os.path.join(d, fname)}\nconfiguration arguments: {' '.join(cfg) or '(default)'}\nline: {line[:300]!r}\nsource:\n{src[:600]}")
                        break
                if out and not out.endswith("\n"):
                    ctx.violation("implementation violates the specification: the luacheck-compatible output ends in the middle of a record (no line end)",
                                  f"file: {os.path.join(d, fname)}\nconfiguration arguments: {' '.join(cfg) or '(default)'}\ntail: {out[-200:]!r}\nsource:\n{src[:600]}")
            # keep first row per diagnostic: rows that coincide with a reference start; the continuation rows of a diagnostic whose
            # label spans several lines are exactly one per further line of THAT label, in column 1 — anything else is a record of its own
            refset = set(ref)
            first = [r for r in rows if r in refset]
            cont = [r for r in rows if r not in refset]
            allowed = []
            for (f, code, sev, l, c, msg), end_l in full_spans:
                allowed += [(f, code, sev, k, 1, msg) for k in range(l + 1, end_l + 1)]
            bad_cont = []
            for r in cont:
                if r in allowed:
                    allowed.remove(r)
                else:
                    bad_cont.append(r)
            styles[name] = first + bad_cont + [x for x in ref if x[1] == "parse_error"]  # parse errors use the codespan path in every mode
    rc, out, err = cli.run_selene(cfg + ["--luacheck", "--ranges", "--num-threads", "1", fname], d)
    if crashed(err):
        styles["luacheck-ranges"] = None
    st_sx = []
    for name in ("json2", "json", "quiet", "rich", "luacheck"):
        rows = styles[name]
        st_sx.append(f"({name} crashed)" if rows is None else f"({name} ({' '.join(row_sx(r) for r in rows)}))")
    if styles.get("luacheck-ranges", 0) is None:
        st_sx.append("(luacheck crashed)")
    lines.append(f"C20.styles\t({cli.sq(src)} ({' '.join(diags_sx)}) ({' '.join(st_sx)}) ({' '.join(locs)}))\tok")
    return styles


def joint_case(ctx, d, fnames, single, threads):
    """several files in ONE invocation: under every style the records are the union of what the same style says about each
    file on its own — same file names, positions, severities, messages (a record that names another file of the run, or a
    position of another file's text, is not the same record)"""
    runs = {
        "json2": ["--display-style", "json2"],
        "json": ["--display-style", "json"],
        "quiet": ["--display-style", "quiet", "--color", "never"],
        "rich": ["--display-style", "rich", "--color", "never"],
    }
    for name, flags in runs.items():
        if any(single[f].get(name) is None for f in fnames):
            continue
        rc, out, err = cli.run_selene(flags + ["--num-threads", str(threads), "--no-summary"] + fnames, d)
        ctx.evaluations += 1
        if crashed(err):
            got = None
        elif name in ("json", "json2"):
            dj, _, bad = cli.parse_json_lines(out)
            got = [(x["primary_label"]["filename"], x["code"], x["severity"].lower(), x["primary_label"]["span"]["start_line"] + 1,
                    x["primary_label"]["span"]["start_column"] + 1, x["message"]) for x in dj]
        elif name == "quiet":
            q, _ = cli.parse_quiet(out)
            got = [(x["file"], x["code"], x["sev"], int(x["line"]), int(x["col"]), x["msg"]) for x in q]
        else:
            got = parse_rich(out)
        want = sorted(r for f in fnames for r in single[f][name])
        if got is None or sorted(got) != want:
            only_joint = [r for r in (got or []) if r not in want][:3]
            only_single = [r for r in want if r not in (got or [])][:3]
            ctx.violation(f"implementation violates the specification: [C20] style {name}: {len(fnames)} files checked in one invocation (--num-threads {threads}) are not described by the records the same style prints for each of them alone",
                          f"directory: {d}\nfiles: {' '.join(fnames)}\narguments: {' '.join(flags)} --num-threads {threads} --no-summary\n"
                          f"records only in the joint run: {only_joint}\nrecords only in the single-file runs: {only_single}\n" + ("the joint run crashed\n" if got is None else ""))
            return
    ctx.nontrivial.add(f"joint-run-{threads}")


def gen_program(rng):
    """small random programs mixing warning / error lints, non-ASCII text, multi-line constructs"""
    parts = []
    n = rng.randint(1, 6)
    for i in range(n):
        k = rng.randrange(9)
        pad = rng.choice(["", "  ", "\t", "local _s = 'é' ", "--[[ ü ]] "])
        if k == 0: parts.append(f"{pad}local unused_{i} = {i}")
        elif k == 1: parts.append(f"{pad}print(undefined_{i})")
        elif k == 2: parts.append(f"{pad}if cond_{i} then\n\nend")
        elif k == 3: parts.append(f"{pad}local t{i} = {{\n  k = 1,\n  k = 2,\n}}\nprint(t{i})")
        elif k == 4: parts.append(f"{pad}print('ünï' .. undefined_s{i})")
        elif k == 5: parts.append(f"{pad}local a{i}, b{i} = 1")
        elif k == 6: parts.append(f"{pad}while true do\nend")
        elif k == 7: parts.append(f"{pad}print(1 / 0)")
        else: parts.append(f"{pad}local ok_{i} = 1; print(ok_{i})")
    nl = rng.choice(["\n", "\n", "\r\n"])
    return nl.join("\n".join(parts).split("\n")) + nl


def body(ctx):
    rng = random.Random(ctx.seed)
    d = os.path.join(ctx.workdir, "files")
    os.makedirs(d, exist_ok=True)
    cli.write_config(d)
    lines = []
    fixed = dict(cli.FILE_KINDS); fixed.update(EXTRA)
    fixed.pop("bigwarn", None)
    for name, src in fixed.items():
        fname = f"k_{name}.lua"
        with open(os.path.join(d, fname), "w", newline="") as fh:
            fh.write(src)
        one_case(ctx, lines, d, fname, src)
    # a second configuration in which lints that fire in these programs are set to `allow`: every style must leave
    # them out, completely
    cli.write_config(d, lints={"unused_variable": "allow", "empty_if": "allow", "divide_by_zero": "allow", "unbalanced_assignments": "deny"}, name="allow.toml")
    n = 25 if ctx.tier == "quick" else 400
    single = {}
    for i in range(n):
        src = gen_program(rng)
        fname = f"g_{i}.lua"
        with open(os.path.join(d, fname), "w", newline="") as fh:
            fh.write(src)
        single[fname] = one_case(ctx, lines, d, fname, src)
        if i % 2 == 0:
            one_case(ctx, lines, d, fname, src, cfg=["--config", "allow.toml"])
    # the same files, several per invocation
    names = sorted(single)
    for k in range(6 if ctx.tier == "quick" else 60):
        group = rng.sample(names, min(len(names), rng.randint(2, 6)))
        joint_case(ctx, d, group, single, 1 if k % 3 != 2 else 2)
    for name in ("warn", "mixed", "multirange", "nonascii_line2"):
        if name in fixed:
            one_case(ctx, lines, d, f"k_{name}.lua", fixed[name], cfg=["--config", "allow.toml"])
    outdir = os.path.join(ctx.workdir, "c20")
    os.makedirs(outdir, exist_ok=True)
    with open(os.path.join(outdir, "cases.tsv"), "w") as fh:
        fh.write("\n".join(lines) + "\n")
    ctx.correspond(outdir, nontrivial_tag=lambda t: any(x in t for x in ("multi", "multi-line-range", "zero-width", "crlf", "after-non-ascii")))


def check(ctx):
    ctx.assumptions = [
        "codespan's renderer (rich/quiet layout, clamping of end offsets) is modelled only through the header row it prints",
        "luacheck mode repeats a multi-line diagnostic once per line by documented design; its first row carries the start position compared here, continuation rows must start in column 1",
    ]
    return vlib.standard_check(ctx, ["Selene.Props.C20"], body,
                               trusted=vlib.BASE_TRUST + ["tools/props/C20.py output parsers for the five styles"],
                               rule=RULE, need_selene=True)
