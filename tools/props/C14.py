import os, subprocess, sys
from tools import vlib

RULE = ("every fixture / corpus / generated program inside the modelled syntax is linted together with a twin in which a random subset of its "
        "purely script-introduced spellings (every occurrence is a declaration or resolves to a declaration; no unresolved or hoisted use) is "
        "renamed injectively to fresh names `zq<k>v` — a quarter of them longer than 32 bytes, `_`-prefixed names keep their prefix so the "
        "default ignore patterns agree — only in variable positions (declarations, name expressions and prefixes, the root of a function "
        "name), never field or method names; diagnostics are compared in token space with the fresh names mapped back inside messages; "
        "non-trivial = the pair has at least one diagnostic")


def body(ctx):
    n = 300 if ctx.tier == "quick" else 5000
    outdir, meta = ctx.harness("c14", n)
    ctx.correspond(outdir, nontrivial_tag=lambda t: "diagnostics" in t, shrink_group="c14")
    # the same under the Roblox base library (the four roblox_* lints are on): corpus + generated programs with a prologue of
    # Color3 / UDim2 constructor calls
    outdir, meta = ctx.harness("c14r", n // 3)
    ctx.correspond(outdir, nontrivial_tag=lambda t: "diagnostics" in t, shrink_group="c14r")
    # … and under end-anchored ignore patterns (`^_$` for unused_variable, shadowing, unscoped_variables): a name that merely
    # starts with `_` matches no pattern before or after, so it is renamed to a name without the prefix
    outdir, meta = ctx.harness("c14p", n // 3)
    ctx.correspond(outdir, nontrivial_tag=lambda t: "diagnostics" in t, shrink_group="c14p")
    # manual_table_clone against its model (whose syntactic half is proved spelling-independent up to `pairs` / `ipairs` / `next`:
    # C14_clone_shape_invariant): loops over `pairs`, `ipairs`, `next`, and script functions with names like `spairs`, `xipairs`
    outdir, meta = ctx.harness("clone", 100 if ctx.tier == "quick" else 1500)
    ctx.correspond(outdir, nontrivial_tag=lambda t: "reported" in t)
    cli_keyword_like_names(ctx)
    ctx.notes.append(f"renamed names: {ctx.stats.get('renamed_names', 0)}, to names longer than 32 bytes: {ctx.stats.get('rename_to_long_name', 0)}, "
                     f"library-root spellings that were script-bound: {ctx.stats.get('renamed_name_is_library_root_but_script_bound', 0)}")


def cli_keyword_like_names(ctx):
    """through the command-line tool, whose parser follows the library's dialects: a variable spelled like a word that only OTHER
    dialects reserve (`goto` under lua51 / luau, `continue`, `type`, `export` under luau) is an ordinary script-chosen name —
    the file and its twin with that name replaced by a fresh one of the same length get the same diagnostics up to the name"""
    from tools import cli
    d = os.path.join(ctx.workdir, "keywordlike")
    os.makedirs(d, exist_ok=True)
    template = ("local NAME = 10\n\nlocal function advance(NAME, step)\n    return NAME + step\nend\n\n"
                "local total = advance(1, 2, 3)\nprint(missing_value)\nfor NAME = 1, 2 do end\n")
    for std, names in (("lua51", ["goto"]), ("luau", ["goto", "continue", "type", "export"]), ("lua52", ["continue", "export"])):
        with open(os.path.join(d, f"cfg_{std}.toml"), "w") as fh:
            fh.write(f'std = "{std}"\n')
        for name in names:
            fresh = ("zqxjvwkyh")[:len(name)].ljust(len(name), "q")
            outs = []
            for label, ident in (("original", name), ("twin", fresh)):
                fname = f"{std}_{name}_{label}.lua"
                with open(os.path.join(d, fname), "w") as fh:
                    fh.write(template.replace("NAME", ident))
                rc, out, err = cli.run_selene(["--config", f"cfg_{std}.toml", "--display-style", "json2", "--num-threads", "1", fname], d)
                diags, summary, bad = cli.parse_json_lines(out)
                canon = sorted((x.get("code"), x["primary_label"]["span"]["start"], x["primary_label"]["span"]["end"], x.get("severity"),
                                x.get("message", "").replace(ident, "NAME"), tuple(n.replace(ident, "NAME") for n in x.get("notes", [])),
                                tuple((l["span"]["start"], l["span"]["end"], l.get("message", "").replace(ident, "NAME")) for l in x.get("secondary_labels", []))) for x in diags)
                outs.append((fname, canon, summary is None or "panicked" in err))
            ctx.evaluations += 1
            (f1, c1, bad1), (f2, c2, bad2) = outs
            if bad1 or bad2 or c1 != c2:
                only1 = [x for x in c1 if x not in c2][:3]
                only2 = [x for x in c2 if x not in c1][:3]
                ctx.violation(f"implementation violates the specification: [C14] under std = \"{std}\" a variable named `{name}` (not a reserved word of that library's dialects) and the same file with the name replaced by `{fresh}` are diagnosed differently",
                              f"directory: {d}\nconfig: cfg_{std}.toml\nfiles: {f1} / {f2}\nonly for `{name}`: {only1}\nonly for `{fresh}`: {only2}")
            else:
                ctx.nontrivial.add(f"keywordlike-{std}-{name}")


def check(ctx):
    # the table of special spellings is regenerated from /repo's source before the theorems are built
    subprocess.run([sys.executable, os.path.join(vlib.VERIF, "tools", "translate.py")], check=True)
    ctx.assumptions = [
        "special names (self, _G, shared, type, typeof, Roact, React, game, script, workspace, _, _ENV, arg, pairs, ipairs, next; field names ref, key, children) and spellings of the library's class table are never renamed",
        "the full renaming-simulation theorem over the scope model is pending; the Lean file proves the lookup/declare commutation lemmas it rests on",
    ]
    return vlib.standard_check(ctx, ["Selene.Props.C14"], body,
                               trusted=vlib.BASE_TRUST + ["harness/src/twin.rs (renamer: uses the AST dump to find variable-position tokens)", "tools/translate.py (regex extraction of the string literals lints compare names with, regenerated on every run)"], rule=RULE + "; through the command-line tool: variables spelled like words only other dialects reserve (goto, continue, type, export) vs a same-length fresh name, under lua51 / lua52 / luau", need_selene=True)
