import os, subprocess, sys
from tools import vlib

RULE = ("every fixture / corpus / generated program inside the modelled syntax is linted together with a twin in which a random subset of its "
        "purely script-introduced spellings (every occurrence is a declaration or resolves to a declaration; no unresolved or hoisted use) is "
        "renamed injectively to fresh names `zq<k>v` — a quarter of them longer than 32 bytes, `_`-prefixed names keep their prefix so the "
        "default ignore patterns agree — only in variable positions (declarations, name expressions and prefixes, the root of a function "
        "name), never field or method names; diagnostics are compared in token space with the fresh names mapped back inside messages; "
        "non-trivial = the pair has at least one diagnostic")


def body(ctx):
    n = 300 if ctx.tier == "quick" else 5000
    outdir, meta = ctx.harness("c14", n)
    ctx.correspond(outdir, nontrivial_tag=lambda t: "diagnostics" in t, shrink_group="c14")
    # the same under the Roblox base library (the four roblox_* lints are on): corpus + generated programs with a prologue of
    # Color3 / UDim2 constructor calls
    outdir, meta = ctx.harness("c14r", n // 3)
    ctx.correspond(outdir, nontrivial_tag=lambda t: "diagnostics" in t, shrink_group="c14r")
    # … and under end-anchored ignore patterns (`^_$` for unused_variable, shadowing, unscoped_variables): a name that merely
    # starts with `_` matches no pattern before or after, so it is renamed to a name without the prefix
    outdir, meta = ctx.harness("c14p", n // 3)
    ctx.correspond(outdir, nontrivial_tag=lambda t: "diagnostics" in t, shrink_group="c14p")
    # manual_table_clone against its model (whose syntactic half is proved spelling-independent up to `pairs` / `ipairs` / `next`:
    # C14_clone_shape_invariant): loops over `pairs`, `ipairs`, `next`, and script functions with names like `spairs`, `xipairs`
    outdir, meta = ctx.harness("clone", 100 if ctx.tier == "quick" else 1500)
    ctx.correspond(outdir, nontrivial_tag=lambda t: "reported" in t)
    ctx.notes.append(f"renamed names: {ctx.stats.get('renamed_names', 0)}, to names longer than 32 bytes: {ctx.stats.get('rename_to_long_name', 0)}, "
                     f"library-root spellings that were script-bound: {ctx.stats.get('renamed_name_is_library_root_but_script_bound', 0)}")


def check(ctx):
    # the table of special spellings is regenerated from /repo's source before the theorems are built
    subprocess.run([sys.executable, os.path.join(vlib.VERIF, "tools", "translate.py")], check=True)
    ctx.assumptions = [
        "special names (self, _G, shared, type, typeof, Roact, React, game, script, workspace, _, _ENV, arg, pairs, ipairs, next; field names ref, key, children) and spellings of the library's class table are never renamed",
        "the full renaming-simulation theorem over the scope model is pending; the Lean file proves the lookup/declare commutation lemmas it rests on",
    ]
    return vlib.standard_check(ctx, ["Selene.Props.C14"], body,
                               trusted=vlib.BASE_TRUST + ["harness/src/twin.rs (renamer: uses the AST dump to find variable-position tokens)", "tools/translate.py (regex extraction of the string literals lints compare names with, regenerated on every run)"], rule=RULE)
