import re
from tools import vlib

RULE = ("units = one generated library defining a single function (`fn`, `obj.fn`, method or not; 0-5 parameters in every mix of required / "
        "required-with-message / optional / `...` (required, with message, optional, also mid-list) / constant-list / display / every basic type) "
        "x generated call statements (0..N+2 arguments; argument expressions of depth <= 2 over nil/true/false/numbers/strings in single, double and "
        "long-bracket quotes level 0-2/`...`/calls/names/tables/functions/parentheses/unary # - not/all 15 binary operators; string-call and "
        "table-call sugar; `:` vs `.`; a quarter of the units one call per source file), run through the real Checker (all lints, default config) and "
        "mapped back to statement and argument by byte range; the call shape given to the model is dumped from the tree full_moon parsed; plus probes "
        "shaped like collectgarbage / math.abs / math.max and non-function field kinds; plus bounded-exhaustive: every function with <= 2 (quick) / "
        "<= 3 (thorough) parameters over an 8-letter parameter alphabet x every argument list of length <= 2 (quick) / <= 3 (thorough) over 9 argument "
        "kinds (nil, true, 1, \"count\", [[count]], ..., g(), x, {}), in thorough also lengths 4 and 5 with the last two positions over all 81 pairs, "
        "and 5 sugar forms; non-trivial = the model reported a problem, or the call is open / uses sugar / passes nil for an optional parameter")

NONTRIVIAL = ("style", "needs-vararg", "count-few", "count-many", "type-mismatch", "type-mismatch-string", "const-mismatch", "open",
              "string-call", "table-call", "nil-for-optional", "not-function", "long-bracket", "string-arith")


def nontrivial(tags):
    return any(t in NONTRIVIAL for t in tags)


def cap_replays(ctx, cap=3):
    """Every BAD case counts (impl_vs_spec_failures) and every category is reported, but at most `cap` replay files are
    written per verdict category (a defect in the code under test shows up in thousands of generated calls)."""
    orig = ctx.violation
    recorded, suppressed = {}, {}

    def capped(what, replay_text, no_input=False):
        m = re.search(r"C05\.call: ([a-z]+/[a-z-]+)", what)
        cat = m.group(1) if m else what[:60]
        if recorded.get(cat, 0) >= cap:
            hay = what + "\n" + replay_text
            for f in ctx.findings:
                if f["kind"] == "finding" and re.search(f["key"], hay, re.S):
                    if f not in ctx.known:
                        ctx.known.append(f)
                    return False
            suppressed[cat] = suppressed.get(cat, 0) + 1
            return True
        r = orig(what, replay_text, no_input)
        if r:
            recorded[cat] = recorded.get(cat, 0) + 1
        return r

    ctx.violation = capped
    return recorded, suppressed


def body(ctx):
    recorded, suppressed = cap_replays(ctx)
    try:
        run_streams(ctx)
    finally:
        for cat in sorted(recorded):
            ctx.notes.append(f"verdict category {cat}: {recorded[cat] + suppressed.get(cat, 0)} cases ({recorded[cat]} replay files written)")


def run_streams(ctx):
    n = 250 if ctx.tier == "quick" else 3000
    outdir, meta = ctx.harness("c05", n)
    ctx.correspond(outdir, nontrivial_tag=nontrivial)
    if ctx.tier == "thorough":
        for k in range(1, 3):
            outdir, meta = ctx.harness("c05", n, seed=ctx.seed + k, name=f"c05-{k}", extra=["--no-exhaustive"])
            ctx.correspond(outdir, nontrivial_tag=nontrivial)
    # whole programs: every incorrect_standard_library_use diagnostic of generated programs under generated libraries, with range and
    # message, vs the tree-level model of Selene/Std/Prog.lean — the model `C05_prog_*` lifts this property's theorems to
    outdir, meta = ctx.harness("stdprog", 60 if ctx.tier == "quick" else 2500)
    ctx.correspond(outdir, nontrivial_tag=lambda t: any(x in t for x in ("count", "type", "style", "needs-vararg", "not-function")), ignore_spec=lambda item: not item.startswith("[C05]"))


def check(ctx):
    ctx.assumptions = [
        "a call is abstracted to (field kind, call style, argument form, argument expressions); name-path lookup is C06, the scope gate is C01/C07",
        "string literal content = the text between the delimiters as written (full_moon's `literal`); escape sequences are not interpreted, "
        "neither by the code nor by the specification",
        "the specification's static reading of argument expressions is metamethod-free (the caveat stated in the lint's source): arithmetic yields "
        "a number, `..` a string, comparisons/not a boolean, `#` a number; an operator applied to an operand it cannot take yields no value, and an "
        "argument that yields no value counts as definitely wrong; `maybeNumeral` over-approximates which strings convert to numbers",
        "minimum argument count with a trailing required `...` = number of parameters (docs: 'will lint if no additional arguments are given'); "
        "otherwise the number of parameters not marked `required: false`; `nil` is acceptable for an optional parameter",
        "table constructors and anonymous functions are opaque (`{}` stands for any constructor); only Lua 5.1 expression forms are generated",
    ]
    return vlib.standard_check(
        ctx, ["Selene.Props.C05"], body,
        trusted=vlib.BASE_TRUST + ["full_moon's parser and token Display (the call shape and string token text are taken from its tree)"],
        rule=RULE)
