from tools import vlib

RULE = ("every fixture / corpus / generated program plus 15 hand-written edge programs (empty, comment-only, CRLF, non-ASCII strings / comments / "
        "escapes, long names, deep nesting, odd numerals, call sugar chains, methods and varargs, Luau / 5.2 / 5.4 syntax) parsed under the "
        "dialect of each built-in library (lua51, lua52, lua53, luau, roblox_base) and linted under the default or a random lint "
        "configuration with catch_unwind: no panic, every diagnostic's lint name exists, every primary / secondary range has start <= end, "
        "lies inside the source and on character boundaries; generated libraries that round-trip through YAML text (incl. fields naming "
        "undefined structs and odd deprecation formats such as %0, %99999999999999999999, lone %) against programs that read, call and "
        "assign their paths; Deprecated::try_instead vs the Lean model; non-trivial = a case that produced diagnostics or used a generated library")


def body(ctx):
    n = 120 if ctx.tier == "quick" else 2500
    outdir, meta = ctx.harness("c11", n)
    ctx.correspond(outdir, nontrivial_tag=lambda t: True)
    ctx.notes.append(f"diagnostics whose names and ranges were checked: {ctx.stats.get('diagnostics_checked', 0)}; "
                     f"generated libraries with a dangling struct reference: {ctx.stats.get('library_with_dangling_struct_reference', 0)}; "
                     f"program x dialect pairs that do not parse (skipped): {ctx.stats.get('does_not_parse_under_this_dialect', 0)}")


def check(ctx):
    ctx.assumptions = [
        "of the ~250 unwrap / expect / unreachable sites only those listed in Props/C11.lean are modelled; the rest rely on full_moon invariants and are covered by the catch_unwind run only (support, not proof)",
        "a panic inside full_moon's parser is counted against C11 (the CLI worker dies) although it cannot be repaired in selene",
    ]
    return vlib.standard_check(ctx, ["Selene.Props.C11"], body, trusted=vlib.BASE_TRUST, rule=RULE)
