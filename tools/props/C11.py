import os
from tools import vlib, cli

RULE = ("every fixture / corpus / generated program plus 15 hand-written edge programs (empty, comment-only, CRLF, non-ASCII strings / comments / "
        "escapes, long names, deep nesting, odd numerals, call sugar chains, methods and varargs, Luau / 5.2 / 5.4 syntax) parsed under the "
        "dialect of each built-in library (lua51, lua52, lua53, luau, roblox_base) and linted under the default or a random lint "
        "configuration with catch_unwind: no panic, every diagnostic's lint name exists, every primary / secondary range has start <= end, "
        "lies inside the source and on character boundaries; generated libraries that round-trip through YAML text (incl. fields naming "
        "undefined structs and odd deprecation formats such as %0, %99999999999999999999, lone %) against programs that read, call and "
        "assign their paths; hostile-but-loadable libraries through the real binary (cyclic / dangling / 400-deep Roblox class hierarchies, struct "
        "cycles through fields and wildcards): the process must neither panic nor overflow its stack; Deprecated::try_instead vs the Lean model; inputs that are long in one dimension (64-term operator chains in library-call arguments, wide tables, many locals) must be linted within a minute; non-trivial = a case that produced diagnostics or used a generated library")


def body(ctx):
    n = 120 if ctx.tier == "quick" else 2500
    outdir, meta = ctx.harness("c11", n)
    ctx.correspond(outdir, nontrivial_tag=lambda t: True)
    hostile_libraries(ctx)
    big_inputs(ctx)
    ctx.notes.append(f"diagnostics whose names and ranges were checked: {ctx.stats.get('diagnostics_checked', 0)}; "
                     f"generated libraries with a dangling struct reference: {ctx.stats.get('library_with_dangling_struct_reference', 0)}; "
                     f"program x dialect pairs that do not parse (skipped): {ctx.stats.get('does_not_parse_under_this_dialect', 0)}")


HOSTILE_LIBS = {
    # libraries that load without error; linting with them must not crash (a stack overflow kills the whole process,
    # so these run through the real binary, one process per case)
    "class-cycle-2": "---\nname: roblox\nroblox_classes:\n  A:\n    superclass: B\n    properties: []\n    events: []\n  B:\n    superclass: A\n    properties: []\n    events: []\n",
    "class-cycle-self": "---\nname: roblox\nroblox_classes:\n  A:\n    superclass: A\n    properties: [Size]\n    events: []\n",
    "class-cycle-3": "---\nname: roblox\nroblox_classes:\n  A:\n    superclass: B\n    properties: []\n    events: []\n  B:\n    superclass: C\n    properties: []\n    events: []\n  C:\n    superclass: A\n    properties: [Size]\n    events: [Changed]\n",
    "class-dangling-super": "---\nname: roblox\nroblox_classes:\n  A:\n    superclass: Nowhere\n    properties: []\n    events: []\n",
    "class-chain-long": "---\nname: roblox\nroblox_classes:\n" + "".join(
        f"  K{i}:\n    superclass: K{i + 1}\n    properties: []\n    events: []\n" for i in range(400)) + "  K400:\n    superclass: Instance\n    properties: [Size]\n    events: []\n",
    "struct-cycle": "---\nname: roblox\nglobals:\n  g:\n    struct: S\nstructs:\n  S:\n    next:\n      struct: T\n  T:\n    back:\n      struct: S\n    \"*\":\n      struct: S\n",
    "struct-self-wildcard": "---\nname: roblox\nglobals:\n  g:\n    struct: S\nstructs:\n  S:\n    \"*\":\n      struct: S\n",
}
HOSTILE_PROGRAM = (
    "local e = Roact.createElement\n"
    "Roact.createElement(\"A\", { Foo = 1, Size = 2, [Roact.Event.Bar] = function() end, [Roact.Event.Changed] = print })\n"
    "e(\"K0\", { Size = 1, Nope = 2, [Roact.Event.Nope] = print })\n"
    "e(\"B\", { Foo = 1 })\n"
    "print(g.next.back.next.x.y.z, g.a.b.c.d.e, g.next.nope)\n"
    "g.next.back = 1\n"
)


def hostile_libraries(ctx):
    for name, text in HOSTILE_LIBS.items():
        d = os.path.join(ctx.workdir, "hostile-" + name)
        os.makedirs(d, exist_ok=True)
        with open(os.path.join(d, "roblox.yml"), "w") as fh:
            fh.write(text)
        with open(os.path.join(d, "prog.lua"), "w") as fh:
            fh.write(HOSTILE_PROGRAM)
        cli.write_config(d, std="roblox")
        for style in ("json2", "quiet"):
            rc, out, err = cli.run_selene(["--display-style", style, "--num-threads", "1", "prog.lua"], d, timeout=120)
            ctx.evaluations += 1
            ctx.nontrivial.add(("hostile", name, style))
            loaded = "failed to parse" not in err and "error parsing" not in err.lower()
            crashed = rc not in (0, 1) or "panicked" in err or "overflowed its stack" in err
            if loaded and crashed:
                ctx.violation(f"implementation violates the specification: [C11] the library `{name}` loads without error, "
                              f"then linting crashes (exit status {rc})",
                              f"directory: {d}\nroblox.yml:\n{text[:600]}\nprog.lua:\n{HOSTILE_PROGRAM}\nstyle: {style}\nexit status: {rc}\nstderr (tail):\n{err[-600:]}")
    ctx.stats["hostile_library_runs"] = 2 * len(HOSTILE_LIBS)


def big_inputs(ctx):
    """`checking completes`: inputs that are long in one dimension (64-term operator chains of constants in library-call
    arguments, concatenation chains, wide tables, many locals, long argument lists) are linted within a minute — they take
    milliseconds; an analysis that re-evaluates sub-expressions doubles with every term"""
    import subprocess
    d = os.path.join(ctx.workdir, "big")
    os.makedirs(d, exist_ok=True)
    cli.write_config(d)
    terms = [str(i + 1) for i in range(64)]
    files = {
        "sum_chain.lua": "print(math.floor(" + " + ".join(terms) + "))\n",
        "mixed_chain.lua": "local t = {}\nprint(math.max(" + " * ".join(terms[:32]) + " - #t / 2, " + " - ".join(terms) + "))\n",
        "concat_chain.lua": "print(string.rep(" + " .. ".join(f'\"s{i}\"' for i in range(64)) + ", 2))\n",
        "paren_chain.lua": "print(math.abs(" + "(" * 30 + "1" + "".join(f" + {i})" for i in range(30)) + "))\n",
        "wide_table.lua": "local t = { " + ", ".join(f"k{i} = {i}" for i in range(2000)) + " }\nprint(t)\n",
        "many_locals.lua": "".join(f"local v{i} = {i}\n" for i in range(180)) + "print(" + ", ".join(f"v{i}" for i in range(180)) + ")\n",
        "many_arguments.lua": "print(select(" + ", ".join(terms * 8) + "))\n",
        "comparison_chain.lua": "if " + " and ".join(f"x{i} == {i}" for i in range(64)) + " then end\n",
    }
    for name, src in files.items():
        with open(os.path.join(d, name), "w") as fh:
            fh.write(src)
        try:
            rc, out, err = cli.run_selene(["--display-style", "json2", "--num-threads", "1", name], d, timeout=60)
        except subprocess.TimeoutExpired:
            ctx.evaluations += 1
            ctx.violation(f"implementation violates the specification: [C11] checking {name} ({len(src)} bytes) does not complete within 60 seconds",
                          f"directory: {d}\nfile: {name}\nsource (head): {src[:300]}")
            continue
        ctx.evaluations += 1
        diags, summary, bad = cli.parse_json_lines(out)
        if summary is None or "panicked" in err or rc not in (0, 1):
            ctx.violation(f"implementation violates the specification: [C11] checking {name} fails (exit status {rc})",
                          f"directory: {d}\nfile: {name}\nstderr (tail): {err[-500:]}")
        else:
            ctx.nontrivial.add(("big", name))


def check(ctx):
    ctx.assumptions = [
        "of the ~250 unwrap / expect / unreachable sites only those listed in Props/C11.lean are modelled; the rest rely on full_moon invariants and are covered by the catch_unwind run only (support, not proof)",
        "a panic inside full_moon's parser is counted against C11 (the CLI worker dies) although it cannot be repaired in selene",
    ]
    return vlib.standard_check(ctx, ["Selene.Props.C11"], body, trusted=vlib.BASE_TRUST, rule=RULE, need_selene=True)
