import subprocess, sys, os
from tools import vlib

RULE = ("lua_version() on every built-in library, on all 64 subsets of the six known versions, random lists with unknown names, and "
        "base chains of generated libraries; the construct matrix (goto, label, //, bitwise ops, <const>, Luau types, compound assignment, "
        "interpolated strings, continue, LuaJIT literals, if-expressions, //=, plain 5.1) embedded in 6 contexts and parsed with the real "
        "full_moon under each version set; non-trivial = more than one or an unknown version declared, or a dialect-gated construct")


def body(ctx):
    n = 150 if ctx.tier == "quick" else 2000
    outdir, meta = ctx.harness("c16", n)
    ctx.correspond(outdir, nontrivial_tag=lambda t: any(x in t for x in ("multi", "unknown-version", "accept", "builtin")) and "plain51" not in t)


def check(ctx):
    subprocess.run([sys.executable, os.path.join(vlib.VERIF, "tools", "translate.py")], check=True)
    ctx.assumptions = [
        "acceptance by the parser is full_moon's: the model assumes `construct parses under V iff one of its enabling dialects is in V` (table Construct.enabledBy, transcribed from full_moon 1.2.0) and validates that on the construct matrix only",
        "all cargo dialect features are enabled (workspace build, as the pinned test command uses); `cargo build -p selene` alone drops lua52/53/54/luajit",
    ]
    return vlib.standard_check(
        ctx, ["Selene.Props.C16"], body,
        trusted=vlib.BASE_TRUST + ["tools/translate.py (regex extraction of base/lua_versions headers of default_std/*.yml, regenerated on every run)",
                                   "full_moon's parser and its LuaVersion bit table"],
        rule=RULE)
