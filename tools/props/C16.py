import subprocess, sys, os
from tools import vlib, cli

RULE = ("lua_version() on every built-in library, on all 64 subsets of the six known versions, random lists with unknown names, and "
        "base chains of generated libraries; the construct matrix (goto, label, //, bitwise ops, <const>, Luau types, compound assignment, "
        "interpolated strings, continue, LuaJIT literals, if-expressions, //=, plain 5.1) embedded in 6 contexts and parsed with the real "
        "full_moon under each version set; the command-line tool over chains of 1-33 std files with the dialect declared only at the bottom, sources named by path (`.lua`, `.luau`) and piped through `-`; project files named like a built-in library reached directly and through `base:`; non-trivial = more than one or an unknown version declared, or a dialect-gated construct")


def body(ctx):
    n = 150 if ctx.tier == "quick" else 2000
    outdir, meta = ctx.harness("c16", n)
    ctx.correspond(outdir, nontrivial_tag=lambda t: any(x in t for x in ("multi", "unknown-version", "accept", "builtin")) and "plain51" not in t)
    cli_chains(ctx)
    shadowed_builtins(ctx)


def cli_chains(ctx):
    """the command-line tool's resolver over chains of std *files* of growing length: the dialect is declared only at the
    bottom of the chain (or, once, in the middle), every file above it adds one global; the construct of the declared
    dialect must be accepted and a construct of an undeclared one rejected, however long the chain is"""
    d = os.path.join(ctx.workdir, "chains")
    os.makedirs(d, exist_ok=True)
    with open(os.path.join(d, "accept53.lua"), "w") as fh:
        fh.write("local x = 7 // 2\nlocal y = x & 3\nreturn x, y\n")
    with open(os.path.join(d, "accept52.lua"), "w") as fh:
        fh.write("do goto done end\n::done::\n")
    with open(os.path.join(d, "reject_luau.lua"), "w") as fh:
        fh.write("local n: number = 1\nreturn n\n")
    for length in ((1, 2, 9, 12) if ctx.tier == "quick" else (1, 2, 3, 5, 8, 9, 10, 12, 17, 33)):
        for bottom, good, bad in (("lua53", "accept53.lua", "reject_luau.lua"), ("lua52", "accept52.lua", "accept53.lua")):
            for i in range(1, length + 1):
                base = f"c{length}_{bottom}_{i + 1}" if i < length else bottom
                with open(os.path.join(d, f"c{length}_{bottom}_{i}.yml"), "w") as fh:
                    fh.write(f"---\nbase: {base}\nglobals:\n  layer_{i}:\n    any: true\n")
            cfg = f"cfg_{length}_{bottom}.toml"
            with open(os.path.join(d, cfg), "w") as fh:
                fh.write(f'std = "c{length}_{bottom}_1"\n')
            # the same sources under the other file extension selene collects (`*.luau`): the library decides, not the file name
            for fname in (good, bad):
                alt = fname[:-4] + "_as.luau"
                if not os.path.exists(os.path.join(d, alt)):
                    with open(os.path.join(d, alt), "w") as fh:
                        fh.write(open(os.path.join(d, fname)).read())
            cases = [(good, False), (bad, True)]
            if length in (1, 9):
                cases += [(good[:-4] + "_as.luau", False), (bad[:-4] + "_as.luau", True)]
            # … and the same sources piped through `selene -` (how editor integrations call the tool): the library decides there too
            if length in (1, 2, 9):
                cases += [("-:" + good, False), ("-:" + bad, True)]
            for fname, want_parse_error in cases:
                if fname.startswith("-:"):
                    rc, out, err = cli.run_selene(["--config", cfg, "--display-style", "json2", "--num-threads", "1", "-"], d,
                                                  stdin=open(os.path.join(d, fname[2:]), "rb").read())
                    fname = f"- (standard input, the text of {fname[2:]})"
                else:
                    rc, out, err = cli.run_selene(["--config", cfg, "--display-style", "json2", "--num-threads", "1", fname], d)
                diags, summary, badl = cli.parse_json_lines(out)
                got = any(x.get("code") == "parse_error" for x in diags)
                ctx.evaluations += 1
                ctx.nontrivial = getattr(ctx, "nontrivial", 0)
                if "panicked" in err or summary is None:
                    ctx.violation(f"implementation violates the specification: the command-line tool fails on a chain of {length} std files over {bottom}",
                                  f"directory: {d}\nconfig: {cfg}\nfile: {fname}\nstderr (head): {err[:500]}")
                elif got != want_parse_error:
                    ctx.violation(f"implementation violates the specification: with a chain of {length} std files whose last one has base {bottom} (no file declares lua_versions itself), "
                                  f"{fname} is {'rejected with a parse error' if got else 'accepted'}, but the effective library declares exactly the dialects of {bottom}",
                                  f"directory: {d}\nconfig: {cfg} (std = c{length}_{bottom}_1 -> ... -> c{length}_{bottom}_{length} -> {bottom})\nfile: {fname}\nstdout (head): {out[:500]}")


def shadowed_builtins(ctx):
    """a project file named like a built-in library (`lua52.yml`, `luau.yml`) is that library for this project — also when
    another file reaches it through `base:`: the dialects of the effective library are those the project's file declares"""
    for case, local, versions, program, want_parse_error in (
            ("widen", "lua52", ["lua52", "luajit"], "local big = 1LL\ngoto done\nprint(big)\n::done::\nprint(big)\n", False),
            ("narrow", "luau", ["lua52"], "local count: number = 1\ncount += 1\nprint(count)\n", True),
            ("narrow53", "lua53", ["lua51"], "local x = 7 // 2\nreturn x & 1\n", True),
            ("widen51", "lua51", ["lua51", "luau"], "local n: number = 1\nreturn n\n", False)):
        d = os.path.join(ctx.workdir, "shadowed_" + case)
        os.makedirs(d, exist_ok=True)
        with open(os.path.join(d, local + ".yml"), "w") as fh:
            fh.write("---\nlua_versions:\n" + "".join(f"  - {v}\n" for v in versions) + "globals:\n  print:\n    args:\n      - type: \"...\"\n")
        with open(os.path.join(d, "game.yml"), "w") as fh:
            fh.write(f"---\nbase: {local}\nglobals:\n  game.tick:\n    args: []\n")
        with open(os.path.join(d, "mid.yml"), "w") as fh:
            fh.write("---\nbase: game\nglobals:\n  mid:\n    any: true\n")
        with open(os.path.join(d, "input.lua"), "w") as fh:
            fh.write(program)
        for std in (local, "game", "mid"):
            with open(os.path.join(d, f"cfg_{std}.toml"), "w") as fh:
                fh.write(f'std = "{std}"\n')
            rc, out, err = cli.run_selene(["--config", f"cfg_{std}.toml", "--display-style", "json2", "--num-threads", "1", "input.lua"], d)
            diags, summary, badl = cli.parse_json_lines(out)
            got = any(x.get("code") == "parse_error" for x in diags)
            ctx.evaluations += 1
            if "panicked" in err or summary is None:
                ctx.violation(f"implementation violates the specification: the command-line tool fails with std = {std} next to a project file named {local}.yml",
                              f"directory: {d}\nconfig: cfg_{std}.toml\nstderr (head): {err[:500]}")
            elif got != want_parse_error:
                via = "" if std == local else f" (std = {std}, which reaches {local}.yml through base:)"
                ctx.violation(f"implementation violates the specification: the project's {local}.yml declares lua_versions {versions}{via}, but input.lua is {'rejected with a parse error' if got else 'accepted'}",
                              f"directory: {d}\nconfig: cfg_{std}.toml\nfiles: {local}.yml (lua_versions {versions}), game.yml (base: {local}), mid.yml (base: game)\nsource:\n{program}\nstdout (head): {out[:400]}")


def check(ctx):
    subprocess.run([sys.executable, os.path.join(vlib.VERIF, "tools", "translate.py")], check=True)
    ctx.assumptions = [
        "acceptance by the parser is full_moon's: the model assumes `construct parses under V iff one of its enabling dialects is in V` (table Construct.enabledBy, transcribed from full_moon 1.2.0) and validates that on the construct matrix only",
        "all cargo dialect features are enabled (workspace build, as the pinned test command uses); `cargo build -p selene` alone drops lua52/53/54/luajit",
    ]
    return vlib.standard_check(
        ctx, ["Selene.Props.C16"], body,
        trusted=vlib.BASE_TRUST + ["tools/translate.py (regex extraction of base/lua_versions headers of default_std/*.yml, regenerated on every run)",
                                   "full_moon's parser and its LuaVersion bit table"],
        rule=RULE, need_selene=True)
