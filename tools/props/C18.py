import os, random, re, json, subprocess
from tools import vlib, cli

RULE = ("the real binary with --num-threads 1 vs {2,4,16,64} on file sets mixing clean, warning-only, erroring, unparsable, missing, nested (2-4 blocks deep), "
        "large (60+ diagnostics, > 8 KiB of output) and tiny files, quiet and json2 styles; every run also records the hook event trace "
        "(job_start/add/lock/emit/unlock/job_end/totals), which the Lean pool model replays: a trace is rejected if a write happens outside "
        "a lock span, two spans overlap, a file's lint diagnostics use more than one span, or the summary differs from the sum of all "
        "additions; stdout of the multi-threaded run is parsed and compared per file with the sequential run; "
        "directory arguments of 24-40 many-warning files interleaved with entries that cannot be read or opened (directories and dangling symbolic links named *.lua), totals compared with the expected sums and across thread counts; "
        "a 1.2 MiB source among small ones (totals = sums over single-file runs at every thread count); "
        "several hundred files in nested directories under a low RLIMIT_NOFILE (1 vs 2/4/16 threads); "
        "non-trivial = a trace with >= 2 workers and >= 2 lock spans")

BIG = "".join(f"local big_{i} = {i}\n" for i in range(120))


def nested(depth):
    """`depth` nested blocks: the recursive visitors need stack in proportion — a worker whose stack differs from the
    sequential run's would crash (or not) where the other does not"""
    s = ""
    for k in range(depth):
        s += "  " * k + ("if cond%d then\n" % k if k % 2 == 0 else "while cond%d do\n" % k)
    s += "  " * depth + "local unused_inner = 1\n"
    for k in reversed(range(depth)):
        s += "  " * k + "end\n"
    return s


# files that begin with a comment of exactly the same length: an ordinary header in a long file without any filter, and a
# filter comment (inline / global) in a short file — whatever a worker remembers about the comments of one file must not
# carry over to the next file it lints
_F1 = "-- selene: allow(unused_variable)"
_F2 = "--# selene: allow(unused_variable)"
EXTRA_KINDS = {
    "hdr1": "-- " + "h" * (len(_F1) - 3) + "\n" + "print(1)\n" * 400,
    "hdr2": "-- " + "g" * (len(_F2) - 3) + "\n" + "print(2)\n" * 400,
    "flt1": _F1 + "\nlocal hidden_f = 1\n",
    "flt2": _F2 + "\nlocal hidden_g = 1\nlocal hidden_h = 2\n",
    "flt1b": _F1 + "\nlocal hidden_i = 1\nprint(undefined_after_filter)\n",
}


def make_set(ctx, name, rng, n_files):
    d = os.path.join(ctx.workdir, name)
    os.makedirs(d, exist_ok=True)
    files = []
    kinds = ["clean", "warn", "warn2", "err", "err2", "mixed", "parse", "parse2", "empty", "bigwarn", "BIG", "missing", "multiline", "crlf", "nest2", "nest3", "nest4",
             "hdr1", "hdr2", "flt1", "flt2", "flt1b", "hdr1", "flt1", "filtered", "comment"]
    for i in range(n_files):
        k = rng.choice(kinds)
        fname = f"f{i:03d}_{k}.lua"
        if k != "missing":
            with open(os.path.join(d, fname), "w", newline="") as fh:
                fh.write(BIG if k == "BIG" else nested(int(k[4:])) if k.startswith("nest") else EXTRA_KINDS[k] if k in EXTRA_KINDS else cli.FILE_KINDS[k])
        files.append(fname)
    cli.write_config(d, name="cfg.toml")
    return d, files


def parse_trace(path):
    evs = []
    for line in open(path, encoding="utf-8", errors="replace").read().splitlines():
        m = re.match(r"ThreadId\((\d+)\) (\w+)(?: (.*))?$", line)
        if not m:
            continue
        t, kind, rest = m.group(1), m.group(2), m.group(3) or ""
        T = f'"T{t}"'
        if kind == "job_start":
            evs.append(f"(job_start {T} {cli.sq(rest)})")
        elif kind == "job_end":
            evs.append(f"(job_end {T})")
        elif kind == "add":
            c, n = rest.split()
            evs.append(f"(add {T} {c} {n})")
        elif kind in ("lock", "unlock"):
            evs.append(f"({kind} {T})")
        elif kind == "emit":
            c, p = rest.rsplit(" ", 1)
            evs.append(f"(emit {T} {cli.sq(c)} {p})")
        elif kind == "totals":
            mm = re.match(r"parse (\d+) errors (\d+) warnings (\d+) std (\d+) panics (\d+)", rest)
            evs.append(f"(totals {mm.group(1)} {mm.group(2)} {mm.group(3)})")
    return evs


def per_file(diags):
    res = {}
    for d in diags:
        f = d["primary_label"]["filename"]
        res.setdefault(f, []).append((d.get("code"), d["severity"], d["primary_label"]["span"]["start"], d["message"]))
    return res


def run_once(ctx, d, files, threads, style, aw, trace_path=None):
    args = ["--config", "cfg.toml", "--num-threads", str(threads), "--display-style", style] + (["--allow-warnings"] if aw else [])
    env = {}
    if trace_path:
        if os.path.exists(trace_path):
            os.remove(trace_path)
        env["SELENE_VERIF_TRACE"] = trace_path
    return cli.run_selene(args + files, d, env_extra=env, timeout=300)


def body(ctx):
    rng = random.Random(ctx.seed)
    lines = []
    n_sets = 6 if ctx.tier == "quick" else 40
    reps = 1 if ctx.tier == "quick" else 4
    load = None
    if ctx.tier == "thorough":
        load = [subprocess.Popen(["sh", "-c", "while :; do :; done"]) for _ in range(12)]
    try:
        for si in range(n_sets):
            d, files = make_set(ctx, f"set{si}", rng, rng.randint(6, 40))
            aw = rng.random() < 0.4
            rc1, out1, err1 = run_once(ctx, d, files, 1, "json2", aw)
            d1, s1, bad1 = cli.parse_json_lines(out1)
            seq = per_file(d1)
            for threads in (2, 4, 16, 64):
                for rep in range(reps):
                    style = "json2"
                    tp = os.path.join(d, f"trace_{threads}_{rep}.txt")
                    rc, out, err = run_once(ctx, d, files, threads, style, aw, tp)
                    dn, sn, badn = cli.parse_json_lines(out)
                    ctx.evaluations += 1
                    what = None
                    if badn:
                        what = f"stdout of --num-threads {threads} contains a line that is not one whole JSON object (torn write): {badn[0][:120]!r}"
                    elif per_file(dn) != seq:
                        what = f"--num-threads {threads} reports different diagnostics for some file than --num-threads 1"
                    elif sn != s1 or rc != rc1:
                        what = f"--num-threads {threads}: summary/exit {sn}/{rc} differ from the sequential run {s1}/{rc1}"
                    else:
                        # each file's lint diagnostics contiguous in stdout
                        seen_done = set(); last = None
                        for x in dn:
                            if x.get("code") == "parse_error":
                                last = None
                                continue
                            f = x["primary_label"]["filename"]
                            if f != last:
                                if f in seen_done:
                                    what = f"--num-threads {threads}: the lint diagnostics of {f} do not form one uninterrupted block"
                                    break
                                if last is not None:
                                    seen_done.add(last)
                                last = f
                    if what:
                        ctx.violation("implementation violates the specification: " + what,
                                      f"directory: {d}\nfiles: {' '.join(files)}\nthreads: {threads} style: {style}\nstdout (head):\n{out[:1500]}")
                    evs = parse_trace(tp)
                    panics = err.count("The application panicked")
                    lines.append(f"C18.trace\t({' '.join(evs)})\t({rc} {panics} {'true' if aw else 'false'})")
            # quiet style once per set, compared on (file,line,col,sev,code,msg)
            rcq1, outq1, _ = run_once(ctx, d, files, 1, "quiet", aw)
            rcq, outq, _ = run_once(ctx, d, files, 16, "quiet", aw)
            q1, sq1 = cli.parse_quiet(outq1); qn, sqn = cli.parse_quiet(outq)
            key = lambda x: (x["file"], int(x["line"]), int(x["col"]), x["sev"], x["code"], x["msg"])
            ctx.evaluations += 1
            if sorted(map(key, q1)) != sorted(map(key, qn)) or sq1 != sqn or rcq1 != rcq:
                ctx.violation("implementation violates the specification: quiet style with 16 threads differs from the sequential run",
                              f"directory: {d}\nfiles: {' '.join(files)}\nsequential:\n{outq1[:800]}\nthreads=16:\n{outq[:800]}")
        # directory argument whose glob also matches unreadable entries (directories named *.lua: open() succeeds,
        # read() fails, one error each, counted by a worker outside the stdout lock) between files with long
        # blocks of output: every counter update must survive, whichever thread makes it and whenever
        for si in range(2 if ctx.tier == "quick" else 8):
            d = os.path.join(ctx.workdir, f"dirset{si}")
            inner = os.path.join(d, "src")
            os.makedirs(inner, exist_ok=True)
            n_files = rng.randint(24, 40)
            every = rng.choice([2, 3, 4])
            body_text = "".join(f"local v{j} = {j}\n" for j in range(1, rng.choice([120, 200, 320])))
            n_bad = 0
            for i in range(n_files):
                with open(os.path.join(inner, f"f{i:03d}.lua"), "w") as fh:
                    fh.write(body_text)
                if i % every == every - 1:
                    # … alternating with entries that cannot even be opened (dangling symbolic links named *.lua: one error
                    # each, counted by the worker before any output): the files after them are linted all the same
                    if (i // every) % 2 == 0:
                        os.makedirs(os.path.join(inner, f"f{i:03d}x.lua"), exist_ok=True)
                    elif not os.path.lexists(os.path.join(inner, f"f{i:03d}x.lua")):
                        os.symlink("does_not_exist_anywhere.lua", os.path.join(inner, f"f{i:03d}x.lua"))
                    n_bad += 1
            os.makedirs(os.path.join(inner, "zz.lua"), exist_ok=True)
            n_bad += 1
            cli.write_config(d, name="cfg.toml")
            aw = si % 2 == 0
            rc1, out1, err1 = run_once(ctx, d, ["src"], 1, "json2", aw)
            d1, s1, bad1 = cli.parse_json_lines(out1)
            ctx.evaluations += 1
            n_warn = n_files * len(body_text.splitlines())
            if s1 is None or s1.get("errors") != n_bad or s1.get("warnings") != n_warn:
                ctx.violation(f"implementation violates the specification: sequential run over a directory with {n_files} files of {len(body_text.splitlines())} warnings each and {n_bad} unreadable entries reports summary {s1} (expected {n_bad} errors, {n_warn} warnings)",
                              f"directory: {d}\nargument: src\nstdout (tail):\n{out1[-800:]}\nstderr (head):\n{err1[:800]}")
                continue
            for threads in (2, 3, 4, 16):
                for rep in range(2 if ctx.tier == "quick" else 6):
                    tp = os.path.join(d, f"trace_{threads}_{rep}.txt")
                    rc, out, err = run_once(ctx, d, ["src"], threads, "json2", aw, tp)
                    dn, sn, badn = cli.parse_json_lines(out)
                    ctx.evaluations += 1
                    if badn or sn != s1 or rc != rc1 or per_file(dn) != per_file(d1):
                        ctx.violation(f"implementation violates the specification: --num-threads {threads} over a directory with {n_bad} unreadable entries: summary/exit {sn}/{rc}, sequential run {s1}/{rc1}",
                                      f"directory: {d}\nargument: src (files f000.lua.. with {len(body_text.splitlines())} warnings each; every {every}th followed by a directory or a dangling symbolic link named *.lua)\nthreads: {threads}\nstdout (tail):\n{out[-600:]}")
                    evs = parse_trace(tp)
                    panics = err.count("The application panicked")
                    lines.append(f"C18.trace\t({' '.join(evs)})\t({rc} {panics} {'true' if aw else 'false'})")
        # a very large source (1.2 MiB of call statements, seconds of linting) among small ones, last in glob order: its diagnostics, its share
        # of the totals and the exit status are there at every thread count, and each file's outcome is the one of a run on it alone
        for si in range(1 if ctx.tier == "quick" else 3):
            d = os.path.join(ctx.workdir, f"largefile{si}")
            inner = os.path.join(d, "src")
            os.makedirs(inner, exist_ok=True)
            big_code = "\n".join('print("%s", %d)' % ("y" * 300, i) for i in range(4000))     # 1.2 MiB, a few seconds of linting
            kinds = {
                "a_clean.lua": "local a = 1\nprint(a)\n",
                "b_warning.lua": "local unused_b = 1\n",
                "c_unparsable.lua": "local = 1\n",
                "z_large.lua": f"{big_code}\nprint(undefined_in_large)\nlocal unused_in_large = 1\n",
            }
            if si % 2 == 1:
                kinds = {"z_large.lua": kinds["z_large.lua"]}
            for name, src in kinds.items():
                with open(os.path.join(inner, name), "w") as fh:
                    fh.write(src)
            cli.write_config(d, name="cfg.toml")
            want = {"errors": 0, "warnings": 0, "parse_errors": 0}
            for name in kinds:
                rc0, out0, err0 = cli.run_selene(["--config", "cfg.toml", "--num-threads", "1", "--display-style", "json2", os.path.join("src", name)], d, timeout=300)
                _, s0, _ = cli.parse_json_lines(out0)
                for k in want:
                    want[k] += (s0 or {}).get(k, 0)
                if name == "z_large.lua":
                    ctx.evaluations += 1
                    if s0 is None or (s0.get("errors"), s0.get("warnings"), s0.get("parse_errors")) != (1, 1, 0) or rc0 != 1:
                        ctx.violation(f"implementation violates the specification: a run over the 1.2 MiB source alone reports summary {s0} and exit status {rc0}; the file has one undefined name (error) and one unused local (warning)",
                                      f"directory: {d}\nfile: src/z_large.lua (4000 long call statements, then `print(undefined_in_large)` and `local unused_in_large = 1`)\nstdout (tail):\n{out0[-400:]}")
            for threads in (1, 2, 4, 16):
                for rep in range(2):
                    rc, out, err = cli.run_selene(["--config", "cfg.toml", "--num-threads", str(threads), "--display-style", "json2", "src"], d, timeout=300)
                    dn, sn, badn = cli.parse_json_lines(out)
                    ctx.evaluations += 1
                    got = {k: (sn or {}).get(k) for k in want}
                    rc_want = 1 if (want["errors"] or want["warnings"] or want["parse_errors"]) else 0
                    if badn or got != want or rc != rc_want:
                        ctx.violation(f"implementation violates the specification: --num-threads {threads} over a directory that holds a 1.2 MiB source: summary/exit {got}/{rc}, the sums over single-file runs are {want}/{rc_want}",
                                      f"directory: {d}\nargument: src ({', '.join(kinds)}; z_large.lua = 4000 long call statements, 1.2 MiB, then an undefined name and an unused local)\nthreads: {threads}\nstdout (tail):\n{out[-500:]}")
                        break
        # many files under a low limit on open file descriptors: a sequential run holds one file open at a time, and so
        # does every worker — the number of descriptors in use must not grow with the number of files waiting to be linted
        for si in range(1 if ctx.tier == "quick" else 4):
            d = os.path.join(ctx.workdir, f"manyfiles{si}")
            n_dirs, per_dir = (8, 60) if ctx.tier == "quick" else (12, 90)
            n_warn = 0
            for di in range(n_dirs):
                sub = os.path.join(d, "src", f"d{di:02d}")
                os.makedirs(sub, exist_ok=True)
                for i in range(per_dir):
                    kind = (di * per_dir + i) % 5
                    with open(os.path.join(sub, f"m{i:03d}.lua"), "w") as fh:
                        if kind == 0:
                            fh.write("local unused_m = 1\n"); n_warn += 1
                        else:
                            fh.write("return 1\n")
            cli.write_config(d, name="cfg.toml")
            limit = 96
            rc1, out1, err1 = cli.run_selene(["--config", "cfg.toml", "--num-threads", "1", "--display-style", "json2", "src"], d, timeout=300, nofile=limit)
            d1, s1, bad1 = cli.parse_json_lines(out1)
            ctx.evaluations += 1
            if s1 is None or s1.get("warnings") != n_warn or s1.get("errors") != 0:
                ctx.violation(f"implementation violates the specification: sequential run over {n_dirs * per_dir} files ({n_warn} with one warning each) under RLIMIT_NOFILE={limit} reports summary {s1}",
                              f"directory: {d}\nargument: src\nulimit -Sn {limit}\nstdout (tail):\n{out1[-600:]}\nstderr (head):\n{err1[:600]}")
                continue
            for threads in (2, 4, 16):
                rc, out, err = cli.run_selene(["--config", "cfg.toml", "--num-threads", str(threads), "--display-style", "json2", "src"], d, timeout=300, nofile=limit)
                dn, sn, badn = cli.parse_json_lines(out)
                ctx.evaluations += 1
                if badn or sn != s1 or rc != rc1 or per_file(dn) != per_file(d1):
                    ctx.violation(f"implementation violates the specification: --num-threads {threads} over {n_dirs * per_dir} files under RLIMIT_NOFILE={limit}: summary/exit {sn}/{rc}, sequential run {s1}/{rc1}",
                                  f"directory: {d}\nargument: src ({n_dirs} directories x {per_dir} files)\nulimit -Sn {limit}\nthreads: {threads}\nstderr (head):\n{err[:600]}")
    finally:
        if load:
            for p in load:
                p.kill()
    outdir = os.path.join(ctx.workdir, "c18")
    os.makedirs(outdir, exist_ok=True)
    with open(os.path.join(outdir, "cases.tsv"), "w") as fh:
        fh.write("\n".join(lines) + "\n")
    ctx.correspond(outdir, nontrivial_tag=lambda t: "multi-block" in t and "workers1" not in t)


def check(ctx):
    ctx.assumptions = [
        "atomicity of AtomicUsize::fetch_add and mutual exclusion of the stdout lock are assumptions of the model (Rust std)",
        "the hook events `lock`/`unlock` bracket the real lock span: `lock` is logged after stdout.lock() returns and `unlock` by a guard declared after the lock (dropped before it)",
        "thread interleavings are those reachable by repeated execution (under CPU load in the thorough tier); the theorems quantify over all permutations of counter updates and all accepted traces",
        "what no model here can exhibit: a torn write inside termcolor/std::io or a miscompiled atomic",
    ]
    return vlib.standard_check(ctx, ["Selene.Props.C18"], body,
                               trusted=vlib.BASE_TRUST + ["the verif-hooks event trace in selene/src/main.rs and tools/props/C18.py's parsers"],
                               rule=RULE, need_selene=True)
