from tools import vlib
from tools.props import scope_common as sc


def check(ctx):
    ctx.assumptions = list(sc.ASSUME)
    return vlib.standard_check(ctx, ["Selene.Props.C02"], sc.body_for("[C02]", ["unused-reported", "local-read", "params", "loop-var"]),
                               trusted=vlib.BASE_TRUST + ["harness/src/astdump.rs (AST exchange format) and lean/Selene/Lua/Read.lean"],
                               rule=sc.RULE_BASE + "; non-trivial = the program declares locals / parameters / loop variables some of which are read")
