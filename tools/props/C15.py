import os, re
from tools import vlib, cli

RULE = ("generated pairs / chains (length 2-4) of libraries over the shared key space {a,b,c,*}^(<=2) with every field kind "
        "incl. removed, with/without lua_versions, plus the shipped chains lua51->lua52->lua53, lua51->luau->roblox_base "
        "(raw YAML of each ancestor vs the effective library the code builds); non-trivial = the libraries share a key, "
        "contain a removed mark, or more than one declares lua_versions")


def body(ctx):
    n = 300 if ctx.tier == "quick" else 6000
    outdir, meta = ctx.harness("c15", n)
    ctx.correspond(outdir, nontrivial_tag=lambda t: any(x in t for x in ("shared-key", "removed", "versions-both")))
    cli_resolver(ctx)
    if ctx.tier == "thorough":
        for k in range(1, 4):
            outdir, meta = ctx.harness("c15", n, seed=ctx.seed + k, name=f"c15-{k}")
            ctx.correspond(outdir, nontrivial_tag=lambda t: any(x in t for x in ("shared-key", "removed", "versions-both")))


def parse_std(text):
    """top level of a standard-library YAML as selene writes it: (base, {key: removed?}) — only what the documented
    rule `nearest definition along the base chain decides; removed = absent` needs"""
    base = None
    keys = {}
    m = re.search(r"^base: *(\S+)", text, re.M)
    if m:
        base = m.group(1).strip("\"'")
    in_globals = False
    cur = None
    for line in text.splitlines():
        if re.match(r"^globals:", line):
            in_globals = True; continue
        if in_globals and re.match(r"^\S", line):
            in_globals = False
        if not in_globals:
            continue
        m = re.match(r"^  ([^ #][^:]*|\"[^\"]*\"):\s*$", line)
        if m:
            cur = m.group(1).strip("\"'")
            keys[cur] = False
        elif cur is not None and re.match(r"^    removed: *true", line):
            keys[cur] = True
    return base, keys


def cli_resolver(ctx):
    """the command-line tool's own resolver (selene/src/standard_library.rs): built-in names, std files with a `base`,
    a file chain — every key of every layer is probed by a one-line read and must be diagnosed iff the documented rule
    (nearest definition along the chain decides; `removed` means absent) says it is absent"""
    stddir = os.path.join(vlib.REPO, "selene-lib", "default_std")
    raw = {}
    for n in ("lua51", "lua52", "lua53", "luau"):
        raw[n] = parse_std(open(os.path.join(stddir, n + ".yml"), encoding="utf-8").read())
    d = os.path.join(ctx.workdir, "cli")
    os.makedirs(d, exist_ok=True)
    files = {
        "derived": "---\nbase: lua52\nglobals:\n  print:\n    removed: true\n  newglobal:\n    any: true\n  getfenv:\n    any: true\n  math.floor:\n    removed: true\n",
        "chain2": "---\nbase: derived\nglobals:\n  print:\n    any: true\n  newglobal:\n    removed: true\n  tostring:\n    removed: true\n",
    }
    # a file library whose `name:` field happens to equal its `base:` (the name keeps name-dependent lints on; it says nothing
    # about where the base comes from), over a base that is itself a file; and one named like a built-in over that built-in
    files["named_like_base"] = "---\nbase: derived\nname: derived\nglobals:\n  extra_named:\n    any: true\n  getfenv:\n    removed: true\n"
    files["named_like_builtin"] = "---\nbase: lua52\nname: lua52\nglobals:\n  extra_builtin:\n    any: true\n  print:\n    removed: true\n"
    for n in ("lua52", "lua53", "luau"):
        files["copy_" + n] = open(os.path.join(stddir, n + ".yml"), encoding="utf-8").read()
    for name, text in files.items():
        with open(os.path.join(d, name + ".yml"), "w", encoding="utf-8") as fh:
            fh.write(text)
        raw[name] = parse_std(text)

    def chain(n):
        out = []
        while n is not None:
            out.append(n)
            n = raw[n][0]
        return out

    probes = sorted({k for n in raw for k in raw[n][1] if re.match(r"^[A-Za-z_][A-Za-z0-9_]*(\.[A-Za-z_][A-Za-z0-9_]*)*$", k)})
    with open(os.path.join(d, "probe.lua"), "w") as fh:
        for i, k in enumerate(probes):
            fh.write(f"local _p{i} = {k}\n")
    for std in ("lua51", "lua52", "lua53", "luau", "copy_lua52", "copy_lua53", "copy_luau", "derived", "chain2", "named_like_base", "named_like_builtin"):
        cli.write_config(d, std=std, lints={"unused_variable": "allow", "deprecated": "allow", "shadowing": "allow"}, name=f"cfg_{std}.toml")
        rc, out, err = cli.run_selene(["--config", f"cfg_{std}.toml", "--display-style", "json2", "probe.lua"], d)
        diags, summary, bad = cli.parse_json_lines(out)
        flagged = set()
        for x in diags:
            if x.get("code") in ("undefined_variable", "incorrect_standard_library_use"):
                flagged.add(x["primary_label"]["span"]["start_line"])
        ctx.evaluations += 1
        layers = chain(std)
        # the effective key set: for every key some layer mentions, the nearest layer decides
        effective = set()
        for n in layers:
            for key in raw[n][1]:
                verdicts = [raw[m][1][key] for m in layers if key in raw[m][1]]
                if not verdicts[0]:
                    effective.add(key)
        wrong = []
        for i, k in enumerate(probes):
            # a path is there when it is an effective key or a prefix of one (implicit read-only table); paths below a
            # wildcard / `any` / struct entry are not probed (none of the probed keys has such an ancestor in these libraries)
            if not any(k in raw[n][1] for n in layers):
                continue
            absent = not (k in effective or any(e.startswith(k + ".") for e in effective))
            if absent != (i in flagged):
                wrong.append((k, "absent" if absent else "present", "diagnosed" if i in flagged else "accepted"))
        ctx.nontrivial.add(("cli-std", std))
        if wrong or (not diags and err.strip()):
            ctx.violation("implementation violates the specification: with std = %r the command-line tool's library disagrees with "
                          "`nearest definition along the base chain decides, removed means absent`: %s" % (std, wrong[:6] or err[:300]),
                          f"directory: {d}\nconfig: cfg_{std}.toml (chain {' -> '.join(layers)})\nprobe.lua reads one key per line\nmismatches (key, documented, observed): {wrong[:20]}\nstderr: {err[:500]}")
    ctx.stats["cli_std_probes"] = len(probes)


def check(ctx):
    ctx.assumptions = [
        "BTreeMap is modelled as an association list with distinct keys (hypothesis WF of the theorems; every library the harness sends comes out of a BTreeMap)",
        "file-system lookup of named libraries in the CLI is reduced to a name -> library environment",
    ]
    return vlib.standard_check(
        ctx, ["Selene.Props.C15"], body,
        trusted=vlib.BASE_TRUST + ["serde_yaml parsing of default_std/*.yml (used by the harness to obtain the raw, un-merged libraries)"],
        rule=RULE + "; the command-line resolver: built-in names, file copies of the built-ins (base resolved by the CLI), a derived file and a two-file chain, every key of every layer probed",
        need_selene=True)
