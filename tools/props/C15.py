from tools import vlib

RULE = ("generated pairs / chains (length 2-4) of libraries over the shared key space {a,b,c,*}^(<=2) with every field kind "
        "incl. removed, with/without lua_versions, plus the shipped chains lua51->lua52->lua53, lua51->luau->roblox_base "
        "(raw YAML of each ancestor vs the effective library the code builds); non-trivial = the libraries share a key, "
        "contain a removed mark, or more than one declares lua_versions")


def body(ctx):
    n = 300 if ctx.tier == "quick" else 6000
    outdir, meta = ctx.harness("c15", n)
    ctx.correspond(outdir, nontrivial_tag=lambda t: any(x in t for x in ("shared-key", "removed", "versions-both")))
    if ctx.tier == "thorough":
        for k in range(1, 4):
            outdir, meta = ctx.harness("c15", n, seed=ctx.seed + k, name=f"c15-{k}")
            ctx.correspond(outdir, nontrivial_tag=lambda t: any(x in t for x in ("shared-key", "removed", "versions-both")))


def check(ctx):
    ctx.assumptions = [
        "BTreeMap is modelled as an association list with distinct keys (hypothesis WF of the theorems; every library the harness sends comes out of a BTreeMap)",
        "file-system lookup of named libraries in the CLI is reduced to a name -> library environment",
    ]
    return vlib.standard_check(
        ctx, ["Selene.Props.C15"], body,
        trusted=vlib.BASE_TRUST + ["serde_yaml parsing of default_std/*.yml (used by the harness to obtain the raw, un-merged libraries)"],
        rule=RULE)
