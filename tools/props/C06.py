from tools import vlib

RULE = ("find_global / global_has_fields on generated libraries over segment alphabet {a,b,c,*} (all field kinds, structs referring to "
        "structs, depth<=4, dangling struct references in a third of the libraries) with query paths: all paths of depth<=2 (quick, every 4th "
        "library) / <=4 (thorough) over {a,b,c,d,*}, every defined key, its prefixes, extensions and `*`-instantiations, random paths up to "
        "depth 5; reads and 1-3 target assignments of generated paths through the real lint with locally bound roots mixed in; "
        "non-trivial = the case exercised a walk (star fallback, struct switch, any shortcut, implicit prefix) or produced a problem")


def body(ctx):
    n = 200 if ctx.tier == "quick" else 1500
    outdir, meta = ctx.harness("c06", n)
    ctx.correspond(outdir, nontrivial_tag=lambda t: any(x in t for x in (
        "star-fallback", "struct-switch", "any-shortcut", "implicit-prefix", "noField", "notWritable", "notOverridable", "read-noField", "resolved-target")))
    # whole programs: every incorrect_standard_library_use diagnostic of generated programs under generated libraries, with range and
    # message, vs the tree-level model of Selene/Std/Prog.lean — the model `C06_prog_*` lifts this property's theorems to
    outdir, meta = ctx.harness("stdprog", 60 if ctx.tier == "quick" else 2500)
    ctx.correspond(outdir, nontrivial_tag=lambda t: any(x in t for x in ("no-field", "not-writable", "not-overridable")), ignore_spec=lambda item: not item.startswith("[C06]"))
    if ctx.tier == "thorough":
        for k in range(1, 3):
            outdir, meta = ctx.harness("c06", n, seed=ctx.seed + k, name=f"c06-{k}")
            ctx.correspond(outdir)


def check(ctx):
    ctx.assumptions = [
        "library keys are modelled as segment lists (what name.split('.') yields); queried names contain no '.', so join/split identify the same key",
        "BTreeMap lookups are modelled by first-match association lists; iteration order of extract_into_tree is irrelevant (proved: the observable field of every node depends only on the key set)",
        "the scope-analysis gate (`reference.resolved.is_some()`) is an input flag of the access model here; its agreement with Lua scoping is C01/C07",
    ]
    return vlib.standard_check(
        ctx, ["Selene.Props.C06"], body,
        trusted=vlib.BASE_TRUST,
        rule=RULE)
