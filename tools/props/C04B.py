"""C04, half B: the statement-level closed-form lints (unbalanced_assignments, empty_if, empty_loop,
if_same_then_else, ifs_same_cond, almost_swapped, mismatched_arg_count, multiple_statements).
`body(ctx)` is the correspondence stream (combined with half A under the property id C04 by the maintainer);
`check(ctx)` runs this half alone: `./check C04B`."""
from tools import vlib

PROP_MODULES = ["Selene.Props.C04B"]

LINTS = ["unbalanced_assignments", "empty_if", "empty_loop", "if_same_then_else", "ifs_same_cond", "almost_swapped",
         "mismatched_arg_count", "multiple_statements"]

RULE = ("per lint, positive and negative template families (counts differing / call, `...`, nil, parenthesised nil last; empty then / elseif / "
        "else / loop bodies with and without comments; identical branches up to trivia, re-spelled numbers and strings, `,` vs `;`; repeated "
        "conditions, with calls, with calls inside bracket indices; swaps of names, fields, indexed values, after other assignments, texts that "
        "only coincide when glued; local / global / assigned / reassigned / shadowed / vararg function definitions called with fixed and open "
        "argument lists; several statements per line, one-line ifs) with operands from a small expression grammar whose literals are spelled in "
        "every equivalent form, plugged at depth 0-3 into random enclosing constructs (do / while / repeat / if-then / else / elseif / both for "
        "forms / named, local, field, method functions / function expressions / callbacks / table functions, in-line variants, a function inside "
        "an if condition) between random neighbour statements; the repo's fixture files; grammar-generated Lua 5.1 programs and their one-line "
        "versions; the fixed witness programs.  Each case compares the eight lints' diagnostics (code, token range, message, secondary labels) "
        "of the real checker with the Lean models and judges the implementation's diagnostics by the documented conditions; "
        "non-trivial = at least one of the eight lints reported something")

ASSUME = [
    "full_moon's parser and Visitor order (pre-order, children in source order); a divergence shows up as a diagnostic mismatch for the two order-sensitive lints",
    "`Node::similar` is modelled as equality of the nodes' token texts with table-field separators removed (the separators' token indices are sent by the harness); checked on every reported and unreported pair through the correspondence",
    "default lint configuration only: empty_if / empty_loop `comments_count = false`, multiple_statements `one_line_if = break-return-only`",
    "token space: a label that ends at the start of the following token is compared as ending with the token before it; keyword tokens the tree does not store (`then`, `else`) are located by token-index arithmetic",
    "mismatched_arg_count reads the scope tables through the scope model of C01-C03 (its correspondence with ScopeManager is the `scope` group)",
]


def body(ctx):
    n = 60 if ctx.tier == "quick" else 2000
    outdir, meta = ctx.harness("c04b", n)
    ctx.correspond(outdir, nontrivial_tag=lambda t: any(x.startswith("fired:") for x in t))
    ctx.notes.append(f"c04b: unsupported-syntax programs skipped: {ctx.stats.get('unsupported_syntax', 0)}; not parseable: {ctx.stats.get('does_not_parse', 0)}")
    unexpected = {k: v for k, v in ctx.tags.items() if k.startswith("unexpected:")}
    if unexpected:
        ctx.notes.append("template expectation vs implementation (informative; verdicts come from the Lean specification): " +
                         ", ".join(f"{k}={v}" for k, v in sorted(unexpected.items())))
    for lint in LINTS:
        if ctx.tags.get(f"fired:{lint}", 0) == 0:
            raise RuntimeError(f"coverage: no generated case made {lint} report anything")


def check(ctx):
    ctx.assumptions = list(ASSUME)
    return vlib.standard_check(ctx, PROP_MODULES, body,
                               trusted=vlib.BASE_TRUST + ["harness/src/astdump.rs (AST exchange format) and lean/Selene/Lua/Read.lean",
                                                          "harness/src/c04b.rs: byte range -> token range mapping, table-separator indices"],
                               rule=RULE)
