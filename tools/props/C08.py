from tools import vlib
import subprocess, sys, os

RULE = ("generated statement trees (local / call / if-else / do / while / local function / assignment, nesting up to the statement budget) with "
        "0-2 filter comments before statements, inside expressions, before else/end and at end of file, in single-line, comma-list, "
        "block-comment, two-line block, duplicated, spaced and malformed forms, 3 variations x 6 lints + a nonexistent lint, global filters at "
        "the top; plus the repo's lint_filtering fixtures and corpus/C08; under default and random severity configurations. Each case compares "
        "(a) the claimed filter ranges with the claim model, (b) test_on's output with the machine model in order, (c) the output with "
        "`innermost covering filter wins` computed from the ranges; non-trivial = the program has an accepted filter that changes at least one diagnostic, a conflict, a late global or an unknown lint")

NONTRIVIAL = ("changes-something", "conflict", "global-late", "unknown-lint", "nested-same-lint")


IGNORE = None


def body(ctx):
    n = 300 if ctx.tier == "quick" else 6000
    outdir, meta = ctx.harness("c08", n)
    ctx.correspond(outdir, nontrivial_tag=lambda t: any(x in t for x in NONTRIVIAL), ignore_spec=IGNORE)


def check(ctx, modules=("Selene.Props.C08",)):
    global IGNORE
    if ctx.pid == "C08":
        # unclaimed comments naming a missing lint are C09's clause ("invalid filters are reported"), not C08's
        IGNORE = lambda reason: reason.startswith("ignored:")
    subprocess.run([sys.executable, os.path.join(vlib.VERIF, "tools", "translate.py")], check=True)
    ctx.assumptions = [
        "full_moon's Visitor order (pre-order: a node is visited before the nodes it contains) and `str::lines` are taken from the implementation: the harness dumps the visited nodes with their leading-trivia comments through the verif-hooks node visitor",
        "the full statement `machine = innermost-covering-filter-wins for every laminar filter family` is not yet a Lean theorem (see Props/C08.lean header); it is checked three-way on every generated program",
    ]
    return vlib.standard_check(ctx, list(modules), body,
                               trusted=vlib.BASE_TRUST + ["verif-hooks (filter_ranges, visit_nodes, verif_test_on_unfiltered, first_code) expose lint_filtering internals without changing them",
                                                          "tools/translate.py (lint registry table)"],
                               rule=RULE)
