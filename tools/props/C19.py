import os, random, itertools
from tools import vlib, cli

RULE = ("the real binary on file sets drawn from {clean, warning-only, erroring, mixed, unparsable, empty, missing, excluded-by-pattern, missing-and-excluded, listed directory whose name is excluded, listed directory containing a dangling symbolic link} x "
        "severity configurations (default, a warning lint denied, an error lint allowed, a warning lint allowed) x --allow-warnings x "
        "--no-exclude x --no-summary x display styles {rich, quiet, json, json2} x luacheck mode; every sign pattern of (errors, warnings, "
        "parse errors, missing) x allow-warnings is forced at least once; exit status, summary presence and totals are predicted by the Lean "
        "model from per-file outcomes observed in single-file runs; non-trivial = at least one counter is non-zero")

CONFIGS = [
    {},
    {"unused_variable": "deny"},
    {"undefined_variable": "allow"},
    {"unused_variable": "allow"},
    {"undefined_variable": "warn"},
]


def build_dir(ctx, name, kinds):
    d = os.path.join(ctx.workdir, name)
    os.makedirs(d, exist_ok=True)
    files = []
    for i, k in enumerate(kinds):
        excluded = k.startswith("excl:")
        kind = k.split(":", 1)[1] if excluded else k
        fname = ("excl_" if excluded else "f_") + f"{i}_{kind}.lua"
        if kind != "missing":
            with open(os.path.join(d, fname), "w", newline="") as fh:
                fh.write(cli.FILE_KINDS[kind])
        files.append((fname, excluded))
    return d, files


def one_run(ctx, out_lines, d, files, config_i, flags, style, rng):
    aw, ne, ns, lc = flags
    cfgname = f"cfg{config_i}.toml"
    cli.write_config(d, lints=CONFIGS[config_i], exclude=["excl_*.lua"], name=cfgname)
    outcomes = []
    for fname, excluded in files:
        o, _ = cli.single_file_outcome(d, fname, cfgname)
        outcomes.append(o)
    args = ["--config", cfgname, "--num-threads", str(rng.choice([1, 2, 4]))]
    if aw: args.append("--allow-warnings")
    if ne: args.append("--no-exclude")
    if ns: args.append("--no-summary")
    if lc: args.append("--luacheck")
    if style == "quiet":
        args += ["--display-style", "quiet"]
    elif style in ("json", "json2", "rich"):
        args += ["--display-style", style]
    rc, out, err = cli.run_selene(args + [f for f, _ in files], d)
    # what was printed
    perr = pwarn = 0
    summary = None
    if lc:
        import re
        perr = len(re.findall(r": \(E000\) ", out)); pwarn = len(re.findall(r": \(W000\) ", out))
        # a multi-line diagnostic is repeated once per line in luacheck mode; our file kinds keep lint ranges on one line except `multiline`
    elif style in ("json", "json2"):
        diags, summary, bad = cli.parse_json_lines(out)
        perr = sum(1 for x in diags if x["severity"] == "Error" and x.get("code") != "parse_error")
        pwarn = sum(1 for x in diags if x["severity"] == "Warning")
        if style == "json":
            summary = cli.parse_summary_text(out)   # only json2 prints the summary as JSON
    else:
        import re
        plain = re.sub(r"\x1b\[[0-9;]*m", "", out)
        perr = len(re.findall(r"^error\[(?!parse_error)[a-z_0-9]+\]|: error\[(?!parse_error)[a-z_0-9]+\]", plain, re.M))
        pwarn = len(re.findall(r"^warning\[[a-z_0-9]+\]|: warning\[[a-z_0-9]+\]", plain, re.M))
        summary = cli.parse_summary_text(plain)
    summary_present = summary is not None
    counts = f"({summary['parse_errors']} {summary['errors']} {summary['warnings']})" if summary else "none"
    fsx = " ".join(f"({cli.sq(f)} {'true' if ex else 'false'} {o})" for (f, ex), o in zip(files, outcomes))
    b = lambda x: "true" if x else "false"
    inp = f"(({fsx}) ({b(aw)} {b(ne)} {b(ns)} {b(lc)} 0))"
    impl = f"({rc} {b(summary_present)} {counts} {perr} {pwarn})"
    out_lines.append(f"C19.run\t{inp}\t{impl}")
    ctx.stats[f"style_{'luacheck' if lc else style}"] = ctx.stats.get(f"style_{'luacheck' if lc else style}", 0) + 1


def body(ctx):
    rng = random.Random(ctx.seed)
    lines = []
    # forced sign patterns: (E, W, P, missing) x allow-warnings x no-exclude, with one excluded erroring file always present
    pats = list(itertools.product([0, 1], repeat=4))
    k = 0
    for (e, w, p, m) in pats:
        kinds = ["clean"]
        if e: kinds.append("err")
        if w: kinds.append("warn")
        if p: kinds.append("parse")
        if m: kinds.append("missing")
        kinds.append("excl:err")
        d, files = build_dir(ctx, f"pat{k}", kinds); k += 1
        for aw in (False, True):
            for ne in (False, True):
                style = rng.choice(["quiet", "json2", "rich", "json"])
                one_run(ctx, lines, d, files, 0, (aw, ne, rng.random() < 0.3, False), style, rng)
    # random file sets x configs x flags x styles
    n = 40 if ctx.tier == "quick" else 400
    pool = ["clean", "warn", "warn2", "err", "err2", "mixed", "parse", "parse2", "empty", "comment", "missing",
            "excl:err", "excl:warn", "excl:clean", "excl:parse", "excl:missing", "filtered", "nonascii", "crlf"]
    for i in range(n):
        kinds = [rng.choice(pool) for _ in range(rng.randint(1, 6))]
        d, files = build_dir(ctx, f"rnd{i}", kinds)
        flags = (rng.random() < 0.5, rng.random() < 0.4, rng.random() < 0.3, rng.random() < 0.2)
        one_run(ctx, lines, d, files, rng.randrange(len(CONFIGS)), flags, rng.choice(["quiet", "json2", "rich", "json"]), rng)
    # a listed file that is missing *and* matches an exclude pattern is still a missing listed file
    for i, kinds in enumerate([["excl:missing"], ["clean", "excl:missing"], ["warn", "excl:missing", "excl:err"]]):
        d, files = build_dir(ctx, f"exclmiss{i}", kinds)
        for aw in (False, True):
            for ne in (False, True):
                one_run(ctx, lines, d, files, 0, (aw, ne, False, False), rng.choice(["quiet", "json2"]), rng)
    # a listed *directory* whose own name matches an exclude pattern: the pattern is applied to each file found in it,
    # not to the directory (its files do not match), so they are checked
    for i, inner in enumerate([["err"], ["warn", "clean"], ["parse"], ["clean"]]):
        d = os.path.join(ctx.workdir, f"dir{i}")
        os.makedirs(os.path.join(d, "legacy"), exist_ok=True)
        inner_files = []
        for j, kind in enumerate(inner):
            fname = f"legacy/f_{j}_{kind}.lua"
            with open(os.path.join(d, fname), "w", newline="") as fh:
                fh.write(cli.FILE_KINDS[kind])
            inner_files.append(fname)
        with open(os.path.join(d, "f_top_clean.lua"), "w") as fh:
            fh.write(cli.FILE_KINDS["clean"])
        for aw in (False, True):
            for ne in (False, True):
                cfgname = "cfgdir.toml"
                cli.write_config(d, exclude=["excl_*.lua", "legacy"], name=cfgname)
                outcomes = [cli.single_file_outcome(d, f, cfgname)[0] for f in inner_files + ["f_top_clean.lua"]]
                args = ["--config", cfgname, "--num-threads", "2", "--display-style", "json2"] + (["--allow-warnings"] if aw else []) + (["--no-exclude"] if ne else [])
                rc, out, err = cli.run_selene(args + ["legacy", "f_top_clean.lua"], d)
                diags, summary, bad = cli.parse_json_lines(out)
                perr = sum(1 for x in diags if x["severity"] == "Error" and x.get("code") != "parse_error")
                pwarn = sum(1 for x in diags if x["severity"] == "Warning")
                counts = f"({summary['parse_errors']} {summary['errors']} {summary['warnings']})" if summary else "none"
                fsx = " ".join(f"({cli.sq(f)} false {o})" for f, o in zip(inner_files + ["f_top_clean.lua"], outcomes))
                bb = lambda x: "true" if x else "false"
                lines.append(f"C19.run\t(({fsx}) ({bb(aw)} {bb(ne)} false false 0))\t({rc} {bb(summary is not None)} {counts} {perr} {pwarn})")
                ctx.stats["listed_directory_runs"] = ctx.stats.get("listed_directory_runs", 0) + 1
    # a listed directory that contains an entry that cannot be opened (a dangling symbolic link named *.lua, found by
    # the directory walk): it counts as an unreadable file, like a listed file that is missing
    for i, inner in enumerate([["clean"], ["clean", "clean"], ["warn"], []]):
        d = os.path.join(ctx.workdir, f"dangling{i}")
        os.makedirs(os.path.join(d, "src"), exist_ok=True)
        inner_files = []
        for j, kind in enumerate(inner):
            fname = f"src/f_{j}_{kind}.lua"
            with open(os.path.join(d, fname), "w", newline="") as fh:
                fh.write(cli.FILE_KINDS[kind])
            inner_files.append(fname)
        link = os.path.join(d, "src", "gone.lua")
        if not os.path.lexists(link):
            os.symlink("does_not_exist_anywhere.lua", link)
        cfgname = "cfgdang.toml"
        cli.write_config(d, name=cfgname)
        outcomes = [cli.single_file_outcome(d, f, cfgname)[0] for f in inner_files]
        for aw in (False, True):
            for style in ("json2", "quiet"):
                args = ["--config", cfgname, "--num-threads", rng.choice(["1", "2"]), "--display-style", style] + (["--allow-warnings"] if aw else [])
                rc, out, err = cli.run_selene(args + ["src"], d)
                if style == "json2":
                    diags, summary, bad = cli.parse_json_lines(out)
                    perr = sum(1 for x in diags if x["severity"] == "Error" and x.get("code") != "parse_error")
                    pwarn = sum(1 for x in diags if x["severity"] == "Warning")
                    counts = f"({summary['parse_errors']} {summary['errors']} {summary['warnings']})" if summary else "none"
                else:
                    q, sq = cli.parse_quiet(out)
                    perr = sum(1 for x in q if x["sev"] == "error" and x["code"] != "parse_error")
                    pwarn = sum(1 for x in q if x["sev"] == "warning")
                    counts = f"({sq['parse_errors']} {sq['errors']} {sq['warnings']})" if sq else "none"
                    summary = sq
                fsx = " ".join([f"({cli.sq(f)} false {o})" for f, o in zip(inner_files, outcomes)] + [f"({cli.sq('src/gone.lua')} false missing)"])
                bb = lambda x: "true" if x else "false"
                lines.append(f"C19.run\t(({fsx}) ({bb(aw)} false false false 0))\t({rc} {bb(summary is not None)} {counts} {perr} {pwarn})")
                ctx.stats["dangling_entry_runs"] = ctx.stats.get("dangling_entry_runs", 0) + 1
    # many diagnostics: the exit status is an 8-bit quantity for the operating system; whatever the tool hands over, a run
    # that reported something must not exit 0 — totals that are multiples of 256 included
    d = os.path.join(ctx.workdir, "manydiags")
    os.makedirs(d, exist_ok=True)
    cli.write_config(d, name="cfgmany.toml")
    cli.write_config(d, lints={"unused_variable": "deny"}, name="cfgmany_deny.toml")
    for total, split in ((255, None), (256, None), (257, None), (512, None), (256, 200)):
        names = []
        parts = [total] if split is None else [split, total - split]
        for j, n in enumerate(parts):
            fname = f"w{total}_{j}_{'s' if split else 'o'}.lua"
            with open(os.path.join(d, fname), "w") as fh:
                fh.write("".join(f"local unused_{k} = {k}\n" for k in range(n)))
            names.append(fname)
        for cfgname, sev in (("cfgmany.toml", "warning"), ("cfgmany_deny.toml", "error")):
            rc, out, err = cli.run_selene(["--config", cfgname, "--num-threads", "2", "--display-style", "json2"] + names, d, timeout=300)
            diags, summary, bad = cli.parse_json_lines(out)
            ctx.evaluations += 1
            ctx.stats["many_diagnostics_runs"] = ctx.stats.get("many_diagnostics_runs", 0) + 1
            printed = len(diags)
            if printed != total or summary is None or summary.get("errors", 0) + summary.get("warnings", 0) != total:
                ctx.violation(f"implementation violates the specification: {total} unused locals ({sev}s) in {len(names)} file(s): {printed} diagnostics printed, summary {summary}",
                              f"directory: {d}\nfiles: {' '.join(names)}\nconfig: {cfgname}")
            elif rc == 0:
                ctx.violation(f"implementation violates the specification: a run that printed {total} {sev}s (summary {summary}) exits with status 0",
                              f"directory: {d}\nfiles: {' '.join(names)} ({' + '.join(map(str, parts))} unused locals)\nconfig: {cfgname}\nexit status: {rc}")
    # crashed workers: stdout is /dev/full, so every file that has something to print panics in its worker
    # (the write fails); files with nothing to print do not. Exit must be 1 whenever a worker crashed.
    b = lambda x: "true" if x else "false"
    crash_sets = [["warn"], ["clean"], ["warn", "clean"], ["warn", "warn2"], ["err"], ["clean", "empty"], ["filtered", "warn"], ["excl:warn", "clean"]]
    for i, kinds in enumerate(crash_sets):
        d, files = build_dir(ctx, f"crash{i}", kinds)
        cli.write_config(d, exclude=["excl_*.lua"], name="cfg0.toml")
        outcomes = [cli.single_file_outcome(d, f, "cfg0.toml")[0] for f, _ in files]
        for aw in (False, True):
            for style in ("quiet", "json2"):
                args = ["--config", "cfg0.toml", "--num-threads", "2", "--display-style", style] + (["--allow-warnings"] if aw else [])
                with open("/dev/full", "w") as full:
                    import subprocess
                    p = subprocess.run([vlib.SELENE_EXE] + args + [f for f, _ in files], cwd=d, stdout=full, stderr=subprocess.PIPE, timeout=120)
                crashed = p.stderr.decode("utf-8", "replace").count("The application panicked")
                expected_crashes = sum(1 for (f, ex), o in zip(files, outcomes) if not ex and o not in ("(linted)", "missing"))
                perr = sum(o.count("error") for (f, ex), o in zip(files, outcomes) if not ex)
                pwarn = sum(o.count("warning") for (f, ex), o in zip(files, outcomes) if not ex)
                fsx = " ".join(f"({cli.sq(f)} {b(ex)} {o})" for (f, ex), o in zip(files, outcomes))
                lines.append(f"C19.run\t(({fsx}) ({b(aw)} false false false {crashed}))\t({p.returncode} true none {perr} {pwarn})")
                ctx.stats["worker_crash_runs"] = ctx.stats.get("worker_crash_runs", 0) + 1
                if crashed != expected_crashes:
                    ctx.notes.append(f"crash run {kinds}: {crashed} workers crashed, {expected_crashes} files had something to print")
    outdir = os.path.join(ctx.workdir, "c19")
    os.makedirs(outdir, exist_ok=True)
    with open(os.path.join(outdir, "cases.tsv"), "w") as fh:
        fh.write("\n".join(lines) + "\n")
    ctx.correspond(outdir, nontrivial_tag=lambda t: any(x in t for x in ("E", "W", "P", "missing")))


def check(ctx):
    ctx.assumptions = [
        "globset matching of `exclude` is an abstract predicate: the harness knows by construction which file names the pattern `excl_*.lua` matches",
        "per-file outcomes are observed with single-file json2 runs of the same binary (the multi-file aggregation, flags and exit logic are what is compared)",
        "worker crashes are provoked only through a full stdout device (/dev/full): the crash count is read from stderr",
    ]
    return vlib.standard_check(ctx, ["Selene.Props.C19"], body, trusted=vlib.BASE_TRUST + ["the python CLI driver and its output parsers (tools/cli.py)"],
                               rule=RULE, need_selene=True)
