import os, re, hashlib
from tools import vlib, cli

RULE = ("one shared Arc<Checker> driven through three shuffled passes over every fixture / corpus / generated program, the same program twice "
        "in a row, and eight threads with independent orders, each output (content AND order, incl. secondary labels and notes) compared with a "
        "fresh single run; 12 process starts of the CLI (fresh hash seeds) on a file with many multi-label diagnostics, byte-compared (json2); "
        "each of a set of files (incl. expressions nested 8..4096 levels deep, which exhaust a pool thread's stack from some depth on) checked alone and next to another file, outcome compared; "
        "sequences of find_global queries through ONE library value vs the Lean cache model and vs fresh lookups; a source audit that no "
        "hash-map / hash-set iteration in selene-lib reaches a diagnostic un-sorted, and that every static / lazy_static / thread_local of both crates is on an audited list; non-trivial = a program with >= 2 diagnostics or a "
        "history that repeats a query")

# bindings whose iteration order is harmless are listed with the reason; anything else is reported
AUDITED = {
    ("lints/manual_table_clone.rs", "inside_stmt_begins"): "only counted: `.iter().filter(..).count()` is order-free",
}


def hash_iteration_audit(ctx):
    """no `for … in` / `.iter()` / `.keys()` / `.values()` / `.drain()` / `into_iter()` over a HashMap / HashSet binding in
    selene-lib/src other than the audited ones"""
    root = os.path.join(vlib.REPO, "selene-lib", "src")
    findings = []
    for dp, _, files in os.walk(root):
        for fn in files:
            if not fn.endswith(".rs"):
                continue
            p = os.path.join(dp, fn)
            src = open(p, encoding="utf-8").read().replace("\r\n", "\n")
            # names bound to hash containers in this file
            names = set(re.findall(r"(?:let\s+(?:mut\s+)?|\b)([a-z_][a-z0-9_]*)\s*:\s*(?:&\s*)?(?:std::collections::)?Hash(?:Map|Set)<", src))
            names |= set(re.findall(r"let\s+(?:mut\s+)?([a-z_][a-z0-9_]*)\s*(?::[^=]+)?=\s*(?:std::collections::)?Hash(?:Map|Set)::new\(\)", src))
            for n in sorted(names):
                if (os.path.relpath(p, root), n) in AUDITED:
                    continue
                for m in re.finditer(r"(?:for\s+[^\n]*?\s+in\s+(?:&\s*(?:mut\s+)?)?(?<![\w.])(?:self\.)?%s\b(?!\s*\.\s*(?:get|contains|contains_key|insert|remove|entry|len|is_empty)\b))|(?:(?<![\w.])(?:self\s*\.\s*)?%s\s*\.\s*(?:iter|iter_mut|keys|values|values_mut|drain|into_iter)\s*\()" % (re.escape(n), re.escape(n)), src):
                    line = src.count("\n", 0, m.start()) + 1
                    findings.append(f"{os.path.relpath(p, root)}:{line}: iteration over hash container `{n}`: {src.splitlines()[line - 1].strip()[:100]}")
            # collecting into a hash container and back into an ordered one
            for m in re.finditer(r"collect::<\s*Hash(?:Set|Map)<[^>]*>\s*>\(\)\s*\.\s*into_iter\(\)", src):
                line = src.count("\n", 0, m.start()) + 1
                findings.append(f"{os.path.relpath(p, root)}:{line}: a hash container is collected and iterated again: {src.splitlines()[line - 1].strip()[:100]}")
    return findings


# every place where the source keeps state that outlives one call of `Checker::test_on` (process-wide or per thread), with what
# makes it harmless for C12: (file, construct, name or line text fragment)
SHARED_STATE_AUDITED = {
    ("selene-lib/src/possible_std.rs", "static", "ROBLOX_BASE_STD"): "write-once library value, the same for every file",
    ("selene-lib/src/lints/bad_string_escape.rs", "lazy_static", ""): "compiled regular expression, immutable",
    ("selene-lib/src/lints/undefined_variable.rs", "lazy_static", ""): "table of variable names with fields, immutable",
    ("selene-lib/src/lib.rs", "lazy_static", ""): "lint registry, immutable",
    ("selene-lib/src/standard_library/mod.rs", "lazy_static", ""): "`any` field constant, immutable",
    ("selene-lib/src/standard_library/mod.rs", "static", "READ_ONLY_FIELD"): "constant field",
    ("selene-lib/src/standard_library/mod.rs", "static", "CACHED_RESULT"): "built-in libraries parsed once, immutable afterwards",
    ("selene-lib/src/standard_library/v1.rs", "lazy_static", ""): "constant table of the v1 upgrade",
    ("selene-lib/src/lint_filtering.rs", "lazy_static", ""): "node kinds the filter visitor ignores, immutable",
    ("selene/src/verif_trace.rs", "lazy_static", ""): "verification hook (feature-gated)",
    ("selene/src/main.rs", "lazy_static", ""): "command-line options, written once before any file is read",
    ("selene/src/main.rs", "static", "LINT_ERRORS"): "total (C18 / C19 model)",
    ("selene/src/main.rs", "static", "LINT_WARNINGS"): "total (C18 / C19 model)",
    ("selene/src/main.rs", "static", "PARSE_ERRORS"): "total (C18 / C19 model)",
    ("selene/src/main.rs", "static", "STANDARD_LIBRARY_ERRORS"): "total (C18 / C19 model)",
}


def shared_state_audit(ctx):
    """C12's model has one cache (the library's name tree) and the totals; anything else that survives a call — a `static`, a
    `lazy_static!`, a `thread_local!` — must be on the audited list above, or the model no longer covers the code"""
    found = []
    for crate in ("selene-lib/src", "selene/src"):
        for root, _, files in os.walk(os.path.join(vlib.REPO, crate)):
            for f in sorted(files):
                if not f.endswith(".rs") or f in ("test_util.rs",) or "test" in os.path.basename(root):
                    continue
                rel = os.path.relpath(os.path.join(root, f), vlib.REPO)
                src = open(os.path.join(root, f), encoding="utf-8").read().replace("\r\n", "\n")
                cut = src.find("#[cfg(test)]\nmod test")
                if cut >= 0:
                    src = src[:cut]
                for i, line in enumerate(src.splitlines(), 1):
                    code = line.split("//")[0]
                    m = re.search(r"\bstatic\s+(?:mut\s+)?(?:ref\s+)?([A-Z_][A-Z0-9_]*)\s*:", code)
                    if "thread_local!" in code:
                        found.append((rel, "thread_local", "", i, line.strip()))
                    elif "lazy_static!" in code:
                        found.append((rel, "lazy_static", "", i, line.strip()))
                    elif m and "static ref" not in code:
                        found.append((rel, "static", m.group(1), i, line.strip()))
    bad = [x for x in found if (x[0], x[1], x[2]) not in SHARED_STATE_AUDITED]
    ctx.notes.append(f"shared-state audit: {len(found)} sites, {len(bad)} un-audited")
    for rel, kind, name, line, text in bad:
        ctx.violation(f"the source audit behind C12 no longer holds: {rel}:{line}: state that outlives one check ({kind}{' ' + name if name else ''}) is not on the audited list",
                      f"{rel}:{line}: {text}\nA `static` / `lazy_static!` / `thread_local!` outside the audited list: what one file leaves there is visible to the next file on the same thread or process, "
                      f"which the model of C12 (one library cache, totals) does not describe.",
                      no_input=True)


def body(ctx):
    n = 80 if ctx.tier == "quick" else 1500
    outdir, meta = ctx.harness("c12", n)
    ctx.correspond(outdir, nontrivial_tag=lambda t: "several-diagnostics" in t or "repeated-query" in t)
    # process restarts: fresh hash seeds
    d = os.path.join(ctx.workdir, "cli")
    os.makedirs(d, exist_ok=True)
    src = ("local function foo(a) end\nfoo = function(a, b) end\nfoo = function() end\nfunction foo(a, b, c) end\n"
           "foo(1, 2, 3, 4, 5)\nfoo(1, 2, 3, 4, 5, 6)\nlocal t = { a = 1, a = 2, a = 3, b = 1, b = 2 }\n"
           "print(t, u1, u2, u1)\nlocal x = 1\nlocal x = 2\nlocal x = 3\nif a then elseif a then elseif a then end\n")
    with open(os.path.join(d, "multi.lua"), "w") as fh:
        fh.write(src)
    cli.write_config(d)
    outs = set()
    runs = 12 if ctx.tier == "quick" else 40
    for i in range(runs):
        rc, out, err = cli.run_selene(["--display-style", "json2", "--num-threads", "1", "multi.lua"], d)
        outs.add(out)
        ctx.evaluations += 1
    if len(outs) != 1:
        a, b = sorted(outs)[:2]
        ctx.violation("implementation violates the specification: [C12] the CLI's json2 output for one file differs between process starts",
                      f"file: {os.path.join(d, 'multi.lua')}\n{runs} runs produced {len(outs)} different outputs\nfirst:\n{a[:1500]}\nsecond:\n{b[:1500]}")
    else:
        ctx.nontrivial.add("cli-restarts")
    # … and under a configuration whose tables hold near-duplicate keys (lint names spelled with `-` and with `_`, at different
    # levels; option tables for both spellings): whatever the tool makes of such a file, it makes the same of it every time
    with open(os.path.join(d, "near_duplicates.toml"), "w") as fh:
        fh.write('std = "lua51"\n[lints]\n'
                 'unused_variable = "allow"\nunused-variable = "deny"\nshadowing = "deny"\n"shadowing " = "allow"\n'
                 'mismatched_arg_count = "warn"\nmismatched-arg-count = "allow"\nduplicate_keys = "allow"\nduplicate-keys = "deny"\n'
                 'undefined_variable = "warn"\nundefined-variable = "deny"\nifs_same_cond = "deny"\nifs-same-cond = "allow"\n'
                 'Unused_Variable = "warn"\nUNDEFINED_VARIABLE = "allow"\n'
                 '[config]\nunused_variable = { ignore_pattern = "^a" }\nunused-variable = { ignore_pattern = "^b" }\n')
    outs = set()
    for i in range(runs):
        rc, out, err = cli.run_selene(["--config", "near_duplicates.toml", "--display-style", "json2", "--num-threads", "1", "multi.lua"], d)
        outs.add((rc, out, re.sub(r"\s+", " ", err)[:400]))
        ctx.evaluations += 1
    if len(outs) != 1:
        a, b = sorted(outs)[:2]
        ctx.violation("implementation violates the specification: [C12] under a configuration with near-duplicate lint names the CLI's output for one file differs between process starts",
                      f"file: {os.path.join(d, 'multi.lua')}\nconfig: {os.path.join(d, 'near_duplicates.toml')}\n{runs} runs produced {len(outs)} different (exit status, stdout, stderr)\nfirst: rc={a[0]}\n{a[1][:1200]}\n{a[2]}\nsecond: rc={b[0]}\n{b[1][:1200]}\n{b[2]}")
    else:
        ctx.nontrivial.add("cli-restarts-near-duplicate-config")
    # alone vs accompanied: what the tool says about one file must not depend on whether other files are named in the same
    # invocation — for ordinary files and for a series of deeply nested ones, whose checking needs more and more stack (the
    # outcome may then be "the process died", but the same one in both invocations: every file is checked on a pool thread)
    companions = os.path.join(d, "companion.lua")
    with open(companions, "w") as fh:
        fh.write("local other = 1\nprint(other, undefined_other)\n")
    with open(os.path.join(d, "a_broken.lua"), "w") as fh:
        fh.write("local function broken(\nprint('never closed'\n")
    os.makedirs(os.path.join(d, "a_dir.lua"), exist_ok=True)
    def outcome(args, name):
        rc, out, err = cli.run_selene(["--display-style", "quiet", "--no-summary"] + args, d)
        ctx.evaluations += 1
        if rc < 0 or rc >= 128:
            return "process died"
        return "\n".join(l for l in out.splitlines() if l.startswith(name + ":")) + f"\nexit status {rc}"
    subjects = [("multi.lua", None)]
    depths = (8, 24, 40, 64, 128, 512) if ctx.tier == "quick" else (4, 8, 16, 24, 32, 40, 48, 56, 64, 80, 96, 128, 192, 256, 512, 1024, 4096)
    for depth in depths:
        for kind, (o, c) in (("parens", ("(", ")")), ("tables", ("{", "}")), ("calls", ("f(", ")"))):
            name = f"deep_{kind}_{depth}.lua"
            with open(os.path.join(d, name), "w") as fh:
                fh.write(f"local unused = {o * depth}1{c * depth}\nprint(undefined_thing)\n")
            subjects.append((name, depth))
    died = 0
    for name, depth in subjects:
        alone = outcome([name], name)
        # the exit status of a joint run also reflects the companion's diagnostics: compare the subject's own lines only
        strip = lambda o: o if o == "process died" else o.rsplit("\nexit status", 1)[0]
        for label, args in (("next to another file", [name, "companion.lua"]), ("next to another file, one thread", ["--num-threads", "1", "companion.lua", name]),
                            ("after a file that does not parse and one that cannot be read, one thread", ["--num-threads", "1", "a_broken.lua", "a_dir.lua", name])):
            together = outcome(args, name)
            if strip(alone) != strip(together):
                # an overflow threshold could in principle wobble between process starts: report only what repeats
                again = [(strip(outcome([name], name)), strip(outcome(args, name))) for _ in range(2)]
                if all(a != b for a, b in again):
                    ctx.violation(f"implementation violates the specification: [C12] {name} checked alone and checked {label} give different outcomes (3 of 3 repetitions)",
                                  f"directory: {d}\nfile: {name}" + (f" (an expression nested {depth} levels deep)" if depth else "") +
                                  f"\nalone (`selene {name}`):\n{strip(alone)[:800]}\n{label} (`selene {' '.join(args)}`):\n{strip(together)[:800]}")
                    break
        died += alone == "process died"
    ctx.nontrivial.add("alone-vs-accompanied")
    ctx.notes.append(f"alone vs accompanied: {len(subjects)} files, {died} of them exhaust the stack of a pool thread in this (debug) build — in both invocations alike")
    # source audits
    shared_state_audit(ctx)
    findings = hash_iteration_audit(ctx)
    ctx.notes.append(f"hash-iteration audit: {len(findings)} un-audited iteration sites")
    for f in findings:
        ctx.violation("the source audit behind C12 no longer holds: " + f,
                      "A hash container of selene-lib is iterated; unless the result is sorted before it can reach a diagnostic, the order of diagnostics / labels depends on the hash seed.\n" + f,
                      no_input=True)


def check(ctx):
    ctx.assumptions = [
        "hash *lookups* (duplicate_keys, mismatched_arg_count, multiple_statements, scopes' captured_references / else_blocks, lint configuration) are order-free; the audit only looks for *iteration* over names bound to HashMap / HashSet values (regex-level, trusted)",
        "thread interleavings at the memory level are not modelled: `&self` lints and `Sync` bounds are Rust's guarantee; schedules are those reached by 8 threads in repeated runs",
    ]
    return vlib.standard_check(ctx, ["Selene.Props.C12"], body,
                               trusted=vlib.BASE_TRUST + ["tools/props/C12.py hash-iteration audit and shared-state audit (regex over selene-lib/src and selene/src)"], rule=RULE, need_selene=True)
