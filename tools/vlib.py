"""Shared machinery of the per-property checks (see DESIGN.md §2.5).

A check = (1) regenerate translator output, (2) `lake build` the property's theorem module and the
model driver, (3) audit the proofs (forbidden constructs, axioms), (4) build the Rust harness against
/repo's working tree, (5) correspondence run impl-vs-model and impl-vs-spec, (6) verdict,
(7) evidence file.
"""
import json, os, re, subprocess, sys, time, hashlib, shutil

VERIF = os.path.dirname(os.path.dirname(os.path.abspath(__file__)))
LEAN = os.path.join(VERIF, "lean")
HARNESS = os.path.join(VERIF, "harness")
REPO = "/repo"
WORK = os.path.join(VERIF, ".work")
MODEL_EXE = os.path.join(LEAN, ".lake", "build", "bin", "selene_model")
HARNESS_EXE = os.path.join(HARNESS, "target", "debug", "verif-harness")
SELENE_TARGET = os.path.join(WORK, "selene-target")
SELENE_EXE = os.path.join(SELENE_TARGET, "debug", "selene")
ALLOWED_AXIOMS = {"propext", "Classical.choice", "Quot.sound"}
FORBIDDEN = re.compile(r"\b(sorry|admit|native_decide|bv_decide|implemented_by|unsafe)\b|^\s*axiom\s|maxHeartbeats\s+0")

ENV = dict(os.environ)
ENV["CARGO_NET_OFFLINE"] = "true"
ENV.setdefault("CARGO_TERM_COLOR", "never")


def log(*a):
    print(*a, file=sys.stderr, flush=True)


def run(cmd, cwd=None, timeout=None, env=None, input=None):
    p = subprocess.run(cmd, cwd=cwd, env=env or ENV, capture_output=True, text=True, timeout=timeout, input=input)
    out = "\n".join(l for l in p.stdout.splitlines() if not l.startswith("WARNING conda"))
    err = "\n".join(l for l in p.stderr.splitlines() if not l.startswith("WARNING conda"))
    return p.returncode, out, err


class Violation(Exception):
    def __init__(self, what, replay_text, no_input=False):
        self.what = what
        self.replay_text = replay_text
        self.no_input = no_input


class Ctx:
    """State of one check run."""

    def __init__(self, pid, tier, seed):
        self.pid = pid
        self.tier = tier
        self.seed = seed
        self.t0 = time.time()
        self.theorems = []          # (name, axioms)
        self.obligations = 0
        self.discharged = 0
        self.evaluations = 0
        self.nontrivial = set()
        self.samples = []
        self.tags = {}
        self.stats = {}
        self.violations = []        # (what, replay_path, no_input)
        self.known = []
        self.assumptions = []
        self.notes = []
        self.impl_vs_spec_failures = 0
        self.model_vs_impl_disagreements = 0
        self.rule = ""
        self.workdir = os.path.join(WORK, pid)
        shutil.rmtree(self.workdir, ignore_errors=True)
        os.makedirs(self.workdir, exist_ok=True)
        os.makedirs(os.path.join(VERIF, "replays"), exist_ok=True)
        self.findings = load_findings(pid)

    # ---- reporting -------------------------------------------------------------------------
    def replay_path(self, tag):
        h = hashlib.sha1(tag.encode()).hexdigest()[:10]
        return os.path.join(VERIF, "replays", f"{self.pid}-{h}.txt")

    def violation(self, what, replay_text, no_input=False):
        """Record a violation unless it matches a listed known finding."""
        hay = what + "\n" + replay_text
        for f in self.findings:
            if f["kind"] == "finding" and re.search(f["key"], hay, re.S):
                if f not in self.known:
                    self.known.append(f)
                return False
        path = self.replay_path(what + replay_text)
        with open(path, "w") as fh:
            fh.write(f"property: {self.pid}\nwhat: {what}\n")
            if no_input:
                fh.write("no-failing-input-found\n")
            fh.write(replay_text + "\n")
        # one report per distinct `what` prefix keeps the output readable
        self.violations.append((what, path, no_input))
        return True

    # ---- steps ---------------------------------------------------------------------------
    def lake_build(self, targets):
        rc, out, err = run(["lake", "build"] + targets, cwd=LEAN, timeout=3600)
        if rc != 0:
            # which theorem / module stopped checking?
            failing = re.findall(r"error: (\S+\.lean):(\d+):(\d+): (.*)", out + "\n" + err)
            names = []
            for (f, line, col, msg) in failing[:5]:
                names.append(f"{f}:{line}: {msg[:160]}")
            text = "lake build failed for " + " ".join(targets) + "\n" + "\n".join(names) + "\n--- build output (tail) ---\n" + "\n".join((out + "\n" + err).splitlines()[-60:])
            return False, text
        return True, out

    def audit(self, prop_modules):
        """forbidden constructs + axioms of every theorem in the property modules"""
        bad = []
        for root, _, files in os.walk(LEAN):
            if ".lake" in root:
                continue
            for fn in files:
                if not fn.endswith(".lean"):
                    continue
                p = os.path.join(root, fn)
                in_block = 0
                for i, line in enumerate(open(p, encoding="utf-8"), 1):
                    code = line
                    # strip comments (line and block) conservatively
                    if in_block:
                        if "-/" in code:
                            in_block = 0
                            code = code.split("-/", 1)[1]
                        else:
                            continue
                    if "/-" in code:
                        before, after = code.split("/-", 1)
                        if "-/" in after:
                            code = before + after.split("-/", 1)[1]
                        else:
                            code = before
                            in_block = 1
                    code = code.split("--", 1)[0]
                    code = re.sub(r'"(\\.|[^"\\])*"', '""', code)
                    if FORBIDDEN.search(code):
                        bad.append(f"{os.path.relpath(p, LEAN)}:{i}: {line.strip()}")
        if bad:
            return False, "forbidden construct in Lean sources:\n" + "\n".join(bad)
        names = []
        for mod in prop_modules:
            path = os.path.join(LEAN, *mod.split(".")) + ".lean"
            src = open(path, encoding="utf-8").read()
            src = re.sub(r"/-.*?-/", "", src, flags=re.S)      # theorem names are looked for outside comments
            ns = None
            m = re.search(r"^namespace\s+(\S+)", src, re.M)
            if m:
                ns = m.group(1)
            for m in re.finditer(r"^(?:private\s+|protected\s+)?theorem\s+([A-Za-z0-9_.'!?]+)", src, re.M):
                names.append((mod, (ns + "." if ns else "") + m.group(1)))
        if not names:
            return False, "no theorems found in " + ",".join(prop_modules)
        tmp = os.path.join(self.workdir, "axioms.lean")
        with open(tmp, "w") as fh:
            for mod in prop_modules:
                fh.write(f"import {mod}\n")
            for _, n in names:
                fh.write(f"#print axioms {n}\n")
        rc, out, err = run(["lake", "env", "lean", tmp], cwd=LEAN, timeout=1200)
        self.obligations = len(names)
        ok = True
        problems = []
        found = {}
        for m in re.finditer(r"'([^']+)' depends on axioms: \[([^\]]*)\]", out.replace("\n ", " ")):
            found[m.group(1)] = [a.strip() for a in m.group(2).split(",") if a.strip()]
        for m in re.finditer(r"'([^']+)' does not depend on any axioms", out):
            found[m.group(1)] = []
        for _, n in names:
            if n not in found:
                ok = False
                problems.append(f"{n}: axioms could not be printed")
                continue
            extra = set(found[n]) - ALLOWED_AXIOMS
            if extra:
                ok = False
                problems.append(f"{n}: depends on {sorted(extra)}")
            else:
                self.discharged += 1
            self.theorems.append((n, found[n]))
        if rc != 0 and not problems:
            ok = False
            problems.append("lean exited non-zero while printing axioms:\n" + (out + err)[-800:])
        return ok, "\n".join(problems)

    def leanchecker(self, prop_modules):
        for mod in prop_modules:
            rc, out, err = run(["lake", "env", "leanchecker", mod], cwd=LEAN, timeout=3600)
            if rc != 0:
                return False, f"leanchecker rejected {mod}:\n{(out + err)[-600:]}"
        self.notes.append("leanchecker re-checked " + ", ".join(prop_modules))
        return True, ""

    def build_harness(self):
        lock = os.path.join(HARNESS, "Cargo.lock")
        if not os.path.exists(lock):
            shutil.copy(os.path.join(REPO, "Cargo.lock"), lock)
        rc, out, err = run(["cargo", "build", "--offline"], cwd=HARNESS, timeout=3600)
        if rc != 0:
            return False, "cargo build of the harness against /repo failed (the working tree does not compile, or an API the harness observes changed):\n" + "\n".join((out + "\n" + err).splitlines()[-40:])
        return True, ""

    def build_selene(self):
        rc, out, err = run(["cargo", "build", "--workspace", "--offline", "--features", "selene/verif-hooks"], cwd=REPO,
                           env=dict(ENV, CARGO_TARGET_DIR=SELENE_TARGET), timeout=3600)
        if rc != 0:
            return False, "cargo build of selene failed:\n" + "\n".join((out + "\n" + err).splitlines()[-40:])
        return True, ""

    def harness(self, group, n, extra=None, seed=None, name=None):
        outdir = os.path.join(self.workdir, name or group)
        shutil.rmtree(outdir, ignore_errors=True)
        cmd = [HARNESS_EXE, group, "--seed", str(self.seed if seed is None else seed), "--n", str(n), "--tier", self.tier, "--out", outdir]
        if extra:
            cmd += extra
        rc, out, err = run(cmd, timeout=7200)
        if rc != 0:
            raise RuntimeError(f"harness {group} failed rc={rc}: {err[-2000:]}")
        meta = json.load(open(os.path.join(outdir, "meta.json")))
        for k, v in meta.get("stats", {}).items():
            self.stats[k] = self.stats.get(k, 0) + v
        return outdir, meta

    def model(self, cases_path):
        with open(cases_path, "rb") as fh:
            p = subprocess.run([MODEL_EXE], stdin=fh, capture_output=True, timeout=7200)
        if p.returncode != 0:
            raise RuntimeError("model driver failed: " + p.stderr.decode()[-1000:])
        return p.stdout.decode("utf-8").splitlines()

    # ---- shrinking a failing program ---------------------------------------------------------
    def _still_fails(self, group, src, clause, which):
        """does the one-program run of `group` on `src` still produce a verdict of kind `which` containing `clause`?"""
        d = os.path.join(self.workdir, "shrink")
        shutil.rmtree(d, ignore_errors=True)
        os.makedirs(d, exist_ok=True)
        f = os.path.join(d, "candidate.lua")
        with open(f, "w", encoding="utf-8", newline="") as fh:
            fh.write(src)
        env = dict(ENV); env["VERIF_ONLY_PROGRAM"] = f
        rc, out, err = run([HARNESS_EXE, group, "--seed", str(self.seed), "--n", "0", "--tier", "quick", "--out", d], env=env, timeout=120)
        if rc != 0:
            return False
        try:
            resp = self.model(os.path.join(d, "cases.tsv"))
        except Exception:
            return False
        for r in resp:
            parts = (r.split("\t") + ["", "", "", ""])[:4]
            if which == "spec" and parts[1].startswith("BAD") and clause in parts[1]:
                return True
            if which == "diff" and parts[0] == "DIFF" and not parts[1].startswith("BAD"):
                return True
        return False

    def shrink_program(self, group, src, clause, which="spec", budget_s=25.0, max_tests=160):
        """delta debugging over the lines of a program: the smallest line subset found on which the same verdict
        persists (a candidate that no longer parses simply does not reproduce it)"""
        t0 = time.time()
        lines = src.splitlines(keepends=True)
        tests = 0
        if not self._still_fails(group, src, clause, which):
            return None, 0
        n = 2
        while len(lines) >= 2 and tests < max_tests and time.time() - t0 < budget_s:
            chunk = max(1, len(lines) // n)
            reduced = False
            i = 0
            while i < len(lines) and tests < max_tests and time.time() - t0 < budget_s:
                cand = lines[:i] + lines[i + chunk:]
                tests += 1
                if cand and self._still_fails(group, "".join(cand), clause, which):
                    lines = cand
                    n = max(n - 1, 2)
                    reduced = True
                else:
                    i += chunk
            if not reduced:
                if chunk == 1:
                    break
                n = min(n * 2, len(lines))
        return "".join(lines), tests

    def correspond(self, outdir, nontrivial_tag=None, what_prefix="", ignore_spec=None, shrink_group=None):
        """Compare the implementation's outputs with the model's and judge them by the spec."""
        shrunk = 0
        cases_path = os.path.join(outdir, "cases.tsv")
        cases = open(cases_path, encoding="utf-8").read().splitlines()
        resp = self.model(cases_path)
        if len(resp) != len(cases):
            raise RuntimeError(f"model answered {len(resp)} lines for {len(cases)} cases")
        for i, (c, r) in enumerate(zip(cases, resp)):
            parts = r.split("\t")
            if len(parts) < 4:
                parts += [""] * (4 - len(parts))
            agree, spec, model_out, tags = parts[0], parts[1], parts[2], parts[3]
            cmd, inp, impl = (c.split("\t") + ["", ""])[:3]
            self.evaluations += 1
            tagl = [t for t in tags.split(",") if t]
            for t in tagl:
                self.tags[t] = self.tags.get(t, 0) + 1
            if tagl and (nontrivial_tag is None or nontrivial_tag(tagl)):
                self.nontrivial.add(hashlib.sha1((cmd + inp).encode()).hexdigest())
            if len(self.samples) < 4 and tagl:
                self.samples.append({"cmd": cmd, "input": inp[:400], "implementation": impl[:300], "tags": tagl})
            if model_out.startswith("MALFORMED-REQUEST"):
                raise RuntimeError(f"model could not read case {i}: {model_out}: {c[:300]}")
            if spec.startswith("BAD"):
                # a verdict may carry several clauses (` ;; `-separated); clauses of other properties are dropped
                items = [x for x in spec[4:].split(" ;; ") if not (ignore_spec and ignore_spec(x))]
                if not items:
                    spec = "ok"
            if spec.startswith("BAD"):
                self.impl_vs_spec_failures += 1
                for item in items:
                    extra = ""
                    src = extract_program(inp) if shrink_group else None
                    is_new = not any(f["kind"] == "finding" and re.search(f["key"], item, re.S) for f in self.findings)
                    if src and is_new and shrunk < 2:
                        shrunk += 1
                        clause = item[:24]
                        small, tests = self.shrink_program(shrink_group, src, clause)
                        if small is not None:
                            extra = (f"\nminimised program ({len(small.splitlines())} of {len(src.splitlines())} lines, {tests} candidates tried; "
                                     f"it still draws a `{clause}` verdict):\n{small}")
                    self.violation(f"{what_prefix}implementation violates the specification: {cmd}: {item[:300]}",
                                   f"case: {cmd}\ninput: {inp}\nimplementation: {impl}\nspecification-verdict: BAD:{item}\nmodel: {model_out}\nrerun: harness group output {outdir} line {i + 1}" + extra)
            elif agree != "agree":
                self.model_vs_impl_disagreements += 1
                self.violation(f"{what_prefix}correspondence {cmd} broke: model and implementation differ (the implementation's output still satisfies the specification checks evaluated on this input)",
                               f"case: {cmd}\ninput: {inp}\nimplementation: {impl}\nmodel: {model_out}\nrerun: harness group output {outdir} line {i + 1}",
                               no_input=True)

    # ---- finishing -------------------------------------------------------------------------
    def finish(self, level="proof", checker_cmd="", trusted=None, rule="", explanation=""):
        wall = time.time() - self.t0
        cov = {
            "obligations": self.obligations,
            "discharged": self.discharged,
            "checker_cmd": checker_cmd,
            "trusted_base": trusted or [],
            "theorems": [{"name": n, "axioms": a} for n, a in self.theorems],
            "evaluations": self.evaluations,
            "distinct_nontrivial": len(self.nontrivial),
            "rule": rule or self.rule,
            "samples": self.samples[:6],
            "model_branch_tags": self.tags,
            "input_distribution": self.stats,
            "impl_vs_spec_failures": self.impl_vs_spec_failures,
            "model_vs_impl_disagreements": self.model_vs_impl_disagreements,
            "known_findings_matched": [f["text"] for f in self.known],
            "notes": self.notes,
        }
        if explanation:
            cov["explanation"] = explanation
        ev = {
            "property_id": self.pid,
            "tier": self.tier,
            "seed": self.seed,
            "level": level,
            "coverage": cov,
            "assumptions": self.assumptions,
            "wall_s": round(wall, 2),
            "violations": len(self.violations),
        }
        os.makedirs(os.path.join(VERIF, "evidence"), exist_ok=True)
        with open(os.path.join(VERIF, "evidence", f"{self.pid}.json"), "w") as fh:
            json.dump(ev, fh, indent=1, ensure_ascii=False)
        for f in self.known:
            print(f"KNOWN-FINDING: property={self.pid} {f['text']}")
        if self.violations:
            seen = set()
            for what, path, no_input in self.violations:
                key = what[:80]
                if key in seen:
                    continue
                seen.add(key)
                log(f"[{self.pid}] {what}")
                print(f"VIOLATION property={self.pid} replay={path}" + (" no-failing-input-found" if no_input else ""))
            return 1
        log(f"[{self.pid}] ok: {self.discharged}/{self.obligations} theorems, {self.evaluations} cases ({len(self.nontrivial)} non-trivial), {wall:.1f}s")
        return 0


def extract_program(inp):
    """the source text inside a `(chunk origin "src" …)` request: the second top-level string of the S-expression"""
    strings = []
    depth = 0
    i = 0
    n = len(inp)
    while i < n:
        c = inp[i]
        if c == "(":
            depth += 1
        elif c == ")":
            depth -= 1
        elif c == '"':
            j = i + 1
            buf = []
            while j < n and inp[j] != '"':
                if inp[j] == "\\" and j + 1 < n:
                    e = inp[j + 1]
                    if e == "n": buf.append("\n"); j += 2
                    elif e == "t": buf.append("\t"); j += 2
                    elif e == "r": buf.append("\r"); j += 2
                    elif e == "u" and j + 2 < n and inp[j + 2] == "{":
                        k = inp.index("}", j)
                        buf.append(chr(int(inp[j + 3:k], 16))); j = k + 1
                    else: buf.append(e); j += 2
                else:
                    buf.append(inp[j]); j += 1
            if depth == 1:
                strings.append("".join(buf))
            i = j
        i += 1
    return strings[1] if len(strings) >= 2 else None


def load_findings(pid):
    path = os.path.join(VERIF, "known_findings.txt")
    res = []
    if not os.path.exists(path):
        return res
    for line in open(path, encoding="utf-8"):
        line = line.strip()
        if not line or line.startswith("#"):
            continue
        m = re.match(r"(finding|fixed):\s+property=(\S+)\s+(.*)", line)
        if not m or m.group(2) != pid[:3]:      # C04A / C04B share C04's findings
            continue
        kind, _, rest = m.groups()
        key = None
        km = re.match(r"key=/((?:\\/|[^/])*)/\s+(.*)", rest)
        if km:
            key, rest = km.group(1).replace("\\/", "/"), km.group(2)
        res.append({"kind": kind, "key": key or "$^", "text": rest})
    return res


def standard_check(ctx, prop_modules, body, trusted, rule, checker_cmd=None, extra_targets=None, need_selene=False):
    """The common skeleton. `body(ctx)` runs the correspondence streams."""
    targets = list(prop_modules) + ["selene_model"] + (extra_targets or [])
    ok, text = ctx.lake_build(targets)
    if not ok:
        ctx.violation("a proof obligation no longer checks: " + text.splitlines()[0], text, no_input=True)
    else:
        ok, text = ctx.audit(prop_modules)
        if not ok:
            ctx.violation("proof audit failed: " + text.splitlines()[0], text, no_input=True)
        if ctx.tier == "thorough":
            ok, text = ctx.leanchecker(prop_modules)
            if not ok:
                ctx.violation("leanchecker: " + text.splitlines()[0], text, no_input=True)
    ok, text = ctx.build_harness()
    if not ok:
        ctx.violation("harness build failed", text, no_input=True)
        return ctx.finish(checker_cmd=checker_cmd or "", trusted=trusted, rule=rule)
    if need_selene:
        ok, text = ctx.build_selene()
        if not ok:
            ctx.violation("selene build failed", text, no_input=True)
            return ctx.finish(checker_cmd=checker_cmd or "", trusted=trusted, rule=rule)
    if os.path.exists(MODEL_EXE):
        try:
            body(ctx)
        except RuntimeError as e:
            ctx.violation("correspondence run could not be completed: " + str(e)[:200], str(e), no_input=True)
    return ctx.finish(checker_cmd=checker_cmd or ("cd lean && lake build " + " ".join(targets) + " && lake env lean <#print axioms of every theorem>"),
                      trusted=trusted, rule=rule)


BASE_TRUST = [
    "Lean 4.33.0 kernel; axioms limited to propext, Classical.choice, Quot.sound (checked by #print axioms on every theorem of the property module)",
    "the correspondence check (Rust harness linked against /repo's working tree, exchange-format printers/readers, generators) ties the hand-written Lean model to the code by differential execution only",
]
