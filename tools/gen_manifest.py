#!/usr/bin/env python3
"""Regenerates MANIFEST.json from the table below (kept in one place so it is always valid)."""
import json, os
V = os.path.dirname(os.path.dirname(os.path.abspath(__file__)))

PROOF_NOTE = ("Trusted: Lean 4.33 kernel with axioms propext/Classical.choice/Quot.sound only (audited per run); the hand-written model is tied to "
              "/repo's working tree by the differential correspondence run of the Rust harness (bounded, sampled); ")

CLAIMED = {
    "C01": dict(
        text="Machine-checked (Lean 4), for every chunk and every library predicate: the scope-stack machine of Scope/Core.lean (scope stack with `...` barriers, reference log, try_hoist with its rewrite of earlier unresolved reads, eager reads before closures, if/elseif scope juggling, loop variables, methods, varargs, declarations with `shadowed`, plain-name writes) computes exactly what Lua 5.1's scoping rules prescribe — C01_log / C01_resolution: its answers (every read with the local declaration it denotes, every declaration with what it shadows, every plain-name target that assigns a global) are, as multisets, those of the environment-passing resolver Spec.resolve written from the reference manual. On top: C01_sound — a token reported by undefined_variable over the machine's log is an expression-position occurrence that Lua binds to no local / parameter / loop variable / self, whose name the library does not supply, that is not `...` of the main chunk and that is not a global the file assigns (or defines with `function name`) in its outermost block; C01_complete — an occurrence bound to nothing, not supplied by the library and never assigned as a global anywhere in the file is reported at its token. Also C01_lint_sound / C01_once over all tables of the full ScopeVisitor model.",
        note=PROOF_NOTE + "the machine is tied to /repo on every run: every read with its binding, every declaration with its `shadowed`, and the lint's output (undefinedReports vs the real undefined_variable diagnostics) are compared with the real ScopeManager / Checker on every program; the implementation is additionally judged by the resolver directly (three-way). Trusted/assumed: full_moon's parser and visitor order (reproduced hook by hook; a divergence shows as a table mismatch); the library enters as the predicate `hasFields` computed by the real code (its lookup is C06); `exactly once` is proved over the full model's tables (C01_once), token uniqueness being a property of the parser.",
        technique='Lean 4 proof: scope-stack machine = environment-passing Lua resolver for all chunks (mutual structural induction with Rel/Pure/Grow, permutation via List.count), hoisting invariants carried through the same induction (Safe.lean: Inv/Good/Step), two-directional lint theorem C01_sound / C01_complete + three-way correspondence real ScopeManager & diagnostics / machine / resolver',
        design="§4 C01"),
    "C02": dict(
        text="Machine-checked (Lean 4), for every chunk: C02_used_iff — the scope-stack machine of Scope/Core.lean (scope stack with `...` barriers, reference log, try_hoist with its rewrite of earlier unresolved reads, eager reads before closures, if/elseif scope juggling, loop variables, methods, varargs, declarations with `shadowed`, plain-name writes) records a read resolving to a declaration iff Lua's scoping rules bind some expression-position occurrence to it (corollary of C01_log); C02_value_used_iff — it records a *value use* (any expression position except the root of an indexed assignment target) of a declaration iff Lua binds to it an occurrence of kind `value`; C02_neverUsed_iff — a declaration is among those the lint may report (none of its recorded reads uses the value) iff it is a local / parameter / loop variable / local function / implicit self to which Lua binds no value-using occurrence: a variable an expression uses is never among them, a variable never mentioned again always is; for all scope tables of the full ScopeVisitor model: a reported variable has no reference analysed as a read, is not ignored and is not an ignorable self (C02_lint_sound, C02_read_protects, C02_plain_read).",
        note=PROOF_NOTE + "PARTIAL, stated: the read/write classification of each reference (assignment targets, indexed targets, compound paths, the documented `observes: write` / static-table analysis) lives in the full model (Scope/Model.lean), which is compared table-by-table with the implementation on every run but is not tied to the machine by proof; the property's first sentence is false by design for the documented `observes: write` analysis (recorded finding). The three-way run judges the real diagnostics by the resolver (used-but-reported / unmentioned-not-reported clauses, also under non-default ignore patterns).",
        technique='Lean 4 proof of resolution equivalence (read recorded <=> Lua binds an occurrence to the declaration) + lint theorems over the scope tables + three-way correspondence real ScopeManager tables & diagnostics / Lean ScopeVisitor model and machine / Lua resolver',
        design="§4 C02"),
    "C03": dict(
        text="Machine-checked (Lean 4), for every chunk and every ignore predicate: C03_shadows — the scope-stack machine of Scope/Core.lean (scope stack with `...` barriers, reference log, try_hoist with its rewrite of earlier unresolved reads, eager reads before closures, if/elseif scope juggling, loop variables, methods, varargs, declarations with `shadowed`, plain-name writes) records for every declaration (local, parameter, loop variable, local function, implicit self) as `shadowed` exactly the local declaration that Lua's scoping rules make visible under the same name at that point (a global the file assigns is no declaration); C03_report_iff — the shadowing lint over the machine's log reports (declaration, earlier declaration) iff the resolver finds a visible same-name local there and the name is neither ignored nor `...`. Also C03_lint_sound / C03_lint_complete over all tables of the full model.",
        note=PROOF_NOTE + "the machine's declaration log is compared with ScopeManager.variables[*].shadowed on every program; the real diagnostics are judged by the resolver (unsound / missed clauses, also with an ignore pattern matching nothing). The same-statement corner (`local x, x`) is recorded as selene reports it and flagged `sameStatement`; the check accepts either answer there.",
        technique="Lean 4 proof: the machine's `shadowed` log = the resolver's visible same-name declaration for all chunks (same induction as C01, name filter as a parameter) + lint-level iff + three-way correspondence",
        design="§4 C03"),
    "C04": dict(
        text="Lean 4 models of the seventeen closed-form lints (every Visitor hook they implement, their numeral / escape / side-effect / parameter-count helpers) over the full Lua 5.1 syntax tree, and by-value specifications written from docs/src/lints (Doc.*), canonical-pattern specifications (Canon.*) and numeral semantics (exact rational thresholds for `denotes zero` / `<= 1`, escape decoding). Proved for all programs (no bound on size, nesting or context): per-lint soundness (a model diagnostic implies the documented condition, e.g. divide_by_zero_sound, suspicious_reverse_loop_sound, ifs_same_cond_sound, almost_swapped_sound, unbalanced lintAssignment_iff), canonical-pattern completeness under arbitrary enclosing contexts via traversal lemmas (every statement / expression of the tree is visited: *_canon theorems), by-value theorems for numerals (number_is_zero_by_value, *_by_value) and the fixed-defect witnesses; remaining partial statements (bad_string_escape general soundness, duplicate_keys under plainKeys, mismatched_arg_count lattice) are named in the property files.",
        note=PROOF_NOTE + "PARTIAL where named: bad_string_escape and duplicate_keys are proved on their documented families and otherwise decided by the three-way run; mismatched_arg_count's flow heuristics are modelled and compared, its documented condition is proved for single-definition programs; six recorded findings (duplicate_keys by raw text / by spelling, mismatched_arg_count x2, multiple_statements inside a closure in an if condition). full_moon parser and Visitor order assumed.",
        technique="Lean 4 theorems lint-model => documented condition and canonical pattern => lint-model fires in every context (traversal lemmas), by-value numeral theorems + three-way correspondence implementation / model / by-value specification on per-lint template families with re-spelled literals in random contexts",
        design="§4 C04"),
    "C05": dict(
        text="Machine-checked proofs over a Lean 4 model of visit_function_call / get_argument_type / PassedArgumentType (call style, the three argument forms, the expected/max/vararg/maybe-more arithmetic, the per-argument loop, all Lua 5.1 expression forms): `.`/`:` misuse is reported exactly when the style differs (C05_style); a count problem is reported iff the argument count lies outside the documented range or the call has more arguments than parameters with a trailing call/`...` (C05_count; C05_count_exact is the property's wording outside that case, which is refuted for the unrestricted statement by `math.abs(1, f())`); every reported type problem on arguments without long-bracket literals and without arithmetic on string-typed operands is a definite mismatch against an independent static reading of the Lua manual (C05_types), constant lists are judged by content for short-quoted literals (C05_constant), and a call satisfying the definition is not reported (C05_clean). Tied to the code by running the real lint on generated single-function libraries x generated and bounded-exhaustive calls; the check reports the three places where the unchanged code leaves the property (long-bracket literals vs constant lists, open over-full calls, arithmetic on string literals).",
        note=PROOF_NOTE + "the property as worded is false of the current code in three recorded ways, so C05_count/C05_types/C05_clean carry the hypotheses `overfullOpen = false` / `tameArgs`; each hypothesis is shown necessary by a decide-checked counterexample and by impl-vs-spec BAD verdicts in the run. String escapes are not interpreted; the static reading is metamethod-free; name lookup (C06) and scope resolution (C01/C07) are outside the model.",
        technique="Lean 4 theorems over a model of the call check against an independently written specification (documented count range, metamethod-free static typing of argument expressions) + three-way correspondence implementation / model / specification on generated and bounded-exhaustive (definition, call) pairs",
        design="§4 C05"),
    "C06": dict(
        text="Machine-checked proof that the model of find_global (global tree built by extract_into_tree, segment walk with explicit-before-`*`, struct switch, any short-circuit, implicit read-only prefixes) equals the documented resolution defined directly on the flat key map, for every library and every query path; that global_has_fields is `some key starts with the root`; that lookup never panics when struct references are closed; and that assignment targets are judged independently of position. Tied to the code by differential runs of find_global / global_has_fields and of the real lint on generated libraries, paths and assignments.",
        note=PROOF_NOTE + "keys are modelled as segment lists (no '.' inside a queried name); the scope-resolution gate is an input flag here (C01/C07).",
        technique="Lean 4 refinement proof trie-walk = prefix specification (C06_find via fieldAt_insertSegs / fieldAt_fold / walkTree_eq) + correspondence with find_global and the lint",
        design="§4 C06"),
    "C07": dict(
        text="Lean 4: every modelled library lint reaches the library only through the `resolved` flag of the use's first identifier: a call statement whose name is script-bound yields no must_use diagnostic and the diagnostics depend on the program only through the call statements and those flags (C07_must_use_inside, C07_must_use_outside); a locally bound root silences field access / assignment checks for every library and path (C07_access_inside). That the flag is exactly `Lua binds the identifier to a local` is proved for every chunk: C07_gate_inside (an occurrence Lua binds to a local / parameter / loop variable / local function / self has a reference resolved to that declaration) and C07_gate_outside (an occurrence bound to nothing, of a name the file never assigns as a global, has an unresolved reference), corollaries of C01_log / C01_complete. Checked on the real code by 35 use snippets (bare, parenthesised and trivia-separated roots) x 13 re-binding constructs placed inside, after, before and beside the binding's scope, each compared with a fresh-name twin.",
        note=PROOF_NOTE + "PARTIAL: the deprecated and call-check lints are modelled up to their gate only; how each lint finds the use's first identifier (name paths, reference_at_byte) is covered by the twin runs.",
        technique='Lean 4 gate theorems over the scope/must_use/access models resting on the proved resolution equivalence + binding-vs-fresh-name twin runs of the real Checker',
        design="§4 C07"),
    "C08": dict(
        text="Lean 4 model of comment parsing, comment claiming and the push/pop filter machine with an independent specification (innermost covering filter wins, then the first accepted global filter, else unchanged). Proved: C08_machine — for every family of accepted filters whose inline members are the pre-order of a well-formed forest of code pieces (ranges nested or strictly apart, any depth and breadth, any number of filters per piece incl. zero-width pieces such as the end-of-file token, global filters interleaved anywhere) and every list of diagnostics, the machine never pops an empty stack and outputs exactly Spec.verdict for each diagnostic in order of position; C08_machine_checked (the same with the hypothesis as the executable check forestOf that the driver evaluates on the real get_filter_ranges output of every program); for all inputs laminar or not: C08_others_untouched, C08_no_filters, C08_most_recent_wins, C08_inner_shadows_outer; a decide-checked non-laminar counterexample shows the hypothesis is needed.",
        note=PROOF_NOTE + "the forest hypothesis is validated on every program of the run (6 004 in the thorough tier, none failing), not proved of full_moon's visitor; visitor order and str::lines are taken from the implementation via hooks.",
        technique="Lean 4 refinement proof: ordered insertion of a pre-order = structural instruction list (Build), lazy replay = independent prefix executions (Exec), prefix execution = stack of enclosing filters (Forest), innermost covering = first match on that stack (SpecForest) + three-way correspondence implementation / model / innermost-covering specification with the theorem's hypothesis evaluated per program",
        design="§4 C08"),
    "C09": dict(
        text="Proved over the filter model for all inputs: every claimed filter naming a missing lint is reported at its comment (C09_unknown), rejected filters have no effect on any diagnostic (C09_rejected_inert), a late global filter pushes nothing (C09_global_late_inert), a conflicting duplicate sits below the first filter and never decides (C09_conflict_inert); malformed comments are not filters (decide examples). The correspondence inspects every leading-trivia comment of every token, which exposes the recorded finding (comments before else/end are never looked at).",
        note=PROOF_NOTE + "one known finding recorded (unclaimed comments); conflict detection relies on same-range filters being consecutive (true for ranges claimed from one tree).",
        technique="Lean 4 theorems over the filter model + correspondence on programs with valid, misspelled, misplaced, duplicated and mangled filter comments at every attachment point",
        design="§4 C09"),
    "C10": dict(
        text="Proved: attaching severities never changes the findings (C10_same_findings), an applicable filter decides independently of the configured severity in both directions (C10_inline_wins), an unfiltered lint keeps the configured severity, an unconfigured lint gets its built-in default from the table regenerated from use_lints!/const SEVERITY on every run (C10_defaults, high_cyclomatic_complexity = allow by decide), Allow diagnostics contribute nothing to counts/exit (via C19). Tied to the code by running the same programs under random severity assignments and by CLI runs in all output modes.",
        note=PROOF_NOTE + "lint passes being severity-independent is structural in the model and validated by the same-findings comparison.",
        technique="Lean 4 theorems + regenerated lint/severity table + same-program-under-random-configurations correspondence + CLI runs",
        design="§4 C10"),
    "C11": dict(
        text="Lean 4: panic sites are modelled as explicit failure values or dependent indices and shown unreachable - find_global never panics for any library incl. one naming an undefined struct (C11_find_no_panic via C06_find_total), the name_path assert of lint_invalid_field_access is unreachable (C11_field_access_nonempty), Deprecated::try_instead's parameter index is provably in bounds for every format (total by typing, C11_try_instead_total, %0 witnesses), ranges on character boundaries never crash a writer (C11_ranges_wf_no_crash from C20), every lint name the models emit is registered (C11_lint_names_exist over the regenerated table). The remaining ~250 unwrap/expect sites are covered by the catch_unwind correspondence run over programs x 5 built-in libraries x configurations and generated libraries.",
        note=PROOF_NOTE + "PARTIAL by design: only the listed panic sites are modelled; the rest rely on full_moon invariants and sampling. One dependency finding recorded (full_moon parser panic).",
        technique="Lean 4 unreachability / totality theorems for the modelled panic sites + catch_unwind well-formedness sweep of the real checker",
        design="§4 C11"),
    "C12": dict(
        text="Lean 4: the lazily initialised global tree (OnceCell) is threaded as explicit state through every lookup and proved unobservable - any history of lookups through one checker answers exactly like fresh stateless lookups, wherever a query occurs (C12_history, C12_order_independent); the one hash-map iteration that reaches a diagnostic (possible standard libraries) yields the same sorted list for every iteration order (C12_hash_order, via mergeSort/permutation lemmas). Tied to the code by running one shared Arc<Checker> over shuffled sequences and 8 threads vs fresh runs (content and order), CLI process restarts, lookup histories through one library value vs the cache model, and a source audit for un-sorted hash iteration.",
        note=PROOF_NOTE + "PARTIAL by nature: memory-level thread interleavings are Rust's Sync guarantee, schedules are sampled; hash lookups are assumed order-free, iteration is audited by regex.",
        technique="Lean 4 refinement of the cached checker to a pure function + permutation-invariance theorem + shared-checker / multi-thread / process-restart differential runs + hash-iteration source audit",
        design="§4 C12"),
    "C13": dict(
        text="Lean 4: the modelled lints (scope analysis, undefined_variable, unused_variable, shadowing) are functions of the trivia-free tree in token space and provably cannot observe the layout (C13_layout_free, C13_tables_layout_free, C13_shift: parametricity, by rfl). Tied to the code and extended to every lint by twin runs: each program and two trivia-rewritten twins are linted by the real Checker under two libraries and compared in token space; this exposed eight layout dependencies now fixed in /repo.",
        note=PROOF_NOTE + "PARTIAL by design: layout-independence of lints that are not modelled in Lean rests on the twin runs; documented exceptions (comments_count, filter comments) are not exercised.",
        technique="Lean 4 parametricity theorem for the modelled lints + program/trivia-twin differential runs of the real Checker in token space",
        design="§4 C13"),
    "C14": dict(
        text="Machine-checked (Lean 4), for every chunk, every name filter and every injective renaming of identifiers that fixes `...` and `self` and keeps every name on its side of the filters (the property's ignore-pattern side condition): C14_log_invariant — the machine's whole log (every read with the declaration it denotes, every kept declaration with what it shadows, every global assignment) is identical for the renamed chunk; corollaries C14_resolution_invariant, C14_shadowing_invariant; lookup_rename / declare_rename for the source-order resolver. Checked on the real code by linting each program and twins whose script-introduced spellings — local names and field names — are injectively renamed to fresh names (a quarter longer than 32 bytes), over generated programs, the fixtures and a corpus of number-like / case-variant / keyword-like spellings.",
        note=PROOF_NOTE + "PARTIAL: what the lints add on top of the resolution (library lookups by name, message texts, per-lint name comparisons such as duplicate_keys / mismatched_arg_count / almost_swapped) is where the property's side conditions come from; that part is decided by the twin runs.",
        technique="Lean 4 proof of invariance of the resolution machine's log under filter-preserving injective renamings (30 mutual lemmas over the ordered specification + CoreProof.analyse_eq) + program/renamed-twin differential runs of the real Checker",
        design="§4 C14"),
    "C15": dict(
        text="Machine-checked proof (Lean 4) that the model of StandardLibrary::extend / base chains / `+` folds answers every key and lua_versions as the property states, for all libraries and chain lengths; the model is tied to the code by differential runs on generated pairs, chains and the shipped built-in chains.",
        note=PROOF_NOTE + "file-system resolution of library names and serde_yaml are outside the model.",
        technique="Lean 4 theorems over an association-list model of extend (C15_lookup, C15_base_chain, C15_versions) + model/implementation correspondence run",
        design="§4 C15"),
    "C16": dict(
        text="Machine-checked proof that the dialect set computed by the model of lua_version() is exactly the union of the declared versions (5.1 when none), that a dialect-gated construct is accepted iff an enabling dialect is declared, and - by `decide` over a table regenerated from default_std/*.yml on every run - that each built-in library enables the dialect it is named after and those of all its ancestors; tied to the code by differential runs incl. the real full_moon parser on a construct matrix.",
        note=PROOF_NOTE + "parser acceptance itself is full_moon's (assumed `construct parses iff an enabling dialect is on`, validated on the matrix only); translator for the std headers is regex-based and trusted.",
        technique="Lean 4 theorems (C16_union, C16_accepts, C16_builtin by decide over a regenerated table) + correspondence with lua_version() and full_moon::parse_fallible",
        design="§4 C16"),
    "C17": dict(
        text="Machine-checked proof (Lean 4) over a serde data-model-level model of StandardLibrary's Serialize / Deserialize (flatten + untagged FieldKindSerde with its variant order, skip_serializing_if defaults, the ArgumentType / Required visitors, LuaVersion's Unknown fall-back) that de (ser l) = ok l exactly for the well-formed libraries (C17_roundtrip_iff), that every document that loads yields a well-formed library and therefore re-serialises to something that loads back equal (C17_loaded_wf, C17_reload), and that the v1 upgrade always produces a well-formed library whose YAML loads back to it (C17_upgrade, C17_upgrade_roundtrip); the model is tied to the code by differential runs of to_value / from_value / From<v1::StandardLibrary> on generated, shipped and malformed inputs, and the text layer is covered by executing the real YAML text round trip, `selene upgrade-std` and the CLI on every run.",
        note=PROOF_NOTE + "YAML / TOML text emission and parsing is serde_yaml's / toml's (not modelled; real text round trip executed instead); the only library values excluded by the hypothesis are LuaVersion::Unknown(<known name>), which no file can produce (executed on the real code: they reload as the known version).",
        technique="Lean 4 theorems (C17_roundtrip, C17_roundtrip_iff, C17_loaded_wf, C17_reload, C17_ser_injective, C17_upgrade, C17_upgrade_roundtrip, C17_lookup_preserved) + value-level correspondence (to_value vs ser, from_value vs de on well-formed and malformed documents, upgrade) + real text round trip, upgrade-std binary and CLI diagnostics comparison",
        design="§4 C17"),
    "C18": dict(
        text="Machine-checked proofs over a validator model of the worker pool: any permutation of the workers' counter additions yields the same totals and exit status (C18_totals, C18_exit), the summary of an accepted trace is the sum of all additions (C18_summary), and everything an accepted trace writes is the in-order concatenation of non-overlapping single-thread lock spans (C18_blocks, C18_span_single_thread). The model is tied to the binary by trace validation (hook events replayed through the model's step function on every run) and by comparing multi-threaded with sequential output.",
        note=PROOF_NOTE + "atomicity of fetch_add, mutual exclusion of the stdout lock and correct placement of the hook events are assumptions; schedules are those reached by repeated execution (under load in thorough).",
        technique="Lean 4 theorems over a trace-validator model (permutation invariance of totals, block structure of accepted traces) + trace validation of the real binary + output comparison across thread counts",
        design="§4 C18"),
    "C19": dict(
        text="Machine-checked proof that the model of the CLI's counting and exit logic exits 0 iff no error / parse error / unopenable file / library error / crashed worker occurred and (no warning or --allow-warnings), that the printed totals equal the per-severity counts of printed diagnostics plus unopenable files, that Allow diagnostics contribute nothing, and that exclusion is exactly the documented filter; tied to the real binary by runs over forced sign patterns x flags x styles x severity configs, including provoked worker crashes.",
        note=PROOF_NOTE + "globset matching is abstract (file names chosen so that the pattern's verdict is known); per-file outcomes are observed by single-file runs of the same binary.",
        technique="Lean 4 theorems over the exit/count model (C19_exit by omega, C19_totals, C19_exclude) + CLI correspondence runs",
        design="§4 C19"),
    "C20": dict(
        text="Machine-checked proof that the location scan (byte offset -> line/column) returns the specified line and column on every character-boundary offset and fails exactly on the others (C20_location, C20_location_fails), that on a well-formed range all five styles render the same row and none fails (C20_same, C20_no_crash), and that a range ending inside a multi-byte character crashes exactly the styles that look up the end position (C20_crash_split). Tied to the binary by parsing all five styles' output on generated inputs and recomputing every json offset/line/column from the source.",
        note=PROOF_NOTE + "codespan's renderer is modelled only through the header row; luacheck continuation rows are checked for shape (column 1), not content.",
        technique="Lean 4 theorems over a scan model of codespan's location lookup and the per-style projection + five-style CLI correspondence",
        design="§4 C20"),
}

ALL = [f"C{i:02d}" for i in range(1, 21)]

def main():
    checks = []
    for pid in ALL:
        if pid not in CLAIMED:
            continue
        c = CLAIMED[pid]
        checks.append({
            "property_id": pid,
            "quick_cmd": f"./check {pid} --tier quick",
            "thorough_cmd": f"./check {pid} --tier thorough",
            "evidence_file": f"/verif/evidence/{pid}.json",
            "replay_cmd_template": f"./check {pid} --replay {{path}}",
            "engine": "lean4-proof+correspondence",
            "level_claimed": {"category": "proof", "text": c["text"], "design_ref": c["design"]},
            "level_note": c["note"],
            "technique": c["technique"],
        })
    na = [{"property_id": pid, "reason": "not claimed yet: model, theorems and correspondence check for this property are still under construction (see DESIGN.md §7 order of work); the technique applies"} for pid in ALL if pid not in CLAIMED]
    m = {
        "version": 1,
        "setup_cmd": "python3 /verif/tools/translate.py && cd /verif/lean && lake build Selene selene_model && cd /verif/harness && cp -n /repo/Cargo.lock Cargo.lock; CARGO_NET_OFFLINE=true cargo build --offline",
        "hooks": {
            "guard": "cargo feature `verif-hooks` (selene-lib/verif-hooks, selene/verif-hooks)",
            "enable": "harness depends on selene-lib with features=[\"verif-hooks\"]; CLI built with `cargo build --workspace --features selene/verif-hooks`",
            "baseline_off_cmd": "cd /repo && cargo test --workspace --no-fail-fast --offline",
            "source_commits": ["4647f5f"],
            "add_only": True,
        },
        "engines": [{
            "name": "lean4-proof+correspondence",
            "path": "/verif/lean, /verif/harness, /verif/check",
            "serves_properties": sorted(CLAIMED),
            "kind_free_text": "Lean 4 model + specification + kernel-checked theorems; Rust harness runs the real code on generated inputs, the compiled Lean model driver runs model and specification on the same inputs; python driver diffs and writes evidence",
        }],
        "checks": checks,
        "not_applicable": na,
        "notes": "See DESIGN.md. Fixes to /repo are separate `fix:` commits listed in known_findings.txt.",
    }
    json.dump(m, open(os.path.join(V, "MANIFEST.json"), "w"), indent=1)

if __name__ == "__main__":
    main()
